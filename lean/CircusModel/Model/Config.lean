/-
Model of `circus/config.py : get_config` (with `watcher_defaults`, `DefaultConfigParser.items/get/dget`,
`rlimit_value`) and of the parts of `circus/util.py` it uses: `replace_gnu_args` restricted to the
`env=` keyword (the `circus.env.` namespace), `to_bool`, Python's `int()`/`float()` on ASCII text,
`str.strip`, `fnmatch.fnmatch` (POSIX: case-sensitive glob `*`, `?`, `[seq]`, `[!seq]`, ranges).

Input of `getConfig`: the *section list* as `StrictConfigParser._read` leaves it in `cfg._sections`
(sections in order of first appearance, options in order of first appearance, values stripped and
joined) plus the daemon environment `os.environ` as an ordered list.  The line-level reader is
modelled at the end of this file (`readIni`), so that the driver can start from the ini text.

Strings are lists of code points (`Nat`), ASCII only (the driver rejects anything else):
`str.lower`, `\w`, `isspace` are modelled for ASCII.  Python dicts are insertion-ordered association
lists (`dset` replaces in place or appends, exactly like `dict.__setitem__`).

Transliteration rules (DESIGN.md 3.4): same loops, same guards, same order.
`to_signum` is a parameter (`sig`), so is `resource.RLIM_INFINITY` (= -1 on Linux).
-/
namespace Circus.Config

abbrev Str := List Nat

/-- code points of a string (run time) -/
def cps (x : String) : Str := x.toList.map Char.toNat

/-- `cp! "cmd"` is the list literal `[99, 109, 100]`: the code points of a string literal, written
    out at elaboration time (the kernel is slow at decoding `String` literals, and the proofs by
    evaluation need the constants of the model in evaluated form) -/
macro "cp!" s:str : term => do
  let cs := s.getString.toList.toArray.map (fun c => Lean.Syntax.mkNumLit (toString c.toNat))
  `(([$cs,*] : List Nat))

/-! ### Python dict as insertion-ordered association list -/

abbrev Dict (α : Type) := List (Str × α)

/-- `d.get(k)` -/
def dget {α} : Dict α → Str → Option α
  | [], _ => none
  | (k', v) :: r, k => if k' = k then some v else dget r k

/-- `d[k] = v` -/
def dset {α} : Dict α → Str → α → Dict α
  | [], k, v => [(k, v)]
  | (k', v') :: r, k, v => if k' = k then (k', v) :: r else (k', v') :: dset r k v

/-- `d.update(items)` (items in iteration order) -/
def dupdate {α} (d : Dict α) (items : List (Str × α)) : Dict α :=
  items.foldl (fun acc kv => dset acc kv.1 kv.2) d

/-- `dict(items)` -/
def dictOf {α} (items : List (Str × α)) : Dict α := dupdate [] items

/-- the value the *last* pair with key `k` carries (what `dict(items)[k]` is) -/
def lastVal {α} : List (Str × α) → Str → Option α
  | [], _ => none
  | (k', v) :: r, k =>
    match lastVal r k with
    | some w => some w
    | none => if k' = k then some v else none

/-! ### characters -/

/-- `str.lower` on ASCII -/
def lower (c : Nat) : Nat := if 65 ≤ c ∧ c ≤ 90 then c + 32 else c
def lowerS (s : Str) : Str := s.map lower

/-- `str.isspace` on ASCII: TAB LF VT FF CR, FS GS RS US, SPACE (what `str.strip()` removes) -/
def isSpace (c : Nat) : Bool := (9 ≤ c && c ≤ 13) || (28 ≤ c && c ≤ 31) || c == 32

/-- what `int()` / `float()` skip around the number: TAB LF VT FF CR SPACE only -/
def isNumSpace (c : Nat) : Bool := (9 ≤ c && c ≤ 13) || c == 32

def isDigit (c : Nat) : Bool := 48 ≤ c && c ≤ 57

/-- `\w` on ASCII -/
def isWord (c : Nat) : Bool :=
  isDigit c || (65 ≤ c && c ≤ 90) || (97 ≤ c && c ≤ 122) || c == 95

/-- `[\w\.\-]` : `_SECTION_NAME` of util.py -/
def isNameChar (c : Nat) : Bool := isWord c || c == 46 || c == 45

def stripBy (p : Nat → Bool) (s : Str) : Str :=
  ((s.dropWhile p).reverse.dropWhile p).reverse

/-- `str.strip()` -/
def strip (s : Str) : Str := stripBy isSpace s

def startsWith (p s : Str) : Bool := p.isPrefixOf s

/-- `s.split(sep)` for a one-character separator -/
def splitOn1 (sep : Nat) : Str → List Str
  | [] => [[]]
  | c :: r =>
    if c = sep then [] :: splitOn1 sep r
    else match splitOn1 sep r with
      | [] => [[c]]          -- unreachable: the result is never empty
      | h :: t => (c :: h) :: t

/-- `s.split(sep, 1)` for a one-character separator: `none` when `sep` does not occur -/
def splitFirst (sep : Nat) : Str → Option (Str × Str)
  | [] => none
  | c :: r =>
    if c = sep then some ([], r)
    else match splitFirst sep r with
      | some (a, b) => some (c :: a, b)
      | none => none

/-- `s.split(pat)[-1]`: what follows the last occurrence of `pat` (`s` itself when there is none) -/
def afterLast? (pat : Str) : Str → Option Str
  | [] => none
  | c :: r =>
    match afterLast? pat r with
    | some x => some x
    | none => if startsWith pat (c :: r) then some ((c :: r).drop pat.length) else none

def afterLast (pat s : Str) : Str := (afterLast? pat s).getD s

/-! ### `int()`, `float()` restricted to decimals, `to_bool` -/

def digitsVal (ds : Str) : Nat := ds.foldl (fun acc c => acc * 10 + (c - 48)) 0

/-- digits with single underscores between digits (`1_000`), as `int()` accepts; returns the
    digits with the underscores removed -/
def digitGroups : Str → Option Str
  | [] => none
  | [c] => if isDigit c then some [c] else none
  | c :: 95 :: r =>
    if isDigit c then (digitGroups r).map (c :: ·) else none
  | c :: r =>
    if isDigit c then (digitGroups r).map (c :: ·) else none

/-- Python `int(s)` for ASCII `s` (base 10): surrounding blanks, optional sign, digit groups -/
def parseInt (s : Str) : Option Int :=
  let t := stripBy isNumSpace s
  let (neg, body) := match t with
    | 45 :: r => (true, r)
    | 43 :: r => (false, r)
    | r => (false, r)
  match digitGroups body with
  | some ds => some (if neg then - (digitsVal ds : Int) else (digitsVal ds : Int))
  | none => none

/-- result of `float(s)` in the modelled fragment -/
inductive FloatRes where
  | ok (m : Int) (e : Nat)      -- the decimal `m / 10^e`, `e` minimal
  | invalid                     -- Python raises ValueError
  | unsupported                 -- exponent / underscore / inf / nan forms: outside the model
  deriving DecidableEq, Repr

/-- strip trailing decimal zeros: `(m, e)` with `10 ∤ m` or `e = 0` -/
def normDec : Nat → Nat → Nat × Nat
  | m, 0 => (m, 0)
  | m, e + 1 => if m % 10 = 0 then normDec (m / 10) e else (m, e + 1)

/-- texts `float()` may accept that are outside the modelled decimals: `inf`, `infinity`, `nan`
    after the sign, or a text over `0-9 + - . _ e E` that uses `_`, `e` or `E` -/
def floatUnsupported (t : Str) : Bool :=
  let body := match t with
    | 45 :: r => r
    | 43 :: r => r
    | r => r
  let lb := lowerS body
  lb == cp! "inf" || lb == cp! "infinity" || lb == cp! "nan"
  || (t.all (fun c => isDigit c || c == 43 || c == 45 || c == 46 || c == 95 || c == 101 || c == 69)
      && t.any (fun c => c == 95 || c == 101 || c == 69))

/-- Python `float(s)` for plain decimals `[+-]? (d+ ('.' d*)? | '.' d+)` -/
def parseFloat (s : Str) : FloatRes :=
  let t := stripBy isNumSpace s
  if floatUnsupported t then .unsupported else
  let (neg, body) := match t with
    | 45 :: r => (true, r)
    | 43 :: r => (false, r)
    | r => (false, r)
  let ip := body.takeWhile isDigit
  let rest := body.dropWhile isDigit
  let (fp, tail, _dot) := match rest with
    | 46 :: r => (r.takeWhile isDigit, r.dropWhile isDigit, true)
    | r => ([], r, false)
  if tail ≠ [] then .invalid
  else if ip = [] ∧ fp = [] then .invalid
  else
    let (m, e) := normDec (digitsVal (ip ++ fp)) fp.length
    .ok (if neg then - (m : Int) else (m : Int)) e

/-- `to_bool(s)` for a `str` argument: `none` = ValueError -/
def toBool (s : Str) : Option Bool :=
  let t := strip (lowerS s)
  if t = cp! "yes" ∨ t = cp! "true" ∨ t = cp! "on" ∨ t = cp! "1" then some true
  else if t = cp! "no" ∨ t = cp! "false" ∨ t = cp! "off" ∨ t = cp! "0" then some false
  else none

/-! ### `fnmatch.fnmatch(name, pat)` on POSIX (CPython 3.12 `fnmatch.translate`) -/

inductive Tok where
  | star
  | any
  | lit (c : Nat)
  | cls (neg : Bool) (chunks : List Str)
  deriving DecidableEq, Repr

/-- after `[`: `some (stuff, rest after the closing bracket)`, `none` when there is no closing
    bracket (`[` is then a literal).  `j` skips a leading `!` and a leading `]`; `stuff` keeps them. -/
def splitClass (p : Str) : Option (Str × Str) :=
  let (neg, p1) := match p with
    | 33 :: r => ([33], r)
    | r => ([], r)
  let (first, p2) := match p1 with
    | 93 :: r => ([93], r)
    | r => ([], r)
  let body := p2.takeWhile (· ≠ 93)
  match p2.dropWhile (· ≠ 93) with
  | [] => none
  | _ :: rest => some (neg ++ first ++ body, rest)

/-- the `while True: k = pat.find('-', k, j) …` loop of `translate`: a hyphen splits the bracket body
    only when `skip` characters of the current chunk have gone by (1 for the first chunk, 2 after a
    leading `!` and in every later chunk: `k = k + 3`); the last element is `pat[i:j]` -/
def chunkSplit : Nat → Str → Str → List Str
  | _, cur, [] => [cur]
  | skip, cur, c :: r =>
    if skip = 0 ∧ c = 45 then cur :: chunkSplit 2 [] r
    else chunkSplit (skip - 1) (cur ++ [c]) r

/-- `if chunk: chunks.append(chunk) else: chunks[-1] += '-'` -/
def chunkClose (cs : List Str) : List Str :=
  match cs.getLast? with
  | some [] => match cs.dropLast with
    | [] => cs
    | ds => ds.dropLast ++ [ds.getLast?.getD [] ++ [45]]
  | _ => cs

/-- "remove empty ranges": `for k in range(len(chunks)-1, 0, -1): if chunks[k-1][-1] > chunks[k][0]:
    chunks[k-1] = chunks[k-1][:-1] + chunks[k][1:]; del chunks[k]` (pairs handled right to left) -/
def chunkMerge : List Str → List Str
  | [] => []
  | [c] => [c]
  | c :: d :: r =>
    match chunkMerge (d :: r) with
    | [] => [c]
    | d' :: ds =>
      match c.getLast?, d'.head? with
      | some a, some b => if a > b then (c.dropLast ++ d'.tail) :: ds else c :: d' :: ds
      | _, _ => c :: d' :: ds

/-- the bracket body as `translate` leaves it: negated (the *resulting* text starts with `!`), and
    the chunks whose joining hyphens are the range operators of the regular expression; every other
    character (escaped hyphens and backslashes, `&~|`, a leading `^` or `[`) is a literal.  An empty
    result never matches (`(?!)`), a bare `!` matches every character (`.`). -/
def classOf (stuff : Str) : Bool × List Str :=
  let cs := chunkMerge (chunkClose (chunkSplit (if stuff.head? = some 33 then 2 else 1) [] stuff))
  match cs with
  | (33 :: c) :: r => (true, c :: r)
  | _ => (false, cs)

/-- pattern → tokens; `fuel` bounds the number of tokens (`pat.length` is enough) -/
def tokenize : Nat → Str → List Tok
  | 0, _ => []
  | _, [] => []
  | n + 1, 42 :: r => .star :: tokenize n r
  | n + 1, 63 :: r => .any :: tokenize n r
  | n + 1, 91 :: r =>
    match splitClass r with
    | none => .lit 91 :: tokenize n r
    | some (stuff, rest) => .cls (classOf stuff).1 (classOf stuff).2 :: tokenize n rest
  | n + 1, c :: r => .lit c :: tokenize n r

/-- membership in `[c0-c1-…]`: the characters of the chunks, and the range from the last character
    of a chunk to the first of the next one; a chunk left empty by the removal of a leading `!`
    makes the hyphen after it a literal -/
def inSet (c : Nat) : List Str → Bool
  | [] => false
  | [x] => x.contains c
  | x :: y :: r =>
    x.contains c ||
    (match x.getLast?, y.head? with
     | some a, some b => a ≤ c && c ≤ b
     | _, _ => c == 45) || inSet c (y :: r)

/-- `STAR fixed…`: try the continuation at every suffix -/
def starLoop (k : Str → Bool) : Str → Bool
  | [] => k []
  | c :: s => k (c :: s) || starLoop k s

def matchToks : List Tok → Str → Bool
  | [], s => s.isEmpty
  | .star :: ts, s => starLoop (matchToks ts) s
  | .any :: ts, s => match s with
    | [] => false
    | _ :: s' => matchToks ts s'
  | .lit c :: ts, s => match s with
    | [] => false
    | d :: s' => c == d && matchToks ts s'
  | .cls neg set :: ts, s => match s with
    | [] => false
    | d :: s' => (neg != inSet d set) && matchToks ts s'

/-- `fnmatch(name, pat)` -/
def fnmatch (name pat : Str) : Bool := matchToks (tokenize pat.length pat) name

/-! ### `replace_gnu_args(data, env=env)` -/

/-- the `fmt_options` table: `'circus.env.' + key.lower()` ↦ value, later keys overwrite -/
def fmtOptions (env : Dict Str) : Dict Str :=
  env.foldl (fun acc kv => dset acc (cp! "circus.env." ++ lowerS kv.1) kv.2) []

/-- `lower(s)` starts with the (lower-case) `p`: the rest of `s` -/
def ciPrefix : Str → Str → Option Str
  | [], s => some s
  | _ :: _, [] => none
  | a :: p, c :: s => if lower c = a then ciPrefix p s else none

/-- `_CIRCUS_VAR.match` at the head of `s`: `some (length of the match, group text)`.
    `\$\(circus\.([\w\.\-]+)\)|\(\(circus\.([\w\.\-]+)\)\)`, re.I; the group is a maximal run of
    name characters because the character after it must be `)`. -/
def matchRef (s : Str) : Option (Nat × Str) :=
  match s with
  | 36 :: 40 :: r =>
    match ciPrefix (cp! "circus.") r with
    | some r' =>
      let g := r'.takeWhile isNameChar
      match r'.dropWhile isNameChar with
      | 41 :: _ => if g = [] then none else some (g.length + 10, g)
      | _ => none
    | none => none
  | 40 :: 40 :: r =>
    match ciPrefix (cp! "circus.") r with
    | some r' =>
      let g := r'.takeWhile isNameChar
      match r'.dropWhile isNameChar with
      | 41 :: 41 :: _ => if g = [] then none else some (g.length + 11, g)
      | _ => none
    | none => none
  | _ => none

/-- `_repl`: the looked-up option name for a group -/
def optionKey (g : Str) : Str :=
  let o := lowerS g
  if startsWith (cp! "circus") o then o else cp! "circus." ++ o

/-- `match.sub(_repl, data)`: `skip` = characters of a match still to be passed over -/
def expandAux (tbl : Dict Str) : Nat → Str → Str
  | _, [] => []
  | k + 1, _ :: r => expandAux tbl k r
  | 0, c :: r =>
    match matchRef (c :: r) with
    | some (len, g) =>
      (match dget tbl (optionKey g) with
        | some v => v
        | none => (c :: r).take len) ++ expandAux tbl (len - 1) r
    | none => c :: expandAux tbl 0 r

/-- `replace_gnu_args(s, env=env)` -/
def expand (env : Dict Str) (s : Str) : Str := expandAux (fmtOptions env) 0 s

/-! ### `get_config` -/

inductive Val where
  | none
  | int (i : Int)
  | dec (m : Int) (e : Nat)      -- a Python float, as the decimal `m / 10^e`
  | bool (b : Bool)
  | str (s : Str)
  deriving DecidableEq, Repr

inductive Err where
  | valueError
  | keyError
  | outOfDomain                  -- not an exception of the code: the input left the modelled fragment
  deriving DecidableEq, Repr

structure Section where
  name : Str
  kvs : List (Str × Str)
  deriving DecidableEq, Repr

/-- `cfg.items(section, noreplace=True)`: CPython 3 keeps the `__name__` entry `_read` stores -/
def Section.items (s : Section) : List (Str × Str) := (cp! "__name__", s.name) :: s.kvs

/-- `cfg.items(section)`: every value through `replace_gnu_args(value, env=cfg._env)` -/
def Section.itemsExp (env : Dict Str) (s : Section) : List (Str × Str) :=
  s.items.map (fun kv => (kv.1, expand env kv.2))

structure Watcher where
  name : Str
  opts : Dict Val                -- every key except name, env, rlimits, hooks, stderr_stream, stdout_stream
  rlimits : Dict Int
  stderr : Dict Str
  stdout : Dict Str
  hooks : Dict (Str × Bool)
  env : Dict Str
  deriving DecidableEq, Repr

/-- `watcher_defaults()` (SIGTERM = 15) without the keys kept in separate fields -/
def defaults : Dict Val :=
  [ (cp! "cmd", .str []), (cp! "args", .str []), (cp! "numprocesses", .int 1),
    (cp! "warmup_delay", .int 0), (cp! "executable", .none), (cp! "working_dir", .none),
    (cp! "on_demand", .bool false), (cp! "shell", .bool false), (cp! "uid", .none),
    (cp! "gid", .none), (cp! "send_hup", .bool false), (cp! "stop_signal", .int 15),
    (cp! "stop_children", .bool false), (cp! "max_retry", .int 5),
    (cp! "graceful_timeout", .int 30), (cp! "priority", .int 0),
    (cp! "use_sockets", .bool false), (cp! "singleton", .bool false),
    (cp! "copy_env", .bool false), (cp! "copy_path", .bool false),
    (cp! "respawn", .bool true), (cp! "autostart", .bool true) ]

def rawOpts : List Str := [cp! "cmd", cp! "args", cp! "working_dir", cp! "uid", cp! "gid"]

def boolFOpts : List Str :=
  [cp! "on_demand", cp! "shell", cp! "send_hup", cp! "stop_children", cp! "close_child_stderr",
   cp! "use_sockets", cp! "singleton", cp! "copy_env", cp! "copy_path", cp! "close_child_stdout"]

def boolTOpts : List Str :=
  [cp! "check_flapping", cp! "respawn", cp! "autostart", cp! "close_child_stdin"]

/-- the branch of the `if opt … elif …` chain of the option loop, guards in the code's order -/
inductive Branch where
  | raw | int | strExp | bool | signum | float | stream | rlimit | hook | free
  deriving DecidableEq, Repr

def classify (opt : Str) : Branch :=
  if opt ∈ rawOpts then .raw
  else if opt = cp! "numprocesses" then .int
  else if opt = cp! "warmup_delay" then .int
  else if opt = cp! "executable" then .strExp
  else if opt ∈ boolFOpts then .bool
  else if opt = cp! "stop_signal" then .signum
  else if opt = cp! "max_retry" then .int
  else if opt = cp! "graceful_timeout" then .float
  else if startsWith (cp! "stderr_stream") opt || startsWith (cp! "stdout_stream") opt then .stream
  else if startsWith (cp! "rlimit_") opt then .rlimit
  else if opt = cp! "priority" then .int
  else if startsWith (cp! "hooks.") opt then .hook
  else if opt ∈ boolTOpts then .bool
  else .free

/-- `dget(section, opt, _, int)` for an option that is present -/
def convInt (genv : Dict Str) (val : Str) : Except Err Val :=
  match parseInt (expand genv val) with
  | some i => .ok (.int i)
  | none => .error .valueError

def convBool (genv : Dict Str) (val : Str) : Except Err Val :=
  match toBool (expand genv val) with
  | some b => .ok (.bool b)
  | none => .error .valueError

def convFloat (genv : Dict Str) (val : Str) : Except Err Val :=
  match parseFloat (expand genv val) with
  | .ok m e => .ok (.dec m e)
  | .invalid => .error .valueError
  | .unsupported => .error .outOfDomain

def convSignum (sig : Str → Option Nat) (val : Str) : Except Err Val :=
  match sig val with
  | some n => .ok (.int n)
  | none => .error .valueError

/-- `rlimit_value(val)`; `RLIM_INFINITY = -1` -/
def rlimitValue (val : Str) : Except Err Int :=
  if val = [] then .ok (-1)
  else match parseInt val with
    | some i => .ok i
    | none => .error .valueError

/-- the `hooks.` branch: `[name, flag]` -/
def hookValue (val : Str) : Except Err (Str × Bool) :=
  match splitFirst 44 val with
  | none => .ok (strip val, false)
  | some (a, b) =>
    match toBool (strip b) with
    | some f => .ok (strip a, f)
    | none => .error .valueError

def Watcher.setOpt (w : Watcher) (k : Str) (v : Val) : Watcher := { w with opts := dset w.opts k v }

/-- one iteration of `for opt, val in cfg.items(section, noreplace=True)` -/
def typeOpt (sig : Str → Option Nat) (genv : Dict Str) (w : Watcher) (ov : Str × Str) :
    Except Err Watcher :=
  let opt := ov.1
  let val := ov.2
  match classify opt with
  | .raw => .ok (w.setOpt opt (.str val))
  | .int => (convInt genv val).map (w.setOpt opt)
  | .strExp => .ok (w.setOpt opt (.str (expand genv val)))
  | .bool => (convBool genv val).map (w.setOpt opt)
  | .signum => (convSignum sig val).map (w.setOpt opt)
  | .float => (convFloat genv val).map (w.setOpt opt)
  | .stream =>
    match splitFirst 46 opt with
    | none => .error .valueError                    -- `a, b = opt.split(".", 1)` cannot unpack
    | some (sn, so) =>
      if sn = cp! "stderr_stream" then .ok { w with stderr := dset w.stderr so val }
      else if sn = cp! "stdout_stream" then .ok { w with stdout := dset w.stdout so val }
      else .error .keyError                         -- `watcher[stream_name]`
  | .rlimit => (rlimitValue val).map (fun i => { w with rlimits := dset w.rlimits (opt.drop 7) i })
  | .hook => (hookValue val).map (fun h => { w with hooks := dset w.hooks (opt.drop 6) h })
  | .free => .ok (w.setOpt opt (.str val))

def foldlE {α β ε} (f : α → β → Except ε α) : α → List β → Except ε α
  | a, [] => .ok a
  | a, b :: r => match f a b with
    | .ok a' => foldlE f a' r
    | .error e => .error e

/-- the `if section.startswith("watcher:")` block -/
def mkWatcher (sig : Str → Option Nat) (genv lenv : Dict Str) (s : Section) : Except Err Watcher :=
  let w0 : Watcher := { name := s.name.drop 8, opts := defaults, rlimits := [], stderr := [],
                        stdout := [], hooks := [], env := [] }
  match foldlE (typeOpt sig genv) w0 s.items with
  | .error e => .error e
  | .ok w =>
    .ok { w with env := if dget w.opts (cp! "copy_env") = some (.bool true) then genv else lenv }

/-- the `if section.startswith("socket:")` block -/
def mkSocket (genv : Dict Str) (s : Section) : Except Err (Dict Val) :=
  let d : Dict Val := (dictOf (s.itemsExp genv)).map (fun kv => (kv.1, Val.str kv.2))
  let d := dset d (cp! "name") (.str (lowerS (afterLast (cp! "socket:") s.name)))
  let bopt (d : Dict Val) (k : Str) : Except Err (Dict Val) :=
    match dget s.kvs k with
    | none => .ok (dset d k (.bool false))
    | some v => (convBool genv v).map (dset d k)
  match bopt d (cp! "so_reuseport") with
  | .error e => .error e
  | .ok d1 => bopt d1 (cp! "replace")

/-- the `if section.startswith("plugin:")` block -/
def mkPlugin (genv : Dict Str) (s : Section) : Except Err (Dict Val) :=
  let d : Dict Val := (dictOf (s.itemsExp genv)).map (fun kv => (kv.1, Val.str kv.2))
  let d := dset d (cp! "name") (.str s.name)
  match dget d (cp! "priority") with
  | some (.str p) =>
    (match parseInt p with
     | some i => .ok (dset d (cp! "priority") (.int i))
     | none => .error .valueError)
  | _ => .ok d

structure Acc where
  watchers : List Watcher
  plugins : List (Dict Val)
  sockets : List (Dict Val)
  deriving Repr

/-- body of the first `for section in cfg.sections()` loop -/
def firstStep (sig : Str → Option Nat) (genv lenv : Dict Str) (a : Acc) (s : Section) :
    Except Err Acc :=
  let keys := (dictOf (s.itemsExp genv)).map (·.1)
  if keys = [] ∨ keys = [cp! "__name__"] then .ok a
  else
    let r1 : Except Err Acc :=
      if startsWith (cp! "socket:") s.name then
        (mkSocket genv s).map (fun x => { a with sockets := a.sockets ++ [x] })
      else .ok a
    match r1 with
    | .error e => .error e
    | .ok a1 =>
      let r2 : Except Err Acc :=
        if startsWith (cp! "plugin:") s.name then
          (mkPlugin genv s).map (fun x => { a1 with plugins := a1.plugins ++ [x] })
        else .ok a1
      match r2 with
      | .error e => .error e
      | .ok a2 =>
        if startsWith (cp! "watcher:") s.name then
          (mkWatcher sig genv lenv s).map (fun x => { a2 with watchers := a2.watchers ++ [x] })
        else .ok a2

/-- Python `str <` : lexicographic on code points -/
def strLt : Str → Str → Bool
  | [], [] => false
  | [], _ :: _ => true
  | _ :: _, [] => false
  | a :: r, b :: t => a < b || (a == b && strLt r t)

def insertBy {α} (key : α → Str) (x : α) : List α → List α
  | [] => [x]
  | y :: r => if strLt (key x) (key y) then x :: y :: r else y :: insertBy key x r

/-- `list.sort(key=…)`: stable -/
def sortBy {α} (key : α → Str) (l : List α) : List α :=
  l.foldl (fun acc x => insertBy key x acc) []

def dictName (d : Dict Val) : Str :=
  match dget d (cp! "name") with
  | some (.str s) => s
  | _ => []

/-- `watcher_patterns` of an `env:` section -/
def patterns (secName : Str) : List Str := (splitOn1 44 (secName.drop 4)).map strip

/-- the section is an `env:` section one of whose patterns matches the watcher name -/
def applies (s : Section) (wname : Str) : Bool :=
  startsWith (cp! "env:") s.name && (patterns s.name).any (fun p => fnmatch wname p)

/-- `for pattern in watcher_patterns: for watcher in match: watcher['env'].update(env_items)` -/
def applyEnvSection (s : Section) (ws : List Watcher) : List Watcher :=
  (patterns s.name).foldl
    (fun ws pat => ws.map (fun w =>
      if fnmatch w.name pat then { w with env := dupdate w.env (dictOf s.items) } else w)) ws

/-- second pass: `for section in cfg.sections(): if section.startswith('env:')` -/
def secondPass (secs : List Section) (ws : List Watcher) : List Watcher :=
  secs.foldl (fun ws s => if startsWith (cp! "env:") s.name then applyEnvSection s ws else ws) ws

def expandVal (env : Dict Str) : Val → Val
  | .str s => .str (expand env s)
  | v => v

/-- `env = dict(global_env); env.update(watcher['env']); _expand_section(watcher, env)` -/
def finalExpand (genv : Dict Str) (w : Watcher) : Watcher :=
  let env := dupdate genv w.env
  { w with
    opts := w.opts.map (fun kv => (kv.1, expandVal env kv.2))
    stderr := w.stderr.map (fun kv => (kv.1, expand env kv.2))
    stdout := w.stdout.map (fun kv => (kv.1, expand env kv.2)) }

structure Config where
  watchers : List Watcher
  plugins : List (Dict Val)
  sockets : List (Dict Val)
  deriving Repr

/-- `local_env` after the `[env]` block: `dict(cfg.items('env'))`, values expanded with `os.environ` -/
def localEnv (osenv : Dict Str) (secs : List Section) : Dict Str :=
  match secs.find? (fun s => s.name = cp! "env") with
  | some s => dupdate [] (dictOf (s.itemsExp osenv))
  | none => []

/-- `global_env` after the `[env]` block -/
def globalEnv (osenv : Dict Str) (secs : List Section) : Dict Str :=
  dupdate osenv (localEnv osenv secs)

/-- `get_config` restricted to watchers, plugins, sockets (`[circus]` options are not modelled) -/
def getConfig (sig : Str → Option Nat) (osenv : Dict Str) (secs : List Section) : Except Err Config :=
  let lenv := localEnv osenv secs
  let genv := globalEnv osenv secs
  match foldlE (firstStep sig genv lenv) { watchers := [], plugins := [], sockets := [] } secs with
  | .error e => .error e
  | .ok a =>
    let ws := sortBy Watcher.name a.watchers
    let ws := secondPass secs ws
    .ok { watchers := ws.map (finalExpand genv)
          plugins := sortBy dictName a.plugins
          sockets := sortBy dictName a.sockets }

/-- the value `_repl` substitutes for a reference to `X` under `env` (case-insensitive lookup;
    among keys equal up to case the last one in iteration order wins) -/
def lookupCI (env : Dict Str) (x : Str) : Option Str :=
  dget (fmtOptions env) (cp! "circus.env." ++ lowerS x)

/-! ### the line-level reader `StrictConfigParser._read` (util.py), for ASCII text without `\r`

`_sections` is an ordered list of `(name, options)`, an option's value the list of its lines (joined
with `\n` at the end, like the code).  `[DEFAULT]` is outside the model (`outOfDomain`). -/

abbrev RSections := List (Str × List (Str × List Str))

inductive ReadRes where
  | ok (secs : List Section)
  | missingSectionHeader           -- raised at once
  | parsingError                   -- collected, raised at the end of the file
  | outOfDomain
  deriving DecidableEq, Repr

structure RState where
  secs : RSections := []
  cur : Option Str := none         -- `cursect` (by name); `none` before the first header
  opt : Option Str := none         -- `optname`
  perr : Bool := false             -- `e` is set
  ood : Bool := false              -- an option called `__name__` was written: outside the model
  deriving Repr

/-- `text.split('\n')`: what successive `readline()` calls deliver, without the line ends -/
def splitLines (t : Str) : List Str := splitOn1 10 t

/-- index of the last `]` of the line, if any -/
def lastClose : Str → Option Nat
  | [] => none
  | c :: r =>
    match lastClose r with
    | some i => some (i + 1)
    | none => if c = 93 then some 0 else none

/-- `SECTCRE.match(line)`: `\[(?P<header>.+)\]`, greedy -/
def matchHeader (line : Str) : Option Str :=
  match line with
  | 91 :: r =>
    match lastClose r with
    | some i => if i = 0 then none else some (r.take i)
    | none => none
  | _ => none

/-- `_optcre.match(line)`: option = text before the first `=`/`:`, value = text after it with the
    leading blanks dropped; `none` when the line has no delimiter -/
def matchOption (line : Str) : Option (Str × Str) :=
  let isDelim := fun c => c == 61 || c == 58
  match line.dropWhile (fun c => !isDelim c) with
  | [] => none
  | _ :: v => some (line.takeWhile (fun c => !isDelim c), v.dropWhile isSpace)

/-- the inline-comment rule: only the first `;` counts, it must follow a blank — `optval[pos - 1]`
    with `pos = 0` is Python's `optval[-1]`, the last character -/
def cutComment (v : Str) : Str :=
  match v.idxOf? 59 with
  | none => v
  | some pos =>
    let before := if pos = 0 then v.getLast? else v[pos - 1]?
    match before with
    | some c => if isSpace c then v.take pos else v
    | none => v

def secGet (secs : RSections) (n : Str) : Option (List (Str × List Str)) := dget secs n

/-- `cursect[optname].append(value)` -/
def appendLine (opts : List (Str × List Str)) (k v : Str) : List (Str × List Str) :=
  opts.map (fun kv => if kv.1 = k then (kv.1, kv.2 ++ [v]) else kv)

/-- one iteration of the `while True` loop; `none` = MissingSectionHeaderError -/
def readLine (st : RState) (line : Str) : Option RState :=
  -- comment or blank line?
  if strip line = [] then some st
  else if line.head? = some 35 || line.head? = some 59 then some st
  else if lowerS (line.takeWhile (fun c => !isSpace c)) = cp! "rem"
      && (line.head? = some 114 || line.head? = some 82) then some st
  else
    let contOpt : Option (Str × Str) :=
      match line.head?, st.cur, st.opt with
      | some c, some cur, some o => if isSpace c && o ≠ [] then some (cur, o) else none
      | _, _, _ => none
    match contOpt with
    | some (cur, o) =>
      -- continuation line
      let value := strip line
      some { st with secs := st.secs.map (fun s => if s.1 = cur then (s.1, appendLine s.2 o value) else s) }
    | none =>
      match matchHeader line with
      | some name =>
        if (secGet st.secs name).isSome then some { st with cur := some name, opt := none }
        else some { st with secs := st.secs ++ [(name, [])], cur := some name, opt := none }
      | none =>
        match st.cur with
        | none => none
        | some cur =>
          match matchOption line with
          | none => some { st with perr := true }
          | some (o, v) =>
            let optname := (o.reverse.dropWhile isSpace).reverse      -- rstrip
            if optname = cp! "__name__" then some { st with ood := true } else
            let exists_ := match secGet st.secs cur with
              | some opts => (dget opts optname).isSome
              | none => false
            if exists_ then some { st with opt := some optname }       -- "We don't want to override."
            else
              let v1 := strip (if v.contains 59 then cutComment v else v)
              let v2 := if v1 = [34, 34] then [] else v1
              some { st with opt := some optname
                             secs := st.secs.map (fun s => if s.1 = cur then (s.1, s.2 ++ [(optname, [v2])]) else s) }

def readLines : RState → List Str → Option RState
  | st, [] => some st
  | st, l :: r => match readLine st l with
    | some st' => readLines st' r
    | none => none

/-- `'\n'.join(lines)` -/
def joinNl : List Str → Str
  | [] => []
  | [x] => x
  | x :: r => x ++ 10 :: joinNl r

/-- `cfg.read_file(f)` followed by `cfg.sections()` / `cfg.items(s, noreplace=True)` without `__name__` -/
def readIni (text : Str) : ReadRes :=
  match readLines {} (splitLines text) with
  | none => .missingSectionHeader
  | some st =>
    if st.perr then .parsingError
    else if st.ood then .outOfDomain
    else if st.secs.any (fun s => s.1 = cp! "DEFAULT") then .outOfDomain
    else .ok (st.secs.map (fun s => { name := s.1, kvs := s.2.map (fun kv => (kv.1, joinNl kv.2)) }))

end Circus.Config
