/-
Model of `circus/stream/redirector.py` (`Redirector`, `Redirector.Handler.__call__`) together
with the part of `circus/process.py` (`Process.stop` → `close_output_channels`, `stdout`,
`stderr`, `pipe_stdout`, `pipe_stderr`) and of `circus/watcher.py` (`spawn_process`,
`kill_process`, `reap_process`) that drives it, over a small kernel of pipes.

Kernel: the daemon's file-descriptor table `fdt` (slot `i` = descriptor number `i`, `none` =
free); a new descriptor is always the lowest free number, so numbers ARE reused across worker
generations.  A pipe is seen through its read end: byte queue, "writer end still open?", and
(ghost) the worker and channel it was created for.  Closing the read end frees the slot and
discards the queue.

Python dictionaries (`pipes`, `_active`) are association lists with the dict semantics that
matter for `items()`/`keys()` order: assignment to an existing key keeps its position, a new key
is appended, `del` removes.

Transliteration rules (DESIGN.md 3.4): same loops, same guards, same order.
-/
namespace Circus.Redirector

abbrev Bytes := List Nat

inductive Chan where
  | stdout | stderr
  deriving DecidableEq, Repr

/-- kernel pipe, seen through the daemon's read end -/
structure Pipe where
  q : Bytes
  wOpen : Bool
  /-- ghost: worker / channel the pipe was created for -/
  pid : Nat
  chan : Chan
  deriving DecidableEq, Repr

/-- the Python file object `Popen.stdout` / `Popen.stderr` held by `Process` -/
inductive PObj where
  | absent              -- `pipe_stdout = False`: `Popen(...)` without `stdout=PIPE`, attribute is None
  | opened (fd : Nat)   -- open file object, `fileno() = fd`
  | closed              -- `close()` was called, `fileno()` raises ValueError
  deriving DecidableEq, Repr

/-- `circus.process.Process` as far as the redirector sees it -/
structure Worker where
  pid : Nat
  out : PObj
  err : PObj
  deriving DecidableEq, Repr

def Worker.pobj (w : Worker) : Chan → PObj
  | .stdout => w.out
  | .stderr => w.err

/-- one dictionary item: `pipes[fd] = (name, process, pipe)` resp. `_active[fd] = Handler(name, process)`.
    The process object is represented by its pid (the handler keeps the object it was created with). -/
structure Entry where
  fd : Nat
  name : Chan
  pid : Nat
  deriving DecidableEq, Repr

abbrev Dict := List Entry

def Dict.has (d : Dict) (fd : Nat) : Bool := d.any (fun e => e.fd == fd)
def Dict.get (d : Dict) (fd : Nat) : Option Entry := d.find? (fun e => e.fd == fd)
/-- `d[e.fd] = e` -/
def Dict.set (d : Dict) (e : Entry) : Dict :=
  if d.has e.fd then d.map (fun x => if x.fd == e.fd then e else x) else d ++ [e]
/-- `del d[fd]` -/
def Dict.del (d : Dict) (fd : Nat) : Dict := d.filter (fun e => !(e.fd == fd))
def Dict.keys (d : Dict) : List Nat := d.map Entry.fd

/-- `Redirector` object -/
structure Red where
  pipes : Dict
  active : Dict
  running : Bool
  buffer : Nat
  deriving DecidableEq, Repr

structure State where
  fdt : List (Option Pipe)
  procs : List Worker
  nextPid : Nat
  red : Red
  deriving DecidableEq, Repr

inductive Op where
  | spawn (pipeOut pipeErr : Bool)
  | write (pid : Nat) (chan : Chan) (bytes : Bytes)
  | ready (fd : Nat)
  | closeWriter (pid : Nat) (chan : Chan)
  | killProcess (pid : Nat)
  | reapSelfExited (pid : Nat)
  | start
  | stop
  /-- `remove_redirections(process)` once more, for a worker that has been stopped already: a `kill_process` that wakes from its
      0.1 s nap after the periodic check has reaped the worker under it (and perhaps spawned a successor on the same
      descriptor numbers).  The file objects of the old worker are closed, `pipe.fileno()` raises `ValueError` for each,
      the loop `continue`s: nothing is touched.  (For a live pid the driver refuses the op.) -/
  | lateRemove (pid : Nat)
  deriving DecidableEq, Repr

inductive Out where
  | spawned (pid : Nat) (out err : PObj)
  | addHandler (fd : Nat)                          -- `loop.add_handler(fd, handler, READ)`
  | rmHandler (fd : Nat)                           -- `loop.remove_handler(fd)`
  | wrote (pid : Nat) (chan : Chan) (bytes : Bytes) -- the pipe accepted the bytes
  | epipe                                          -- write on a pipe whose read end is closed
  | writerClosed                                   -- the worker has closed this channel already
  | noPipe                                         -- channel not captured (`pipe_* = False`)
  | noSuchPid
  | delivered (chan : Chan) (pid : Nat) (bytes : Bytes)  -- `redirect[name]({'data','pid','name'})`
  | eof (chan : Chan) (pid : Nat) (fd : Nat)       -- handler read 0 bytes and called `remove_fd(fd)`
  | eagain                                         -- non-blocking read found nothing: swallowed
  | ebadf (fd : Nat)                               -- `os.read` on a closed descriptor: OSError re-raised
  | noHandler                                      -- the loop has no handler for fd: nothing is called
  | writerEnd (pid : Nat) (chan : Chan)            -- worker closed its end
  | closedFd (fd : Nat)                            -- daemon closed the read end
  | lost (chan : Chan) (pid : Nat) (bytes : Bytes) -- ghost: bytes still queued when the read end was closed
  | staleLeft (fd : Nat)                           -- ghost: read end closed while `pipes` still has `fd`
  deriving DecidableEq, Repr

/-! ### kernel -/

def lookup (t : List (Option Pipe)) (fd : Nat) : Option Pipe := t.getD fd none

/-- lowest free descriptor number -/
def lowestFree : List (Option Pipe) → Nat
  | [] => 0
  | none :: _ => 0
  | some _ :: t => lowestFree t + 1

def install (t : List (Option Pipe)) (fd : Nat) (p : Pipe) : List (Option Pipe) :=
  if fd < t.length then t.set fd (some p) else t ++ [some p]

/-- `os.pipe()` as done by `Popen` for one channel; the write end goes to the child -/
def kpipe (t : List (Option Pipe)) (pid : Nat) (chan : Chan) : Nat × List (Option Pipe) :=
  let fd := lowestFree t
  (fd, install t fd { q := [], wOpen := true, pid := pid, chan := chan })

def closeFd (t : List (Option Pipe)) (fd : Nat) : List (Option Pipe) := t.set fd none

/-! ### `Redirector` -/

/-- `_stop_one(fd)` -/
def stopOne (r : Red) (fd : Nat) : Red × List Out :=
  if r.active.has fd then ({ r with active := r.active.del fd }, [.rmHandler fd]) else (r, [])

/-- `_start_one(fd, stream_name, process, pipe)` -/
def startOne (r : Red) (e : Entry) : Red × List Out :=
  if !r.active.has e.fd then ({ r with active := r.active.set e }, [.addHandler e.fd]) else (r, [])

/-- `start()`: `for fd, value in self.pipes.items(): self._start_one(...)`; `running = True` -/
def start (r : Red) : Red × List Out :=
  let (r1, o) := r.pipes.foldl (fun (acc : Red × List Out) e =>
    let (r', o') := startOne acc.1 e; (r', acc.2 ++ o')) (r, [])
  ({ r1 with running := true }, o)

/-- `stop()`: `for fd in list(self._active.keys()): self._stop_one(fd)`; `running = False` -/
def stop (r : Red) : Red × List Out :=
  let (r1, o) := r.active.keys.foldl (fun (acc : Red × List Out) fd =>
    let (r', o') := stopOne acc.1 fd; (r', acc.2 ++ o')) (r, [])
  ({ r1 with running := false }, o)

/-- `get_process_pipes(process)` -/
def processPipes (w : Worker) : List (Chan × PObj) :=
  (match w.out with | .absent => [] | p => [(Chan.stdout, p)]) ++
  (match w.err with | .absent => [] | p => [(Chan.stderr, p)])

/-- body of the loop of `add_redirections` for one `(name, pipe)` -/
def addOne (pid : Nat) (acc : Red × List Out) (np : Chan × PObj) : Red × List Out :=
  match np.2 with
  | .opened fd =>
    let (r1, o1) := stopOne acc.1 fd
    let e : Entry := { fd := fd, name := np.1, pid := pid }
    let r2 := { r1 with pipes := r1.pipes.set e }
    if r2.running then
      let (r3, o3) := startOne r2 e
      (r3, acc.2 ++ o1 ++ o3)
    else (r2, acc.2 ++ o1)
  | _ => acc   -- `fileno()` of a closed file raises; never the case right after Popen

/-- `add_redirections(process)` -/
def addRedirections (r : Red) (w : Worker) : Red × List Out :=
  (processPipes w).foldl (addOne w.pid) (r, [])

/-- `remove_fd(fd)` -/
def removeFd (r : Red) (fd : Nat) : Red × List Out :=
  let (r1, o) := stopOne r fd
  (if r1.pipes.has fd then { r1 with pipes := r1.pipes.del fd } else r1, o)

/-- body of the loop of `remove_redirections` -/
def removeOne (acc : Red × List Out) (np : Chan × PObj) : Red × List Out :=
  match np.2 with
  | .opened fd => let (r', o') := removeFd acc.1 fd; (r', acc.2 ++ o')
  | _ => acc   -- ValueError: the pipe was already closed

/-- `remove_redirections(process)` -/
def removeRedirections (r : Red) (w : Worker) : Red × List Out :=
  (processPipes w).foldl removeOne (r, [])

/-! ### `Process.stop()` → `close_output_channels()` -/

/-- `self._worker.<chan>.close()` when it is not None -/
def closeObj (pipes : Dict) (acc : List (Option Pipe) × List Out) (o : PObj) :
    List (Option Pipe) × List Out :=
  match o with
  | .opened fd =>
    let ghost := (match lookup acc.1 fd with
        | some p => if p.q = [] then [] else [Out.lost p.chan p.pid p.q]
        | none => []) ++ (if pipes.has fd then [Out.staleLeft fd] else [])
    (closeFd acc.1 fd, acc.2 ++ ghost ++ [.closedFd fd])
  | _ => acc

/-- `close_output_channels()`: stderr first, then stdout.  `pipes` is only read for the ghost
    `staleLeft` output. -/
def closeOutputChannels (pipes : Dict) (t : List (Option Pipe)) (w : Worker) :
    List (Option Pipe) × List Out :=
  closeObj pipes (closeObj pipes (t, []) w.err) w.out

def findProc (s : State) (pid : Nat) : Option Worker := s.procs.find? (fun w => w.pid == pid)

/-- `self.processes.pop(pid)` -/
def dropProc (s : State) (pid : Nat) : List Worker := s.procs.filter (fun w => !(w.pid == pid))

/-! ### `Handler.__call__(fd, READ)` -/

def handlerCall (s : State) (fd : Nat) : State × List Out :=
  match s.red.active.get fd with
  | none => (s, [.noHandler])
  | some h =>
    match lookup s.fdt fd with
    | none => (s, [.ebadf fd])
    | some p =>
      -- `os.read(fd, buffer)` on a non-blocking descriptor
      if s.red.buffer ≠ 0 ∧ p.q = [] ∧ p.wOpen then (s, [.eagain])
      else
        let data := p.q.take s.red.buffer
        if data.length = 0 then
          let (r', o) := removeFd s.red fd
          ({ s with red := r' }, o ++ [.eof h.name h.pid fd])
        else
          ({ s with fdt := s.fdt.set fd (some { p with q := p.q.drop s.red.buffer }) },
           [.delivered h.name h.pid data])

/-! ### the step function -/

def step (s : State) : Op → State × List Out
  | .spawn po pe =>
    -- `Process.spawn`: Popen creates the stdout pipe first, then the stderr pipe
    let pid := s.nextPid
    let (out, t1) := if po then (let (fd, t) := kpipe s.fdt pid .stdout; (PObj.opened fd, t))
                     else (PObj.absent, s.fdt)
    let (err, t2) := if pe then (let (fd, t) := kpipe t1 pid .stderr; (PObj.opened fd, t))
                     else (PObj.absent, t1)
    let w : Worker := { pid := pid, out := out, err := err }
    -- `Watcher.spawn_process`: `self.stream_redirector.add_redirections(process)`
    let (r', o) := addRedirections s.red w
    ({ fdt := t2, procs := s.procs ++ [w], nextPid := pid + 1, red := r' },
     .spawned pid out err :: o)
  | .write pid chan bytes =>
    match findProc s pid with
    | none => (s, [.noSuchPid])
    | some w =>
      match w.pobj chan with
      | .absent => (s, [.noPipe])
      | .closed => (s, [.epipe])
      | .opened fd =>
        match lookup s.fdt fd with
        | none => (s, [.epipe])
        | some p =>
          if p.wOpen then
            ({ s with fdt := s.fdt.set fd (some { p with q := p.q ++ bytes }) }, [.wrote pid chan bytes])
          else (s, [.writerClosed])
  | .ready fd => handlerCall s fd
  | .closeWriter pid chan =>
    match findProc s pid with
    | none => (s, [.noSuchPid])
    | some w =>
      match w.pobj chan with
      | .absent => (s, [.noPipe])
      | .closed => (s, [.epipe])
      | .opened fd =>
        match lookup s.fdt fd with
        | none => (s, [.epipe])
        | some p =>
          if p.wOpen then
            ({ s with fdt := s.fdt.set fd (some { p with wOpen := false }) }, [.writerEnd pid chan])
          else (s, [.writerClosed])
  | .killProcess pid =>
    -- `Watcher.kill_process` (the worker is dead by now): `remove_redirections(process)`,
    -- then `process.stop()`
    match findProc s pid with
    | none => (s, [.noSuchPid])
    | some w =>
      let (r', o1) := removeRedirections s.red w
      let (t', o2) := closeOutputChannels r'.pipes s.fdt w
      ({ s with fdt := t', procs := dropProc s pid, red := r' }, o1 ++ o2)
  | .reapSelfExited pid =>
    -- `Watcher.reap_process` for a worker that exited by itself: `process.stop()` only
    match findProc s pid with
    | none => (s, [.noSuchPid])
    | some w =>
      let (t', o2) := closeOutputChannels s.red.pipes s.fdt w
      ({ s with fdt := t', procs := dropProc s pid }, o2)
  | .start => let (r', o) := start s.red; ({ s with red := r' }, o)
  | .stop => let (r', o) := stop s.red; ({ s with red := r' }, o)
  | .lateRemove _ => (s, [])

/-- `Redirector(stdout_redirect, stderr_redirect, buffer=…)` in a daemon with no worker yet;
    `pid0` is the first pid the kernel will hand out -/
def init (buffer pid0 : Nat) : State :=
  { fdt := [], procs := [], nextPid := pid0,
    red := { pipes := [], active := [], running := false, buffer := buffer } }

/-- run a list of ops, collecting the outputs of every op -/
def run (s : State) : List Op → State × List (List Out)
  | [] => (s, [])
  | op :: ops =>
    let (s1, o) := step s op
    let (s2, os) := run s1 ops
    (s2, o :: os)

/-- all outputs in order -/
def trace (s : State) (ops : List Op) : List Out := (run s ops).2.flatten

def final (s : State) (ops : List Op) : State := (run s ops).1

/-! ### what the property talks about, read off the output trace -/

/-- bytes the collecting stream of `chan` received in records tagged `pid` -/
def deliveredOf (pid : Nat) (chan : Chan) : List Out → Bytes
  | [] => []
  | .delivered c p b :: os => (if p = pid ∧ c = chan then b else []) ++ deliveredOf pid chan os
  | _ :: os => deliveredOf pid chan os

/-- bytes worker `pid` wrote on `chan` -/
def writtenOf (pid : Nat) (chan : Chan) : List Out → Bytes
  | [] => []
  | .wrote p c b :: os => (if p = pid ∧ c = chan then b else []) ++ writtenOf pid chan os
  | _ :: os => writtenOf pid chan os

/-- bytes of `(pid, chan)` dropped because the daemon closed its read end with data queued -/
def lostOf (pid : Nat) (chan : Chan) : List Out → Bytes
  | [] => []
  | .lost c p b :: os => (if p = pid ∧ c = chan then b else []) ++ lostOf pid chan os
  | _ :: os => lostOf pid chan os

/-- bytes of `(pid, chan)` still queued in its pipe in state `s` -/
def pending (s : State) (pid : Nat) (chan : Chan) : Bytes :=
  match findProc s pid with
  | none => []
  | some w =>
    match w.pobj chan with
    | .opened fd => (match lookup s.fdt fd with | some p => p.q | none => [])
    | _ => []

def Worker.hasPipes (w : Worker) : Bool := !(w.out == .absent && w.err == .absent)

/-- live workers that have at least one captured channel -/
def liveWithPipes (s : State) : Nat := (s.procs.filter Worker.hasPipes).length

/-- entries of `pipes` whose descriptor number is closed (free) in the daemon's fd table -/
def staleCount (s : State) : Nat := (s.red.pipes.filter (fun e => (lookup s.fdt e.fd).isNone)).length

/-- the largest number of simultaneously tracked workers along a run (start state included) -/
def peakLive (s : State) : List Op → Nat
  | [] => s.procs.length
  | op :: ops => max s.procs.length (peakLive (step s op).1 ops)

end Circus.Redirector
