/-
Line-protocol helpers shared by all layer drivers (DESIGN.md 4.3).
One request per line, space-separated tokens, first token = layer tag.
Strings/byte strings travel as dot-separated decimal code points (`104.105`), `-` is the
empty string, `~` is "absent" (None).
-/
namespace Circus.Proto

def decCps (s : String) : Option (List Nat) :=
  if s = "-" then some [] else
  (s.splitOn ".").mapM (fun t => t.toNat?)

def decOptCps (s : String) : Option (Option (List Nat)) :=
  if s = "~" then some none else (decCps s).map some

def encCps (l : List Nat) : String :=
  if l.isEmpty then "-" else ".".intercalate (l.map toString)

def encOptCps : Option (List Nat) → String
  | none => "~"
  | some l => encCps l

def strOfCps (l : List Nat) : String := String.ofList (l.map Char.ofNat)
def cpsOfStr (s : String) : List Nat := s.toList.map Char.toNat

def decStr (s : String) : Option String := (decCps s).map strOfCps
def encStr (s : String) : String := encCps (cpsOfStr s)

def decBool (s : String) : Option Bool :=
  if s = "1" then some true else if s = "0" then some false else none
def encBool (b : Bool) : String := if b then "1" else "0"

def decInt (s : String) : Option Int := s.toInt?

end Circus.Proto
