/-
Core state machine of circus: types.  (DESIGN.md 3.1–3.3)

The supervisor is single threaded; all long operations are tornado coroutines whose only
suspension points are `yield tornado_sleep(d)` and `yield <child coroutine(s)>`.  The model
keeps, exactly like tornado does, a heap of *frames* (suspended coroutines waiting for a child
result) and a list of *sleepers*; everything between two suspension points runs atomically.
-/
namespace Circus.Core

/-- JSON values as `json.loads` delivers them.  `real` carries the textual form of a
    non-integer number (never computed with). -/
inductive JVal where
  | null
  | bool (b : Bool)
  | int (i : Int)
  | real (txt : String)
  | str (s : String)
  | arr (xs : List JVal)
  | obj (kvs : List (String × JVal))
  deriving Repr, Inhabited

/-- Python exception classes that matter for the reply / propagation logic. -/
inductive Exc where
  | message        -- circus.exc.MessageError      -> errno 3
  | conflict       -- circus.exc.ConflictError     -> errno 5
  | oserror        -- OSError                      -> errno 4
  | other (name : String)   -- anything else        -> errno 5 (generic handler)
  | noSuchProcess  -- psutil.NoSuchProcess (subclass of Exception; generic when it escapes)
  deriving Repr, DecidableEq, Inhabited

/-- process states in the simulated kernel -/
inductive PState where
  | run | zombie | gone
  deriving Repr, DecidableEq, Inhabited

structure Behav where
  term : Option Nat := some 0      -- reaction to a terminating signal: `some d` = dies d ms later, `none` = ignores it
  killLat : Nat := 0               -- SIGKILL latency in ms
  kids : Nat := 0                  -- number of child processes the worker forks
  kidTerm : Option Nat := some 0
  execFail : Bool := false         -- Popen raises OSError for this attempt
  spawnMs : Nat := 0               -- time the fork/exec (and the after_spawn hook) takes
  eperm : Bool := false            -- the daemon is not permitted to signal this process (it runs under another uid):
                                   -- `os.kill` raises EPERM, psutil turns it into AccessDenied
  kidEperm : Bool := false         -- … nor the children it forks
  deriving Repr, Inhabited

structure KProc where
  pid : Nat
  ppid : Option Nat                -- some 0 = child of the daemon; some p = child of worker p; none = re-parented
  st : PState
  status : Nat                     -- wait status once dead
  doom : Option (Nat × Nat)        -- (deadline ms, wait status)
  behav : Behav
  deriving Repr, Inhabited

structure Kernel where
  procs : List KProc := []
  nextPid : Nat := 100
  now : Nat := 0
  calls : Nat := 0
  slept : Nat := 0
  spins : Nat := 0
  attempt : Nat := 0
  behavs : List Behav := [{}]
  armed : List (Nat × Nat × Nat) := []     -- (k, pid, status): fires before kernel call k of this step
  faults : List (Nat × Nat × Nat) := []    -- armed at the start of the next step
  deriving Repr, Inhabited

/-- observable events (the ghost log; one canonical text line each) -/
inductive Obs where
  | spawn (pid : Nat) (wname : String) (wid : Nat)
  | execfail
  | sig (pid sig : Nat) (st : PState) (via : String)
  | reap (pid status : Nat)
  | ev (wname topic : String) (pid : Option Nat) (extra : String)
  | rep (cid : String) (id : JVal) (status : String) (errno : String) (body : String)
  | raised (name : String)
  | conflict
  | nosleeper
  | blocked
  | close (what : String)
  | outOfFuel
  deriving Repr, Inhabited

inductive Status where
  | stopped | starting | active | stopping
  deriving Repr, DecidableEq, Inhabited

/-- scripted hook: outcomes cycle; `ignore` = the ignore-failure flag given with the hook -/
structure HookSpec where
  outs : List String        -- "true" | "false" | "raise"
  ignore : Bool
  deriving Repr, Inhabited

/-- a `circus.process.Process` object: lives on, also after it left the watcher's dict -/
structure PObj where
  pid : Nat
  wid : Nat
  started : Nat             -- ms
  stopping : Bool := false
  rc : Option Int := none   -- Popen.returncode cache
  deriving Repr, Inhabited

structure Watcher where
  name : String
  status : Status := .stopped
  np : Int := 1
  singleton : Bool := false
  respawn : Bool := true
  warmup : Nat := 0          -- ms
  graceful : Nat := 300      -- ms
  stopSignal : Nat := 15
  stopChildren : Bool := false
  priority : Int := 0
  autostart : Bool := true
  maxRetry : Int := 5
  sendHup : Bool := false
  maxAge : Nat := 0          -- seconds
  onDemand : Bool := false   -- started only by a connection to a managed socket (`on_demand`)
  hooks : List (String × HookSpec) := []
  hookCalls : List (String × Nat) := []
  ignoreFail : List String := ["before_stop", "after_stop", "before_signal", "after_signal", "extended_stats"]
  pids : List Nat := []      -- the `processes` dict: insertion ordered keys
  uid : Nat := 0             -- identity of the Python object (two watchers may carry the same name over time)
  deriving Repr, Inhabited

/-- who receives the result of a coroutine -/
inductive Waiter where
  | none                                  -- detached (called without yield) / nobody listens
  | frame (fid : Nat) (slot : Nat)        -- a suspended parent coroutine (slot: index inside a gen.multi)
  | top (tid : Nat)                       -- a top-level future with done-callbacks, see `TopFut`
  | callback (name : String)              -- a plain loop.call_later callback (SysHandler._quit)
  deriving Repr, Inhabited

/-- results of coroutines -/
inductive Val where
  | unit
  | bool (b : Bool)
  | int (i : Int)
  | info (started stopped kept : List Nat)
  | list (vs : List Val)
  | exc (e : Exc)
  deriving Repr, Inhabited

/-- callbacks attached to a top-level future, run in registration order -/
inductive TopCb where
  | release                                                    -- util._synchronized_cb: frees the exclusive slot
  | reply (cid : Option String) (id : JVal) (cast : Bool) (cmd : String) (send : Bool) (xform : String)
      -- Controller._dispatch_callback_future (xform: "" | "info" | "np" = TransformableFuture function)
  | watch                                                      -- harness: report an escaping exception
  | popProc (wuid pid : Nat)                                   -- spawn_process: forget the rejected worker once its kill is done
  deriving Repr, Inhabited

structure TopFut where
  tid : Nat
  cbs : List TopCb
  armed : Bool := false        -- false while the coroutine's first (eager) run is still on the stack
  deriving Repr, Inhabited

/-- continuation points: "the rest of coroutine X after its yield number i" with its locals -/
inductive Kont where
  | killWait (wuid pid sig i polls : Nat)                 -- kill_process: inside the polling loop
  | multi (n : Nat) (results : List (Nat × Val))           -- gen.multi / yield [..]: collecting
  | stopAfterKill (wuid : Nat) (close : Bool)
  | spawnLoop (wuid remaining : Nat)
  | spawnAfterStop
  | manageAfterExpire (wuid : Nat) (expired : List Nat)
  | manageAfterSpawn (wuid : Nat)
  | manageAfterKill (wuid : Nat) (toKill : List Nat)
  | manageTail (wuid : Nat)                                -- re-joins manage_processes at "removing extra processes"
  | startAfterSpawn (wuid : Nat)
  | startTail                                              -- `return` after a yield
  | restartAfterStop (wuid : Nat)
  | reloadTail (wuid : Nat)                                -- notify "reload"
  | reloadSeqAfterKill (wuid pid : Nat) (rest : List Nat)
  | reloadSeqAfterSleep (wuid : Nat) (rest : List Nat)
  | setNpTail (wuid : Nat)
  | pubInfo (wuid : Nat) (before : List Nat) (wasStopped : Bool) (kind : String)   -- Watcher.start/restart/reload wrappers
  | arbStartAfterStart (rest : List Nat)
  | arbStartAfterSleep (rest : List Nat)
  | arbRestartAfterStop (ws : List Nat)
  | arbReloadNext (rest : List Nat) (graceful sequential : Bool)
  | quitAfterStop
  | restartInsideAfterStop (wasStopping : Bool)            -- Arbiter.restart(inside_circusd): the try around `yield self._stop_watchers(..)`; the local `was_stopping`
  | manageAfterStopOrSpawn (wuid : Nat)
  | manageWatchersTail (needOnDemand : Bool)                -- manage_watchers after `yield list_to_yield`
  | killWaitOther (pid : Nat)                               -- kill_process: another kill of this process is in flight
  | multiSlot (fid slot : Nat)                              -- callback of gen.multi for one child
  | ignore                                                  -- result discarded, coroutine returns None
  | pass                                                    -- result handed on unchanged
  deriving Repr, Inhabited

structure Frame where
  fid : Nat
  k : Kont
  parent : Waiter
  armed : Bool := false        -- false while the awaited child's first (eager) run is still on the stack:
                               -- a result arriving then continues the parent synchronously, later ones
                               -- go through the event loop's ready queue
  deriving Repr, Inhabited

structure Sleeper where
  sid : Nat
  deadline : Nat
  waiter : Waiter
  deriving Repr, Inhabited

structure Arbiter where
  watchers : List Nat := []                  -- the list (uids of watcher objects, list order)
  names : List (String × Nat) := []          -- the dict: lower-cased key ↦ watcher uid (insertion ordered)
  slot : Option String := none               -- _exclusive_running_command
  stopping : Bool := false
  restarting : Bool := false
  warmup : Nat := 0
  pubClosed : Bool := false
  ctlClosed : Bool := false
  loopStop : Bool := false                   -- loop.add_callback(self.loop.stop) was issued
  socketEvent : Bool := false                -- Arbiter.socket_event: true only while manage_watchers starts on-demand watchers
  sockReady : Bool := false                  -- environment: select() reports a managed socket readable
  endpointOwner : Option String := none      -- `endpoint_owner` of an ipc:// control endpoint (`endpoint_owner_mode`), else none
  deriving Repr, Inhabited

/-- entries of the event loop's ready queue (`call_soon`) -/
inductive Ready where
  | resume (k : Kont) (v : Val) (w : Waiter)   -- a future's done-callback resuming a coroutine
  | topCb (cb : TopCb) (v : Val)               -- done-callback of a top-level future
  | closeCtl                                   -- stop_controller_and_close_sockets once the loop has been stopped
  | callback (name : String)                   -- a timer callback
  deriving Repr, Inhabited

structure State where
  k : Kernel := {}
  a : Arbiter := {}
  objs : List PObj := []                    -- heap of Process objects (by pid)
  ws : List Watcher := []                    -- heap of Watcher objects (by uid); `a.watchers` lists the registered ones
  frames : List Frame := []
  sleepers : List Sleeper := []
  tops : List TopFut := []
  ready : List Ready := []                   -- FIFO
  doneVals : List (Nat × Val) := []          -- outcomes of top-level futures that completed during the current request
  nextId : Nat := 1
  log : List Obs := []                       -- ghost log, newest last
  blocked : Bool := false
  deriving Repr, Inhabited

end Circus.Core
