import CircusModel.Core.Commands
/-
External stimuli (`Op`), one atomic step of the whole system, runs, snapshots.
-/
namespace Circus.Core

inductive Op where
  | start                                   -- Arbiter.start(): start_watchers() on the provided loop
  | req (cid : String) (j : Option JVal)    -- a frame on the control socket (`none`: not JSON / empty)
  | sigreq (quit : Bool)                    -- SysHandler: quit (TERM/INT/QUIT) or reload (HUP), cid = None
  | check                                   -- periodic callback: Arbiter.manage_watchers
  | wake                                    -- the earliest sleeper fires (clock jumps to its deadline)
  | adv (ms : Nat)                          -- time passes, never past the earliest sleeper
  | die (pid status : Nat)                  -- a process exits by itself (wait status)
  | xkill (pid sig : Nat)                   -- a signal from outside
  | fault (k pid status : Nat)              -- arm: before kernel call k of the next step pid dies
  | sockev (ready : Bool)                   -- a client connects to / is accepted from a managed socket
  deriving Repr, Inhabited

def quitMsg : JVal := .obj [("command", .str "quit"), ("properties", .obj [])]
def reloadMsg : JVal := .obj [("command", .str "reload"), ("properties", .obj [("graceful", .bool true)])]

def earliest (l : List Sleeper) : Option Sleeper :=
  l.foldl (fun acc s => match acc with
    | none => some s
    | some b => if s.deadline < b.deadline || (s.deadline = b.deadline && s.sid < b.sid) then some s else some b) none

/-- time passes, never past the earliest pending timer -/
def Kernel.advance (k : Kernel) (ms : Nat) (deadlines : List Nat) : Kernel :=
  let lim := deadlines.foldl min (k.now + ms)
  ({ k with now := max k.now (min (k.now + ms) lim) }).resolve

def Kernel.addFault (k : Kernel) (n pid st : Nat) : Kernel := { k with faults := k.faults ++ [(n, pid, st)] }

/-- the timer of `sl` fires: it leaves the list, the clock jumps to its deadline -/
def fireSleeper (sl : Sleeper) : M Unit :=
  modS fun s => { s with sleepers := s.sleepers.filter (·.sid ≠ sl.sid),
                         k := ({ s.k with now := max s.k.now sl.deadline }).resolve }

/-- what the stimulus itself does (before the loop runs to quiescence) -/
def stepOp : Op → M Unit
  | .start => do
    let desc ← iterWatchers true
    clearDone
    let r ← syncCoroutine "arbiter_start_watchers" (.arbStartWatchers desc) []
    match r with | .error _ => emit .conflict | .ok tid => addDoneCallback tid .watch
  | .req cid j => handleMessage (some cid) j
  | .sigreq q => if q then sigQuit else handleMessage none (some reloadMsg)
  | .check => do
    clearDone
    let r ← syncCoroutine "manage_watchers" .manageWatchers []
    match r with | .error _ => emit .conflict | .ok tid => addDoneCallback tid .watch
  | .wake => do
    let s ← getS
    match earliest s.sleepers with
    | none => emit .nosleeper
    | some sl =>
      fireSleeper sl
      deliver (exec fuelDefault) sl.waiter .unit
  | .adv ms => do
    let s ← getS
    updK fun k => k.advance ms (s.sleepers.map (·.deadline))
  | .die pid st => updK fun k => k.die pid st
  | .xkill pid sig => xKill pid sig
  | .fault n pid st => updK fun k => k.addFault n pid st
  | .sockev b => setSockReady b

/-- the loop runs until nothing is ready; a stopped loop makes `Arbiter.start` close everything -/
def stepTail : M Unit := do
  settle 100000
  let a ← getA
  if a.loopStop then
    setLoopStop false
    stopController

def stepM (op : Op) : M Unit := do
  let s0 ← getS
  if s0.blocked then pure () else
  updK Kernel.beginStep
  stepOp op
  stepTail

/-- give the configured watchers their identities 1, 2, … -/
def assignUids : List Watcher → Nat → List Watcher
  | [], _ => []
  | w :: ws, n => { w with uid := n } :: assignUids ws (n + 1)

/-- the daemon after `Arbiter.__init__` + `initialize()`: every configured watcher is in the
    list (configuration order) and in the dict (filled in `iter_watchers()` order; a later
    watcher with the same lower-cased name overwrites the earlier entry) -/
def initState (cfg : List Watcher) (behavs : List Behav) (arbWarmup : Nat) (owner : Option String := none) : State :=
  let ws := assignUids cfg 1
  let sorted := sortWatchers ws true
  { k := { behavs := if behavs.isEmpty then [{}] else behavs },
    a := { watchers := ws.map (·.uid),
           names := sorted.foldl (fun acc w => acc.filter (·.1 ≠ pyLower w.name) ++ [(pyLower w.name, w.uid)]) [],
           warmup := arbWarmup, endpointOwner := owner },
    ws := ws, nextId := cfg.length + 1 }

def step (s : State) (op : Op) : State := (stepM op s).2

def run (s : State) (ops : List Op) : State := ops.foldl step s

/-! ### rendering (the canonical text both sides print) -/

def showP : PState → String | .run => "r" | .zombie => "z" | .gone => "g"

def underscore (s : String) : String := s.map fun c => if c = ' ' then '_' else c

def showObs : Obs → String
  | .spawn pid n wid => s!"o spawn {pid} {encS (underscore n)} {wid}"
  | .execfail => "o execfail"
  | .sig pid sg st via => s!"o sig {pid} {sg} {showP st}{via}"
  | .reap pid st => s!"o reap {pid} {st}"
  | .ev w t pid x => s!"o ev {encS w} {t} {match pid with | some p => toString p | none => "-"} {x}"
  | .rep cid id st errno body => s!"o rep {cid} {showJ id} {st} {errno} {body}"
  | .raised n => s!"o raised {n}"
  | .conflict => "o conflict"
  | .nosleeper => "o nosleeper"
  | .blocked => "o blocked"
  | .close w => s!"o close {w}"
  | .outOfFuel => "o outOfFuel"

def insertStr (x : String) : List String → List String
  | [] => [x]
  | y :: ys => if x ≤ y then x :: y :: ys else y :: insertStr x ys
def sortStr (l : List String) : List String := l.foldr insertStr []

def insertSl (x : Sleeper) : List Sleeper → List Sleeper
  | [] => [x]
  | y :: ys => if x.deadline < y.deadline || (x.deadline = y.deadline && x.sid ≤ y.sid) then x :: y :: ys
               else y :: insertSl x ys

def orDash (s : String) : String := if s.isEmpty then "-" else s

def snapshot (s : State) : String :=
  if s.blocked then "s blocked" else
  let ws := s.a.watchers.filterMap fun u => s.ws.find? (·.uid = u)
  let showW (w : Watcher) : String :=
    let procs := w.pids.map fun pid =>
      match s.objs.find? (·.pid = pid) with
      | some o => s!"{pid}.{o.wid}.{if o.stopping then 1 else 0}"
      | none => s!"{pid}.?.0"
    s!"{encS w.name}:{statusName w.status}:{w.np}:{orDash (",".intercalate procs)}"
  let names := sortStr (s.a.names.map (·.1))
  let sl := (s.sleepers.foldr insertSl []).map fun x => toString ((x.deadline : Int) - (s.k.now : Int))
  let kp := s.k.snapshot.map fun (p : Nat × PState × Option Nat) =>
    let killed : Bool := match s.k.find p.1 with
      | some kp => kp.st = .run && (match kp.doom with | some (_, 9) => true | _ => false)
      | none => false
    s!"{p.1}:{if killed then "k" else showP p.2.1}:{match p.2.2 with | some q => toString q | none => "-"}"
  s!"s {s.a.slot.getD "-"} {if s.a.stopping then 1 else 0}{if s.a.restarting then 1 else 0} | " ++
  s!"{orDash (" ".intercalate (ws.map showW))} | {orDash (",".intercalate (names.map encS))} | " ++
  s!"{orDash (",".intercalate sl)} | {orDash (",".intercalate kp)} | t={s.k.now}"

end Circus.Core
