import CircusModel.Core.Watcher
/-
The coroutines of `circus/watcher.py` and `circus/arbiter.py` in continuation-passing style
over the frame heap (DESIGN.md 3.2).  `exec fuel task` runs one task until everything it
started is either finished or parked (frame + sleeper); open recursion through `rec` keeps
every coroutine body a separate small definition.
-/
namespace Circus.Core

inductive Call where
  | killProcess (wuid pid : Nat) (sig : Option Nat) (gt : Option Nat)
  | killProcesses (wuid : Nat) (sig : Option Nat) (gt : Option Nat)
  | stop_ (wuid : Nat) (close : Bool)
  | spawnProcesses (wuid : Nat)
  | manageProcesses (wuid : Nat)
  | removeExpired (wuid : Nat)
  | start_ (wuid : Nat)
  | restart_ (wuid : Nat)
  | reload_ (wuid : Nat) (graceful sequential : Bool)
  | setNumprocesses (wuid : Nat) (n : Int)
  | doAction (wuid : Nat) (num : Int)
  | pubStart (wuid : Nat)
  | pubStop (wuid : Nat)
  | pubRestart (wuid : Nat)
  | pubReload (wuid : Nat) (graceful sequential : Bool)
  | arbStartWatchers (ws : List Nat)
  | arbStopWatchers (ws : List Nat) (close : Bool)
  | arbRestart (wsAsc wsDesc : List Nat)
  | arbRestartInside
  | arbReload (graceful sequential : Bool)
  | arbStop
  | manageWatchers
  | rmWatcher (uid : Nat) (nostop : Bool)
  | killCmd (wuid : Nat) (pids : List Nat) (sig : Option Nat) (gt : Option Nat)
  deriving Repr, Inhabited

inductive Task where
  | call (c : Call) (w : Waiter)
  | resume (k : Kont) (v : Val) (w : Waiter)
  deriving Repr, Inhabited

abbrev Rec := Task → M Unit

def freshId : M Nat := fun s => (s.nextId, { s with nextId := s.nextId + 1 })

def pushFrame (f : Frame) : M Unit := modS fun s => { s with frames := s.frames ++ [f] }
def pushSleeper (sl : Sleeper) : M Unit := modS fun s => { s with sleepers := s.sleepers ++ [sl] }
def pushTop (t : TopFut) : M Unit := modS fun s => { s with tops := s.tops ++ [t] }

def newFrame (k : Kont) (parent : Waiter) : M Nat := do
  let fid ← freshId
  pushFrame { fid := fid, k := k, parent := parent }
  pure fid

def addSleeper (ms : Nat) (w : Waiter) : M Unit := do
  let sid ← freshId
  let now ← nowMs
  pushSleeper { sid := sid, deadline := now + ms, waiter := w }

def isExc : Val → Bool
  | .exc _ => true
  | _ => false

/-- result of a finished gen.multi: the list, or the first exception in slot order -/
def multiResult (n : Nat) (results : List (Nat × Val)) : Val :=
  let vs := (List.range n).map fun i => (results.lookup i).getD .unit
  match vs.find? isExc with
  | some e => e
  | none => .list vs

def sortedNat := Kernel.sortNat

def showList (l : List Nat) : String := "[" ++ ",".intercalate (l.map toString) ++ "]"

/-- body of the ok-reply for a waiting request (TransformableFuture transform functions) -/
def replyBody (xform : String) (v : Val) : String :=
  match xform, v with
  | "start", .info st _ kp => "info:started=" ++ showList st ++ ";kept=" ++ showList kp
  | "info", .info st sp kp => "info:stopped=" ++ showList sp ++ ";started=" ++ showList st ++ ";kept=" ++ showList kp
  | "np", .int n => "numprocesses=" ++ toString n
  | "none", _ => "info:None"
  | _, _ => "-"

def encS (s : String) : String :=
  if s.isEmpty then "-" else ".".intercalate (s.toList.map fun c => toString c.toNat)

mutual
def showJ : JVal → String
  | .null => "n"
  | .bool true => "t"
  | .bool false => "f"
  | .int i => "i" ++ toString i
  | .real t => "r" ++ t
  | .str s => "s" ++ encS s
  | .arr xs => "a" ++ toString xs.length ++ showJs xs
  | .obj kvs => "o" ++ toString kvs.length ++ showKvs kvs
def showJs : List JVal → String
  | [] => ""
  | x :: xs => " " ++ showJ x ++ showJs xs
def showKvs : List (String × JVal) → String
  | [] => ""
  | (k, v) :: kvs => " " ++ encS k ++ " " ++ showJ v ++ showKvs kvs
end

/-- `Controller.send_response`: nothing for casts, for signal-initiated requests (cid None) and
    once the control stream is closed -/
def sendReply (cid : Option String) (id : JVal) (cast : Bool) (status errno body : String) : M Unit := do
  let a ← getA
  match cid with
  | none => pure ()
  | some c => if cast || a.ctlClosed then pure () else emitRep c id status errno body

def setClosed : M Unit := modA fun a => { a with ctlClosed := true, pubClosed := true }

/-- `Arbiter.stop_controller_and_close_sockets` -/
def stopController : M Unit := do
  let a ← getA
  if !a.ctlClosed then emit (.close "ctrl")
  if !a.pubClosed then emit (.close "evpub")
  setClosed

def enqueue (r : Ready) : M Unit := modS fun s => { s with ready := s.ready ++ [r] }

def newTop (cbs : List TopCb) : M Nat := do
  let tid ← freshId
  pushTop { tid := tid, cbs := cbs }
  pure tid

/-- the future `tid` is done with value `v`: it leaves the table, its outcome is remembered -/
def finishTop (tid : Nat) (v : Val) : M Unit :=
  modS fun s => { s with tops := s.tops.eraseP (·.tid = tid), doneVals := (tid, v) :: s.doneVals }

def topAddCb (tid : Nat) (cb : TopCb) : M Unit :=
  modS fun s => { s with tops := s.tops.map fun t => if t.tid = tid then { t with cbs := t.cbs ++ [cb] } else t }

def setSlot (v : Option String) : M Unit := modA fun a => { a with slot := v }

def removeFrame (fid : Nat) : M Unit := modS fun s => { s with frames := s.frames.filter (·.fid ≠ fid) }

def setFrameK (fid : Nat) (k : Kont) : M Unit :=
  modS fun s => { s with frames := s.frames.map fun g => if g.fid = fid then { g with k := k } else g }

/-- one done-callback of a top-level future -/
def runTopCb (v : Val) : TopCb → M Unit
  | .release => setSlot none
  | .reply cid id cast _cmd send xform =>
    match v with
    | .exc _ => if send then sendReply cid id cast "error" "6" "-" else pure ()   -- "server error", BAD_MSG_DATA_ERROR
    | _ => if send then sendReply cid id cast "ok" "-" (replyBody xform v) else pure ()
  | .watch => match v with
    | .exc e => emit (.raised (match e with
        | .message => "MessageError" | .conflict => "ConflictError" | .oserror => "OSError"
        | .noSuchProcess => "NoSuchProcess" | .other n => n))
    | _ => pure ()
  | .popProc wuid pid => popPid wuid pid

/-- a top-level future completes: its done-callbacks are scheduled (`release` of a future that is
    still being awaited synchronously by `util.synchronized` runs in place) -/
def deliverCbs (armed : Bool) (v : Val) : List TopCb → M Unit
  | [] => pure ()
  | cb :: rest => do
    (match cb, armed with
      | .release, false => runTopCb v .release
      | cb, _ => enqueue (.topCb cb v))
    deliverCbs armed v rest

def deliverTop (tid : Nat) (v : Val) : M Unit := do
  let s ← getS
  match s.tops.find? (·.tid = tid) with
  | none => pure ()
  | some t =>
    finishTop tid v
    deliverCbs t.armed v t.cbs

/-- hand a coroutine result to whoever waits for it.  A waiter that is still on the Python
    stack (not yet `armed`) continues synchronously; otherwise the continuation is a callback
    on the event loop's ready queue. -/
def deliver (rec : Rec) (w : Waiter) (v : Val) : M Unit := do
  match w with
  | .none => pure ()
  | .callback n => enqueue (.callback n)
  | .top tid => deliverTop tid v
  | .frame fid slot =>
    let s ← getS
    match s.frames.find? (·.fid = fid) with
    | none => pure ()
    | some f =>
      match f.k with
      | .multi n results =>
        if f.armed then enqueue (.resume (.multiSlot fid slot) v .none)
        else
          -- still building the list of children: just record
          let results := results ++ [(slot, v)]
          if results.length ≥ n then
            removeFrame fid
            rec (.resume .pass (multiResult n results) f.parent)
          else
            setFrameK fid (.multi n results)
      | k =>
        removeFrame fid
        if f.armed then enqueue (.resume k v f.parent) else rec (.resume k v f.parent)

/-- the per-child callback of an armed gen.multi -/
def multiCollect (rec : Rec) (fid slot : Nat) (v : Val) : M Unit := do
  let s ← getS
  match s.frames.find? (·.fid = fid) with
  | none => pure ()
  | some f =>
    match f.k with
    | .multi n results =>
      let results := results ++ [(slot, v)]
      if results.length ≥ n then
        removeFrame fid
        rec (.resume .pass (multiResult n results) f.parent)
      else
        setFrameK fid (.multi n results)
    | _ => pure ()

def armFrame (fid : Nat) : M Unit :=
  modS fun s => { s with frames := s.frames.map fun g => if g.fid = fid then { g with armed := true } else g }

def armTop (tid : Nat) : M Unit :=
  modS fun s => { s with tops := s.tops.map fun t => if t.tid = tid then { t with armed := true } else t }

/-- `yield child` -/
def await (rec : Rec) (c : Call) (k : Kont) (parent : Waiter) : M Unit := do
  let fid ← newFrame k parent
  rec (.call c (.frame fid 0))
  armFrame fid

/-- `yield tornado_sleep(ms)` -/
def awaitSleep (ms : Nat) (k : Kont) (parent : Waiter) : M Unit := do
  let fid ← newFrame k parent
  armFrame fid
  addSleeper ms (.frame fid 0)

/-- `yield [c1, …, cn]` / `gen.multi`: children are started eagerly, in order -/
def awaitMulti (rec : Rec) (cs : List Call) (k : Kont) (parent : Waiter) : M Unit := do
  if cs.isEmpty then rec (.resume k (.list []) parent) else
  let fo ← newFrame k parent
  let fm ← newFrame (.multi cs.length []) (.frame fo 0)
  let mut i := 0
  for c in cs do
    rec (.call c (.frame fm i))
    i := i + 1
  armFrame fm
  armFrame fo

end Circus.Core
