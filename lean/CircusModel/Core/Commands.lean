import CircusModel.Core.Dispatch
/-
`commands/*.py`: `validate` and `execute` of every registered command, and
`Controller.dispatch`.
-/
namespace Circus.Core
open JVal

def statusName : Status → String
  | .stopped => "stopped" | .starting => "starting" | .active => "active" | .stopping => "stopping"

/-- `to_signum` on a JSON value, as repaired: ints in 1..64 and designations handed over by the
    harness as already-resolved numbers (strings are resolved by the Signum layer; here a string
    is accepted iff the harness marked it with its number as `"#<n>"`, see DESIGN 5/C18). -/
def toSignumJ : JVal → Option Nat
  | .int i => if validSignum i then some i.toNat else none
  | .str s =>
    if s.startsWith "#" then
      match (s.drop 1).toString.toNat? with
      | some n => if 0 < n && n < 65 then some n else none
      | none => none
    else none
  | _ => none

/-- matching watchers of `execute_watcher_start_stop_restart`, in `iter_watchers()` order;
    `none` = outside the modelled domain (regex) -/
def matchWatchers (props : JVal) : M (R (List Nat)) := do
  match props.get? "name" with
  | none => pure (.ok [])
  | some name =>
    let m := (props.get? "match").getD (.str "glob")
    match m with
    | .str "simple" =>
      let r ← getWatcherCmd name
      pure (r.map fun u => [u])
    | .str "glob" =>
      match name with
      | .str n =>
        let ws ← registered
        let sorted := sortWatchers ws true
        let hit := sorted.filter fun w => glob (pyLower n) (pyLower w.name)
        if hit.isEmpty then pure (.error .message) else pure (.ok (hit.map (·.uid)))
      | _ => pure (.error (.other "AttributeError"))
    | .str "regex" => pure (.error (.other "unmodelled"))
    | _ =>
      match name with
      | .str _ => pure (.error .message)
      | _ => pure (.error (.other "AttributeError"))

def sortUids (uids : List Nat) (reverse : Bool) : M (List Nat) := do
  let s ← getS
  let ws := uids.filterMap fun u => s.ws.find? (·.uid = u)
  pure ((sortWatchers ws reverse).map (·.uid))

/-- start / stop / restart -/
def execSSR (kind : String) (props : JVal) : M (R ExecRes) := do
  let waiting := ((props.get? "waiting").map truthy).getD false
  if props.has "name" then
    let r ← matchWatchers props
    match r with
    | .error e => pure (.error e)
    | .ok [] => pure (.error .message)
    | .ok [u] =>
      let call : Call := if kind = "start" then .pubStart u else if kind = "stop" then .pubStop u else .pubRestart u
      let t ← syncCoroutine ("watcher_" ++ kind) call []
      pure (t.map fun tid => .future tid (if waiting then (if kind = "start" then "start" else if kind = "stop" then "none" else "info") else ""))
    | .ok us =>
      let asc ← sortUids us false
      let desc ← sortUids us true
      let t ← if kind = "start" then syncCoroutine "arbiter_start_watchers" (.arbStartWatchers desc) []
              else if kind = "stop" then syncCoroutine "arbiter_stop_watchers" (.arbStopWatchers asc false) []
              else syncCoroutine "arbiter_restart" (.arbRestart asc desc) []
      pure (t.map fun tid => .future tid "")
  else
    let asc ← iterWatchers false
    let desc ← iterWatchers true
    let t ← if kind = "start" then syncCoroutine "arbiter_start_watchers" (.arbStartWatchers desc) []
            else if kind = "stop" then syncCoroutine "arbiter_stop_watchers" (.arbStopWatchers asc false) []
            else syncCoroutine "arbiter_restart" .arbRestartInside []
    pure (t.map fun tid => .future tid "")

def intOf : JVal → Option Int
  | .int i => some i
  | .bool b => some (if b then 1 else 0)
  | _ => none

def execIncrDecr (sign : Int) (props : JVal) : M (R ExecRes) := do
  let r ← getWatcherCmd ((props.get? "name").getD .null)
  match r with
  | .error e => pure (.error e)
  | .ok u =>
    let w ← getW u
    if w.singleton then pure (.ok (.value ("numprocesses=" ++ toString w.np ++ ",singleton=true")))
    else
      let nb := ((props.get? "nb").bind intOf).getD 1
      let t ← syncCoroutine (if sign > 0 then "watcher_incr" else "watcher_decr") (.setNumprocesses u (w.np + sign * nb)) []
      pure (t.map fun tid => .future tid "np")

def execReload (props : JVal) : M (R ExecRes) := do
  let g := ((props.get? "graceful").map truthy).getD true
  let s := ((props.get? "sequential").map truthy).getD false
  let waiting := ((props.get? "waiting").map truthy).getD false
  match props.get? "name" with
  | some name =>
    let r ← getWatcherCmd name
    match r with
    | .error e => pure (.error e)
    | .ok u =>
      let t ← syncCoroutine "watcher_reload" (.pubReload u g s) []
      pure (t.map fun tid => .future tid (if waiting then "info" else ""))
  | none =>
    let t ← syncCoroutine "arbiter_reload" (.arbReload g s) []
    pure (t.map fun tid => .future tid "")

/-- body of one synchronized `set_opt` call (`lenient` is no longer used: a `hooks.*` value that cannot be split, whose flag is
    no boolean word or whose name does not resolve raises like any other option) -/
def setOptBody (u : Nat) (key : String) (val : JVal) (lenient : Bool) : M (R Unit) := do
  let ok ← setOpt u key val
  pure (if ok || lenient then .ok () else .error (.other "ValueError"))

def execSet (props : JVal) : M (R ExecRes) := do
  let r ← getWatcherCmd ((props.get? "name").getD .null)
  match r with
  | .error e => pure (.error e)
  | .ok u =>
    let opts := match props.get? "options" with | some (.obj kvs) => kvs | _ => []
    -- dict semantics: later duplicates overwrite, position of first occurrence kept
    let keys := opts.foldl (fun acc kv => if acc.contains kv.1 then acc else acc ++ [kv.1]) ([] : List String)
    let mut action : Int := 0
    let mut err : Option Exc := none
    for key in keys do
      if err.isNone then
        let val := ((JVal.obj opts).get? key).getD .null
        if key = "hooks" then
          match val with
          | .obj hs =>
            for h in hs do
              if err.isNone then
                let r ← syncPlain "watcher_set_opt" (setOptBody u ("hooks." ++ h.1) h.2 false)
                match r with | .error e => err := some e | .ok _ => pure ()
            -- `action = watcher.set_opt('hooks.%s' % name, _val)`: the loop variable IS the accumulated action — a hook that
            -- is set (set_opt returns 0) resets a restart an earlier option of the same request had asked for.  (When one of
            -- them raises the request fails and the action is never used: resetting for any non-empty dict is the same.)
            if !hs.isEmpty then action := 0
          | _ => pure ()
        else
          let r ← syncPlain "watcher_set_opt" (setOptBody u key val false)
          match r with
          | .error e => err := some e
          | .ok _ => if setOptAction key = 1 then action := 1
    match err with
    | some e => pure (.error e)
    | none =>
      let t ← syncCoroutine "watcher_do_action" (.doAction u action) []
      pure (t.map fun tid => .future tid "")

/-- Kill.validate: `int(props['pid'])`, `to_signum` -/
def validateKill (props : JVal) : R JVal :=
  let pidOk : R (Option Int) := match props.get? "pid" with
    | none => .ok none
    | some (.int i) => .ok (some i)
    | some (.bool b) => .ok (some (if b then 1 else 0))
    | some (.str s) => match s.toInt? with | some i => .ok (some i) | none => .error (.other "ValueError")
    | some (.real _) => .error (.other "unmodelled")     -- int(float) truncates: outside the generated domain
    | some _ => .error (.other "TypeError")
  match pidOk with
  | .error e => .error e
  | .ok _ =>
    match props.get? "signum" with
    | none => .ok props
    | some v => match toSignumJ v with
      | some _ => .ok props
      | none => .error .message

def pidOfProps (props : JVal) : Option Int :=
  match props.get? "pid" with
  | some (.int i) => some i
  | some (.bool b) => some (if b then 1 else 0)
  | some (.str s) => s.toInt?
  | _ => none

def execKill (props : JVal) : M (R ExecRes) := do
  -- `Kill.execute` is itself a coroutine: a MessageError for an unknown watcher ends up in its future
  let name := (props.get? "name").getD .null
  let r ← getWatcherCmd name
  match r with
  | .error _ => pure (.ok (.future 0 "failed:"))     -- the future is already failed
  | .ok u =>
    let act ← activeProcs u
    let pid := pidOfProps props
    let procs := match pid with
      | some p => act.filter (fun q => (q : Int) = p)       -- `if pid is not None` (as repaired)
      | none => act
    let sig := (props.get? "signum").bind toSignumJ
    let gt := match props.get? "graceful_timeout" with
      | some .null => none
      | some v => secondsToMs v
      | none => none
    let tid ← plainCoroutine (.killCmd u procs sig gt) []
    pure (.ok (.future tid ""))

def execSignal (props : JVal) : M (R ExecRes) := do
  let r ← getWatcherCmd ((props.get? "name").getD .null)
  match r with
  | .error e => pure (.error e)
  | .ok u =>
    let sig := ((props.get? "signum").bind toSignumJ).getD 0
    let w ← getW u
    let pids : List JVal ← match props.get? "pid" with
      | some p => pure [p]
      | none => do
        let act ← activeProcs u
        pure (act.map fun p => JVal.int (p : Nat))
    let childpid := (props.get? "childpid").getD .null
    let children := ((props.get? "children").map truthy).getD false
    let recursive := ((props.get? "recursive").map truthy).getD false
    let mut err : Option Exc := none
    for pj in pids do
      if err.isNone then
        -- dict lookups use the JSON value as key: only ints can be keys of `processes`
        let own : Option Nat := match pj with
          | .int i => if i ≥ 0 && w.pids.contains i.toNat then some i.toNat else none
          | _ => none
        if childpid.truthy then
          match own with
          | none => err := some (.other "KeyError")
          | some p =>
            match childpid with
            | .int c =>
              let r ← sendSignalChild p c.toNat sig
              err := r.exc
            | _ => err := some (.other "unmodelled")
        else if children then
          match own with
          | none => err := some (.other "KeyError")
          | some p =>
            let cs ← kChildren p false
            match cs with
            | none => err := some .noSuchProcess
            | some l =>
              -- `Process.send_signal_children` swallows OSError/ESRCH only: a child that vanished since the lookup
              -- makes psutil raise NoSuchProcess, one the daemon may not signal AccessDenied: either ends the loop
              -- and the request
              for c in l do
                if err.isNone then
                  let r ← kKill c sig
                  err := r.exc
        else
          match pj with
          | .int i =>
            if i ≥ 0 then
              let r ← sendSignal u i.toNat sig
              err := r.exc
            else pure ()
          | _ => pure ()
          if err.isNone && recursive then
            match own with
            | none => err := some (.other "KeyError")
            | some p =>
              let cs ← kChildren p true
              match cs with
              | none => err := some .noSuchProcess
              | some l =>
                for c in l do
                  if err.isNone then
                    let r ← kKill c sig
                    err := r.exc
    match err with
    | some e => pure (.error e)
    | none => pure (.ok (.value "-"))

def execRm (props : JVal) : M (R ExecRes) := do
  let r ← getWatcherCmd ((props.get? "name").getD .null)
  match r with
  | .error e => pure (.error e)
  | .ok u =>
    let nostop := ((props.get? "nostop").map truthy).getD false
    let t ← syncCoroutine "arbiter_rm_watcher" (.rmWatcher u nostop) []
    pure (t.map fun tid => .future tid "")

/-- option values of `add` that the model applies to the new watcher -/
def applyAddOptions (w : Watcher) : List (String × JVal) → Option Watcher
  | [] => some w
  | (k, v) :: rest =>
    let w' : Option Watcher := match k, v with
      | "numprocesses", v => (intOf v).map fun n => { w with np := n }
      | "singleton", v => some { w with singleton := v.truthy }     -- not type-checked by validate_option
      | "respawn", .bool b => some { w with respawn := b }
      | "warmup_delay", v => (secondsToMs v).map fun ms => { w with warmup := ms }
      | "graceful_timeout", v => (secondsToMs v).map fun ms => { w with graceful := ms }
      | "stop_signal", .int i => if validSignum i then some { w with stopSignal := i.toNat } else some w
      | "stop_children", .bool b => some { w with stopChildren := b }
      | "send_hup", .bool b => some { w with sendHup := b }
      | "max_retry", v => (intOf v).map fun n => { w with maxRetry := n }
      | "max_age", v => (intOf v).map fun n => { w with maxAge := n.toNat }
      | _, _ => some w
    match w' with
    | some w' => applyAddOptions w' rest
    | none => none

/-- `add_watcher` for an already constructed watcher: AlreadyExist unless the lower-cased name
    is free; then a new object with a fresh identity enters the heap, the list and the dict -/
def registerChecked (w : Watcher) : M (Option Nat) := fun s =>
  if (s.a.names.lookup (pyLower w.name)).isSome then (none, s)
  else if w.singleton && !(w.np = 0 || w.np = 1) then (none, s)      -- the constructor raises
  else
  let uid := s.nextId
  (some uid, { s with nextId := s.nextId + 1, ws := s.ws ++ [{ w with uid := uid }],
                      a := { s.a with watchers := s.a.watchers ++ [uid],
                                      names := s.a.names ++ [(pyLower w.name, uid)] } })

/-- `Watcher.__init__`: max(0, int(numprocesses)) -/
def clampNp (w : Watcher) : Watcher := { w with np := if w.np < 0 then 0 else w.np }

def registerNew (w : Watcher) : M (Option Nat) := registerChecked (clampNp w)

/-- the body of `Arbiter.add_watcher` (inside `synchronized`) -/
def addCore (props : JVal) : M (R Nat) := do
  let opts := match props.get? "options" with | some (.obj kvs) => kvs | _ => []
  match props.get? "name" with
  | some (.str name) =>
    if name.isEmpty then
      -- AlreadyExist is checked first, but every failure here is the same error class
      pure (.error (.other "ValueError"))
    else
      match applyAddOptions { name := name, graceful := 30000 } opts with
      | none => pure (.error (.other "ValueError"))
      | some w =>
        let r ← registerNew w
        match r with
        | none => pure (.error (.other "AlreadyExist"))     -- or the constructor's ValueError: same error class
        | some uid =>
          notify uid "add" none
          pure (.ok uid)
  | _ => pure (.error (.other "AttributeError"))

/-- `AddWatcher.execute`, first thing: in endpoint-owner mode (`endpoint_owner` set and an ipc:// control endpoint) the
    `uid` option of the request must be the endpoint owner (`options.get('uid') != arbiter.endpoint_owner` → MessageError);
    `options` is `props.get('options', {})` — `validate` has made sure it is an object when present -/
def ownerRefuses (owner : Option String) (props : JVal) : Bool :=
  match owner with
  | none => false
  | some o =>
    let opts := match props.get? "options" with | some (.obj kvs) => kvs | _ => []
    match (JVal.obj opts).get? "uid" with
    | some (.str u) => u != o
    | _ => true

def execAdd (props : JVal) : M (R ExecRes) := do
  let a ← getA
  if ownerRefuses a.endpointOwner props then pure (.error .message) else
  let r ← syncPlain "arbiter_add_watcher" (addCore props)
  match r with
  | .error e => pure (.error e)
  | .ok uid =>
    if ((props.get? "start").map truthy).getD false then
      let t ← syncCoroutine "watcher_start" (.pubStart uid) []
      pure (t.map fun tid => .future tid "")
    else pure (.ok (.value "-"))

def encName (s : String) : String := encS s

def insertStrs (x : String) : List String → List String
  | [] => [x]
  | y :: ys => if x ≤ y then x :: y :: ys else y :: insertStrs x ys
/-- `sorted(list of str)` -/
def sortStrs (l : List String) : List String := l.foldr insertStrs []

/-- `Process.info()`: the psutil figures of the worker (`"No such process"` once it is gone), then of each of its
    children; a worker or child that vanishes in between is an uncaught NoSuchProcess (`false`) -/
def procInfo (pid : Nat) : M Bool := do
  let st ← kStateOf pid
  if st = .gone then pure true else
  let cs ← kChildren pid false
  match cs with
  | none => pure false
  | some cs =>
    let mut ok := true
    for c in cs do
      if ok then
        let st ← kStateOf c
        if st = .gone then ok := false
    pure ok

/-- `Watcher.info()`: one entry per listed process, in the order of the dict -/
def watcherInfo (u : Nat) : M Bool := do
  let w ← getW u
  let mut ok := true
  for pid in w.pids do
    if ok then
      let r ← procInfo pid
      if !r then ok := false
  pure ok

/-- the reply of `stats` once the figures have been collected: NoSuchProcess (errno 5) when a process vanished meanwhile -/
def statsTail (ok : Bool) (body : String) : R ExecRes :=
  if ok then .ok (.value body) else .error .noSuchProcess

/-- `watcher.process_info(pid)`: `self.processes[int(pid)]`, KeyError is answered as a MessageError -/
def statsProc (w : Watcher) (p : Int) : M (R ExecRes) :=
  if p < 0 || !w.pids.contains p.toNat then pure (.error .message) else do
    let ok ← procInfo p.toNat
    pure (statsTail ok ("procinfo=" ++ toString p))

def statsWatcher (u : Nat) (name : JVal) : M (R ExecRes) := do
  let w ← getW u
  let ok ← watcherInfo u
  let nm := match name with | .str n => n | _ => ""
  pure (statsTail ok ("stats=" ++ encName nm ++ ":" ++ showList w.pids))

/-- `infos[watcher.name] = watcher.info()` over the arbiter's list: a dict keyed by the watcher's name (a later watcher
    of the same name takes the earlier one's place) -/
def statsAllLoop : List Watcher → List (String × String) → M (Bool × List (String × String))
  | [], parts => pure (true, parts)
  | w :: ws, parts => do
    let r ← watcherInfo w.uid
    if !r then pure (false, parts) else
    statsAllLoop ws ((parts.map fun kv => if kv.1 = w.name then (kv.1, showList w.pids) else kv) ++
                     (if parts.any (·.1 = w.name) then [] else [(w.name, showList w.pids)]))

def statsAll : M (R ExecRes) := do
  let ws ← registered
  let r ← statsAllLoop ws []
  pure (statsTail r.1 ("infos=" ++ ";".intercalate (r.2.map fun kv => encName kv.1 ++ ":" ++ kv.2)))

/-- `stats` (commands/stats.py): per process of the named watcher, one process of it, or every watcher of the list -/
def execStats (props : JVal) : M (R ExecRes) := do
  match props.get? "name" with
  | some name =>
    let r ← getWatcherCmd name
    match r with
    | .error e => pure (.error e)
    | .ok u =>
      let w ← getW u
      match props.get? "process" with
      | some (.int p) => statsProc w p
      | some _ => pure (.error (.other "unmodelled"))
      | none => statsWatcher u name
  | none => statsAll

/-! ### `options`, `get`, `globaloptions`, `dstats`, `listsockets` (commands/options.py, get.py, globaloptions.py, …)

The reply bodies are canonical text (harness/sim.py `body_of` renders the implementation's reply the same way):
`options=<name>:<value>;…` over the option names the model's watcher record carries, sorted by name; ints in
decimal, booleans `true`/`false`, `warmup_delay` / `graceful_timeout` in integer milliseconds.  Options of the real
watcher that the model does not carry (cmd, env, uid, …) are left out of the compared body on both sides. -/

/-- `Watcher.optnames` (watcher.py, `__init__`): the names `get` accepts and `options` lists.  (`autostart`, `hooks`,
    `rlimits`, `stdin_socket`, `virtualenv` are constructor parameters but not option names; extra keyword options of the
    constructor — `retry_in`, dotted keys given to `add` — would be appended: outside the modelled domain.) -/
def optNames : List String :=
  ["numprocesses", "warmup_delay", "working_dir", "uid", "gid", "send_hup", "stop_signal", "stop_children", "shell",
   "shell_args", "env", "max_retry", "cmd", "args", "respawn", "graceful_timeout", "executable", "use_sockets",
   "priority", "copy_env", "singleton", "stdout_stream_conf", "on_demand", "stderr_stream_conf", "max_age",
   "max_age_variance", "close_child_stdin", "close_child_stdout", "close_child_stderr"]

def boolText (b : Bool) : String := if b then "true" else "false"

/-- `Watcher.options()` (`sorted(self.optnames)`, value = the attribute) restricted to the options the model carries -/
def optionPairs (w : Watcher) : List (String × String) :=
  [("graceful_timeout", toString w.graceful), ("max_age", toString w.maxAge), ("max_retry", toString w.maxRetry),
   ("numprocesses", toString w.np), ("on_demand", boolText w.onDemand), ("priority", toString w.priority),
   ("respawn", boolText w.respawn), ("send_hup", boolText w.sendHup), ("singleton", boolText w.singleton),
   ("stop_children", boolText w.stopChildren), ("stop_signal", toString w.stopSignal),
   ("warmup_delay", toString w.warmup)]

def renderOptions (kvs : List (String × String)) : String :=
  "options=" ++ ";".intercalate (kvs.map fun kv => kv.1 ++ ":" ++ kv.2)

/-- the body of an `options` reply: a function of the watcher record alone -/
def optionsBody (w : Watcher) : String := renderOptions (optionPairs w)

/-- `options`: `{"options": dict(watcher.options())}` -/
def execOptions (props : JVal) : M (R ExecRes) := do
  let r ← getWatcherCmd ((props.get? "name").getD .null)
  match r with
  | .error e => pure (.error e)
  | .ok u => do let w ← getW u; pure (.ok (.value (optionsBody w)))

/-- what `for name in props.get('keys', [])` iterates over: the items of a list, the characters of a string, the keys of
    an object; `none` = not iterable (null, number, boolean): TypeError -/
def getKeyItems : JVal → Option (List JVal)
  | .arr xs => some xs
  | .str s => some (s.toList.map fun c => .str (String.singleton c))
  | .obj kvs => some (kvs.map fun kv => .str kv.1)
  | _ => none

/-- `name in watcher.optnames` -/
def isOptName : JVal → Bool
  | .str n => optNames.contains n
  | _ => false

/-- the loop of `Get.execute` on a found watcher: the first item that is no option name raises MessageError (whatever
    its type — membership in a tuple is by equality); otherwise the named options, as a dict (duplicates collapse) -/
def getBody (w : Watcher) (keys : JVal) : R ExecRes :=
  match getKeyItems keys with
  | none => .error (.other "TypeError")
  | some items =>
    if items.all isOptName then
      .ok (.value (renderOptions ((optionPairs w).filter fun kv => items.any fun k => match k with | .str n => n = kv.1 | _ => false)))
    else .error .message

/-- `get`: `_get_watcher` first (unknown watcher → MessageError before `keys` is looked at), then the keys -/
def execGet (props : JVal) : M (R ExecRes) := do
  let r ← getWatcherCmd ((props.get? "name").getD .null)
  match r with
  | .error e => pure (.error e)
  | .ok u => do let w ← getW u; pure (getBody w ((props.get? "keys").getD (.arr [])))

/-- `globaloptions._OPTIONS` -/
def globalOptionNames : List String :=
  ["endpoint", "stats_endpoint", "pubsub_endpoint", "check_delay", "multicast_endpoint"]

/-- `globaloptions`: `wanted = props.get('option')`; a truthy `wanted` must be one of the five names (MessageError
    otherwise, whatever its type), a falsy or absent one means all of them.  The values (endpoints, check_delay) are
    parameters of the harness and not carried by the model: the body lists the names, sorted. -/
def globalOptionsBody (props : JVal) : R ExecRes :=
  let all : R ExecRes := .ok (.value ("options=" ++ ";".intercalate (sortStrs globalOptionNames)))
  match props.get? "option" with
  | none => all
  | some v =>
    if !v.truthy then all else
    match v with
    | .str n => if globalOptionNames.contains n then .ok (.value ("options=" ++ n)) else .error .message
    | _ => .error .message

def execReadOnly (cmd : String) (props : JVal) : M (R ExecRes) := do
  match cmd with
  | "status" =>
    match props.get? "name" with
    | some name =>
      let r ← getWatcherCmd name
      match r with
      | .error e => pure (.error e)
      | .ok u => do let w ← getW u; pure (.ok (.statusPayload (statusName w.status)))
    | none =>
      let ws ← registered
      pure (.ok (.value ("statuses=" ++ ",".intercalate (ws.map fun w => encName w.name ++ ":" ++ statusName w.status))))
  | "list" =>
    match props.get? "name" with
    | some name =>
      let r ← getWatcherCmd name
      match r with
      | .error e => pure (.error e)
      | .ok u =>
        let act ← activeProcs u
        -- `status = [(p.pid, p.status) for p in processes]` (debug line): one more status read each
        for p in act do let _ ← procStatus p
        pure (.ok (.value ("pids=" ++ showList act)))
    | none =>
      let a ← getA
      let keys := sortStrs (a.names.map (·.1))
      pure (.ok (.value ("watchers=" ++ ",".intercalate (keys.map encName))))
  | "numprocesses" =>
    match props.get? "name" with
    | some name =>
      let r ← getWatcherCmd name
      match r with
      | .error e => pure (.error e)
      | .ok u => do let w ← getW u; pure (.ok (.value ("numprocesses=" ++ toString w.pids.length)))
    | none =>
      let ws ← registered
      pure (.ok (.value ("numprocesses=" ++ toString ((ws.map fun w => w.pids.length).foldl (· + ·) 0))))
  | "numwatchers" =>
    let a ← getA
    pure (.ok (.value ("numwatchers=" ++ toString a.watchers.length)))
  | "listen" => pure (.error .message)
  | "stats" => execStats props
  | "options" => execOptions props
  | "get" => execGet props
  | "globaloptions" => pure (globalOptionsBody props)
  -- `dstats`: the psutil figures of the daemon itself (`{"info": {...}}`), outside the model: some figures, always
  | "dstats" => pure (.ok (.value "info:?"))
  -- `listsockets`: the managed sockets sorted by fd; the core model has none (the Sockets layer has them)
  | "listsockets" => pure (.ok (.value "sockets=[]"))
  | _ => pure (.ok .unmodelled)

/-- `cmd.validate(props)` then `cmd.execute(arbiter, props)` -/
def validateExecute (cmd : String) (props : JVal) : M (R ExecRes) := do
  -- Command.validate
  if (requiredProps cmd).any fun p => !props.has p then pure (.error .message) else
  match cmd with
  | "start" => execSSR "start" props
  | "stop" => execSSR "stop" props
  | "restart" => execSSR "restart" props
  | "incr" | "decr" =>
    match props.get? "nb" with
    | some (.int _) | none => execIncrDecr (if cmd = "incr" then 1 else -1) props
    | some _ => pure (.error .message)
  | "reload" => execReload props
  | "set" =>
    match props.get? "options" with
    | some (.obj kvs) =>
      if kvs.all fun kv => validateOption kv.1 kv.2 then execSet props else pure (.error .message)
    | _ => pure (.error .message)
  | "kill" =>
    match validateKill props with
    | .error e => pure (.error e)
    | .ok _ => execKill props
  | "signal" =>
    if props.has "childpid" && !props.has "pid" then pure (.error (.other "ArgumentError")) else
    match (props.get? "signum").bind toSignumJ with
    | none => pure (.error .message)
    | some _ => execSignal props
  | "rm" => execRm props
  | "add" =>
    match props.get? "options" with
    | none => execAdd props
    | some (.obj kvs) =>
      if kvs.all fun kv => validateOption kv.1 kv.2 then execAdd props else pure (.error .message)
    | some _ => pure (.error .message)
  | "quit" => do
    let t ← syncCoroutine "arbiter_stop" .arbStop []
    pure (t.map fun tid => .future tid "")
  | "reloadconfig" => pure (.error (.other "unmodelled"))
  | c => execReadOnly c props

def errnoOf : Exc → String
  | .message => "3"
  | .conflict => "5"
  | .oserror => "4"
  | .other "unmodelled" => "*"
  | .other _ => "5"
  | .noSuchProcess => "5"

def clearDone : M Unit := modS fun s => { s with doneVals := [] }

/-- `future.add_done_callback(cb)`: attached when pending, otherwise scheduled on the ready queue -/
def addDoneCallback (tid : Nat) (cb : TopCb) : M Unit := do
  let s ← getS
  if (s.tops.find? (·.tid = tid)).isSome then
    topAddCb tid cb
  else
    enqueue (.topCb cb ((s.doneVals.lookup tid).getD .unit))

/-- `Controller.handle_message` + `dispatch` -/
def handleMessage (cid : Option String) (msg : Option JVal) : M Unit := do
  match msg with
  | none => sendReply cid .null false "error" "1" "-"
  | some j =>
    if !j.isObj then sendReply cid .null false "error" "1" "-" else
    let mid := (j.get? "id").getD .null
    let cast := match j.get? "msg_type" with | some (.str "cast") => true | _ => false
    let props := (j.get? "properties").getD (.obj [])
    match j.get? "command" with
    | some (.str name) =>
      let cmd := pyLower name
      if !commandNames.contains cmd then sendReply cid mid cast "error" "2" "-" else
      if !props.isObj then sendReply cid mid cast "error" "3" "-" else
      let waiting := ((props.get? "waiting").map truthy).getD false
      -- results of futures that complete synchronously are remembered through `doneVal`
      clearDone
      let r ← validateExecute cmd props
      match r with
      | .error e => sendReply cid mid cast "error" (errnoOf e) "-"
      | .ok (.value body) => sendReply cid mid cast "ok" "-" body
      | .ok (.statusPayload st) => sendReply cid mid cast st "-" "-"
      | .ok .unmodelled => sendReply cid mid cast "*" "*" "*"
      | .ok (.future tid xform) =>
        if xform.startsWith "failed:" then
          -- Kill.execute raised inside its own coroutine
          if waiting then sendReply cid mid cast "error" "6" "-" else sendReply cid mid cast "ok" "-" "-"
        else
          addDoneCallback tid (.reply cid mid cast cmd waiting xform)
          if !waiting then sendReply cid mid cast "ok" "-" "-"
    | _ => sendReply cid mid cast "error" "2" "-"

/-- exception classes by name, as the `except` ladder of `dispatch` tells them apart -/
def excOfClass : String → Exc
  | "MessageError" => .message
  | "ConflictError" => .conflict
  | "OSError" | "FileNotFoundError" | "PermissionError" | "ProcessLookupError" => .oserror
  | n => .other n

/-- `Controller.dispatch` for a well-formed request whose command raises `e` synchronously from
    `validate` or `execute`: the ladder ends in a bare `except:`, so whatever is raised — classes
    outside `Exception` such as SystemExit or KeyboardInterrupt included — becomes one error reply
    and nothing escapes into the event loop -/
def dispatchRaised (cid : Option String) (j : JVal) (e : Exc) : M Unit := do
  let mid := (j.get? "id").getD .null
  let cast := match j.get? "msg_type" with | some (.str "cast") => true | _ => false
  sendReply cid mid cast "error" (errnoOf e) "-"

/-- `SysHandler._quit`: a termination signal waits for a running exclusive command -/
def sigQuit : M Unit := do
  let a ← getA
  if a.slot.isSome && !a.stopping then
    let fid ← newFrame .pass (.callback "sigquit")
    armFrame fid
    addSleeper 100 (.frame fid 0)
  else handleMessage none (some (.obj [("command", .str "quit"), ("properties", .obj [])]))

def dequeue : M Unit := modS fun s => { s with ready := s.ready.tail }

/-- one entry of the ready queue -/
def runReady1 (rec : Rec) : Ready → M Unit
  | .resume k v w => rec (.resume k v w)
  | .topCb cb v => runTopCb v cb
  | .closeCtl => stopController
  | .callback _ => sigQuit

/-- the loop takes the first ready callback and runs it -/
def settleStep : M Unit := do
  let s ← getS
  match s.ready with
  | [] => pure ()
  | r :: _ =>
    dequeue
    runReady1 (exec 100000) r

/-- run the event loop until its ready queue is empty (`settle`) -/
def settle : Nat → M Unit
  | 0 => emit .outOfFuel
  | fuel + 1 => do
    let s ← getS
    if s.blocked then pure () else
    if s.ready.isEmpty then pure () else do
      settleStep
      settle fuel

end Circus.Core
