import CircusModel.Core.Kernel
/-
Synchronous parts of `circus/watcher.py` and `circus/process.py` (no suspension point inside).
Each definition cites the Python function it transliterates.
-/
namespace Circus.Core

def defaultWatcher : Watcher := { name := "" }

def getW (uid : Nat) : M Watcher := fun s => ((s.ws.find? (·.uid = uid)).getD defaultWatcher, s)
def modW (uid : Nat) (f : Watcher → Watcher) : M Unit :=
  modS fun s => { s with ws := s.ws.map fun w => if w.uid = uid then f w else w }
def getO (pid : Nat) : M PObj := fun s => ((s.objs.find? (·.pid = pid)).getD { pid := pid, wid := 0, started := 0 }, s)
def modO (pid : Nat) (f : PObj → PObj) : M Unit :=
  modS fun s => { s with objs := s.objs.map fun o => if o.pid = pid then f o else o }
def getA : M Arbiter := fun s => (s.a, s)
def modA (f : Arbiter → Arbiter) : M Unit := modS fun s => { s with a := f s.a }

/-- Latin-1 aware `str.lower()` (domain: ASCII and Latin-1 supplement) -/
def pyLowerChar (c : Char) : Char :=
  let n := c.toNat
  if 65 ≤ n && n ≤ 90 then Char.ofNat (n + 32)
  else if 192 ≤ n && n ≤ 222 && n ≠ 215 then Char.ofNat (n + 32)
  else c
def pyLower (s : String) : String := s.map pyLowerChar
def lower (s : String) : String := pyLower s

/-! named state writers (every write to the model state goes through one of these or the ones in
    Interp/Bodies/Commands; the proofs have one lemma per writer) -/
def setStatus (uid : Nat) (st : Status) : M Unit := modW uid fun w => { w with status := st }
/-- `np < 0 → 0`, `ValueError` for a singleton above 1, else assign (`set_numprocesses` / `set_opt`);
    `false` = it raised -/
def trySetNp (uid : Nat) (n : Int) : M Bool := fun s =>
  let w := (s.ws.find? (·.uid = uid)).getD defaultWatcher
  let n := if n < 0 then 0 else n
  if w.singleton && n > 1 then (false, s)
  else (true, { s with ws := s.ws.map fun w =>
                  if w.uid = uid && !(w.singleton && n > 1) then { w with np := n } else w })
def bumpHook (uid : Nat) (h : String) (i : Nat) : M Unit :=
  modW uid fun w => { w with hookCalls := (h, i + 1) :: w.hookCalls.filter (·.1 ≠ h) }
def setObjStopping (pid : Nat) (b : Bool) : M Unit := modO pid fun o => { o with stopping := b }
def setRc (pid : Nat) (rc : Int) : M Unit := modO pid fun o => { o with rc := some rc }
def markBlocked : M Unit := modS fun s => { s with blocked := true }

/-- `Watcher.res_name` = name.lower().replace(" ", "_") -/
def resName (name : String) : String := (lower name).map fun c => if c = ' ' then '_' else c

/-- `Watcher.notify_event` -/
def notify (uid : Nat) (topic : String) (pid : Option Nat) (extra : String := "-") : M Unit := do
  let a ← getA
  let w ← getW uid
  if a.pubClosed then pure () else emitEv (resName w.name) topic pid extra

/-- `Watcher.call_hook` -/
def callHook (uid : Nat) (hname : String) : M Bool := do
  let w ← getW uid
  match w.hooks.lookup hname with
  | none => pure true
  | some spec =>
    let i := (w.hookCalls.lookup hname).getD 0
    bumpHook uid hname i
    let o := spec.outs.getD (i % (if spec.outs.length = 0 then 1 else spec.outs.length)) "true"
    if o = "raise" then
      notify uid "hook_failure" none hname
      pure (w.ignoreFail.contains hname)
    else
      notify uid "hook_success" none hname
      pure (o = "true")

inductive PStat where
  | running | deadOrZombie | unexisting | other
  deriving Repr, DecidableEq, Inhabited

/-- `Process.status` (property): psutil status(), then is_running() -/
def procStatus (pid : Nat) : M PStat := do
  let st ← kStateOf pid
  match st with
  | .zombie => pure .deadOrZombie
  | .gone => pure .unexisting
  | .run =>
    let st2 ← kStateOf pid
    pure (if st2 = .gone then .other else .running)

def isDead (s : PStat) : Bool := s = .deadOrZombie || s = .unexisting

/-- decode a wait status like `subprocess.Popen._handle_exitstatus` / `reap_process` -/
def exitCodeOf (status : Nat) : Int :=
  if status % 128 ≠ 0 then -((status % 128 : Nat) : Int) else ((status / 256) % 256 : Nat)

/-- `Process.is_alive` = `Popen.poll() is None` (poll reaps and caches) -/
def isAlive (pid : Nat) : M Bool := do
  let o ← getO pid
  match o.rc with
  | some _ => pure false
  | none =>
    let r ← kWaitpid (some pid)
    match r with
    | .none => pure true
    | .echild => setRc pid 0; pure false
    | .got _ st => setRc pid (exitCodeOf st); pure false

/-- `Process.stop`: terminate() if still alive (NoSuchProcess swallowed), close the pipes -/
def objStop (pid : Nat) : M Unit := do
  let alive ← isAlive pid
  if alive then
    let _ ← kKill pid 15 "t"
    pure ()
  else pure ()

/-- the psutil exception a failed signal raises (`NoSuchProcess` / `AccessDenied`: both `psutil.Error`, neither an
    `OSError`) -/
def SigRes.exc : SigRes → Option Exc
  | .ok => none
  | .noSuch => some .noSuchProcess
  | .denied => some (.other "AccessDenied")

/-- `Watcher.send_signal`; anything but `.ok` = `NoSuchProcess` / `AccessDenied` escapes (the `after_signal` hook is
    then not called: there is no `finally`) -/
def sendSignal (uid pid sig : Nat) : M SigRes := do
  let w ← getW uid
  if w.pids.contains pid then
    let r ← callHook uid "before_signal"
    let res ← if sig ≠ 9 && !r then pure SigRes.ok else kKill pid sig
    if res = .ok then
      let _ ← callHook uid "after_signal"
      pure .ok
    else pure res
  else pure .ok

/-- `Process.send_signal_child`; `.noSuch` = NoSuchProcess (also: not a child any more), `.denied` = AccessDenied -/
def sendSignalChild (ppid cpid sig : Nat) : M SigRes := do
  let cs ← kChildren ppid false
  match cs with
  | none => pure .noSuch
  | some l => if l.contains cpid then kKill cpid sig else pure .noSuch

/-- the loop over the children of `Watcher.send_signal_process`: `NoSuchProcess` is swallowed child by child,
    `AccessDenied` ends it (`false`) -/
def signalKids (uid pid sig : Nat) : List Nat → M Bool
  | [] => pure true
  | c :: cs => do
    let r ← sendSignalChild pid c sig
    if r = .denied then pure false else
    if r = .ok then notify uid "kill" (some c)
    signalKids uid pid sig cs

/-- `Watcher.send_signal_process`; `false` = `AccessDenied` escapes (from the worker's own signal: the children get
    nothing; or from a child's: the children after it get nothing) -/
def sendSignalProcess (uid pid sig : Nat) (recursive : Bool) : M Bool := do
  let cs ← kChildren pid recursive
  match cs with
  | none => pure true                                 -- NoSuchProcess with children = None
  | some children =>
    let r ← sendSignal uid pid sig
    if r = .denied then pure false else
    if r = .ok then notify uid "kill" (some pid)
    signalKids uid pid sig children

/-- `Watcher.get_active_processes` (pids) -/
def activeProcs (uid : Nat) : M (List Nat) := do
  let w ← getW uid
  let mut out := []
  for pid in w.pids do
    let st ← procStatus pid
    if !isDead st then out := out ++ [pid]
  pure out

def popPid (uid pid : Nat) : M Unit := modW uid fun w => { w with pids := w.pids.filter (· ≠ pid) }

def setBlocked : M Unit := do
  emit .blocked
  markBlocked

/-- the `while status is None` loop of `reap_process` for the waitpid branch.
    Returns `none` for the ECHILD path, `some status` otherwise; `blocked` when it spins for ever. -/
def reapWait (pid : Nat) : Nat → M (Option (Option Nat))
  | 0 => do setBlocked; pure none
  | fuel + 1 => do
    let r ← kWaitpid (some pid)
    match r with
    | .none => kSleep 1; reapWait pid fuel
    | .echild => pure (some none)
    | .got _ st => pure (some (some st))

def spinLimit : Nat := 20000

/-- `reap_process` after the entry has been popped: wait for the process (unless the status is
    already known), publish the `reap` event, `Process.stop()`, then the `after_reap` hook (its result
    is ignored) -/
def reapTail (uid pid : Nat) (status : Option Nat) : M Unit := do
  let st : Option (Option Nat) ← match status with
    | some s => pure (some (some s))
    | none => reapWait pid spinLimit
  match st with
  | none => pure ()                                   -- blocked
  | some none =>
    -- "reaping already dead process": exit_code = Popen.returncode (may be None)
    let o ← getO pid
    notify uid "reap" (some pid) (match o.rc with | some c => toString c | none => "None")
    objStop pid
    let _ ← callHook uid "after_reap"
    pure ()
  | some (some s) =>
    let ps ← procStatus pid
    if isDead ps then objStop pid
    notify uid "reap" (some pid) (toString (exitCodeOf s))
    let _ ← callHook uid "after_reap"
    pure ()

/-- `Watcher.reap_process(pid, status=None)`: the `before_reap` hook runs after the membership test and
    before the pop; its result is ignored -/
def reapProcess (uid pid : Nat) (status : Option Nat) : M Unit := do
  let w ← getW uid
  if !w.pids.contains pid then pure () else
  let _ ← callHook uid "before_reap"
  popPid uid pid
  reapTail uid pid status

/-- `Watcher.reap_processes` -/
def reapProcesses (uid : Nat) : M Unit := do
  let w ← getW uid
  if w.status = .stopped then pure () else
  for pid in w.pids do
    let s ← getS
    if s.blocked then pure () else reapProcess uid pid none

/-- `Watcher._nextwid`: least positive integer ≤ 2·numprocesses not in use; `none` = RuntimeError -/
def nextWid (np : Int) (used : List Nat) : Option Nat :=
  ((List.range (2 * np.toNat)).map (· + 1)).find? (fun i => !used.contains i)

def usedWids (uid : Nat) : M (List Nat) := do
  let w ← getW uid
  let s ← getS
  pure (w.pids.map fun pid => ((s.objs.find? (·.pid = pid)).map (·.wid)).getD 0)

/-- `Arbiter.reap_processes`: waitpid(-1) loop -/
def arbReapLoop (pidmap : List (Nat × Nat)) : Nat → M Unit
  | 0 => pure ()
  | fuel + 1 => do
    let s ← getS
    if s.blocked then pure () else
    let r ← kWaitpid none
    match r with
    | .echild => pure ()
    | .none => pure ()
    | .got pid st =>
      match pidmap.lookup pid with
      | some uid => reapProcess uid pid (some st)
      | none => pure ()
      arbReapLoop pidmap fuel

/-- stable sort of watcher uids by priority (`Arbiter.iter_watchers`) -/
def insertBy (le : Watcher → Watcher → Bool) (x : Watcher) : List Watcher → List Watcher
  | [] => [x]
  | y :: ys => if le x y then x :: y :: ys else y :: insertBy le x ys

/-- `sorted(ws, key=priority, reverse=rev)`: Python's sort is stable also with reverse=True
    (equal elements keep their original order) -/
def sortWatchers (ws : List Watcher) (reverse : Bool) : List Watcher :=
  if reverse then ws.foldr (insertBy fun a b => a.priority ≥ b.priority) []
  else ws.foldr (insertBy fun a b => a.priority ≤ b.priority) []

def registered : M (List Watcher) := do
  let s ← getS
  pure (s.a.watchers.filterMap fun u => s.ws.find? (·.uid = u))

def iterWatchers (reverse : Bool := true) : M (List Nat) := do
  let ws ← registered
  pure ((sortWatchers ws reverse).map (·.uid))

def arbReapProcesses : M Unit := do
  let ws ← registered
  let sorted := sortWatchers ws true
  let mut pm : List (Nat × Nat) := []
  for w in sorted do
    if w.status ≠ .stopped then
      for pid in w.pids do
        pm := (pid, w.uid) :: pm.filter (·.1 ≠ pid)
  let s ← getS
  arbReapLoop pm (s.k.procs.length + 2)

end Circus.Core
