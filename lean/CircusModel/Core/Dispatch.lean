import CircusModel.Core.Bodies
/-
`Controller.handle_message` / `dispatch` / `send_response`, `commands/*.py` (`validate`,
`execute`), `commands/util.py: validate_option`, `util.synchronized`.
Requests arrive as `Option JVal` (`none` = `json.loads` raised or the frame was empty).
-/
namespace Circus.Core

namespace JVal
def get? (j : JVal) (key : String) : Option JVal :=
  match j with
  | .obj kvs => (kvs.reverse.lookup key)          -- later duplicates win, like a Python dict
  | _ => none

def has (j : JVal) (key : String) : Bool := (j.get? key).isSome

/-- Python truthiness -/
def truthy : JVal → Bool
  | .null => false
  | .bool b => b
  | .int i => i ≠ 0
  | .real t => !(t = "0.0" || t = "-0.0")
  | .str s => !s.isEmpty
  | .arr xs => !xs.isEmpty
  | .obj kvs => !kvs.isEmpty

def isStr : JVal → Bool | .str _ => true | _ => false
def isObj : JVal → Bool | .obj _ => true | _ => false
/-- `isinstance(v, int)` (bool is a subclass of int) -/
def isPyInt : JVal → Bool | .int _ => true | .bool _ => true | _ => false
def isPyNum : JVal → Bool | .int _ => true | .bool _ => true | .real _ => true | _ => false
def isBool : JVal → Bool | .bool _ => true | _ => false
end JVal

open JVal


abbrev R := Except Exc

def commandNames : List String :=
  ["add", "decr", "dstats", "get", "globaloptions", "incr", "ipython", "kill", "list", "listen",
   "listsockets", "numprocesses", "numwatchers", "options", "quit", "reload", "reloadconfig",
   "restart", "rm", "signal", "set", "start", "stats", "status", "stop"]

/-- `Command.properties` (required keys) -/
def requiredProps : String → List String
  | "add" => ["name", "cmd"]
  | "decr" => ["name"] | "incr" => ["name"]
  | "get" => ["name", "keys"]
  | "kill" => ["name"]
  | "options" => ["name"]
  | "rm" => ["name"]
  | "signal" => ["name", "signum"]
  | "set" => ["name", "options"]
  | _ => []

/-! ### validate_option (commands/util.py) -/

def hookNames : List String :=
  ["before_start", "after_start", "before_stop", "after_stop", "before_spawn", "after_spawn",
   "before_signal", "after_signal", "before_reap", "after_reap", "extended_stats"]

def validKeys : List String :=
  ["numprocesses", "warmup_delay", "working_dir", "uid", "gid", "send_hup", "stop_signal",
   "stop_children", "shell", "env", "cmd", "args", "copy_env", "retry_in", "max_retry",
   "graceful_timeout", "stdout_stream", "stderr_stream", "max_age", "max_age_variance", "respawn",
   "singleton", "hooks", "close_child_stdin", "close_child_stdout", "close_child_stderr"]

def validPrefixes : List String := ["stdout_stream.", "stderr_stream.", "hooks.", "rlimit_"]

def rlimitNames : List String :=
  ["AS", "CORE", "CPU", "DATA", "FSIZE", "MEMLOCK", "MSGQUEUE", "NICE", "NOFILE", "NPROC", "OFILE",
   "RSS", "RTPRIO", "RTTIME", "SIGPENDING", "STACK"]

/-- `true` = accepted, `false` = MessageError -/
def validateOption (key : String) (val : JVal) : Bool :=
  if !(validKeys.contains key) && !(validPrefixes.any fun p => key.startsWith p) then false
  else if ["numprocesses", "max_retry", "max_age", "max_age_variance", "stop_signal"].contains key then val.isPyInt
  else if ["warmup_delay", "retry_in", "graceful_timeout"].contains key then val.isPyNum
  else if ["uid", "gid"].contains key then val.isPyInt || val.isStr
  else if ["send_hup", "shell", "copy_env", "respawn", "stop_children", "close_child_stdin",
           "close_child_stdout", "close_child_stderr"].contains key then val.isBool
  else if key = "env" then
    match val with
    | .obj kvs => kvs.all fun kv => kv.2.isStr
    | _ => false
  else if key = "hooks" then
    match val with
    | .obj kvs => kvs.all fun kv => hookNames.contains kv.1
    | _ => false
  else if key = "stderr_stream" || key = "stdout_stream" then
    match val with
    | .obj _ => val.has "class"
    | _ => false
  else if key.startsWith "rlimit_" then
    rlimitNames.contains ((key.drop 7).toString.map Char.toUpper) &&
      (match val with | .null => true | v => v.isPyInt)
  else true

/-! ### watcher lookup -/

def lookupWatcher (nameLower : String) : M (Option Nat) := do
  let a ← getA
  pure (a.names.lookup nameLower)

/-- `Command._get_watcher(arbiter, name)`: `.lower()` twice; non-string → AttributeError -/
def getWatcherCmd (name : JVal) : M (R Nat) := do
  match name with
  | .str n =>
    let r ← lookupWatcher (pyLower n)
    match r with
    | some u => pure (.ok u)
    | none => pure (.error .message)
  | _ => pure (.error (.other "AttributeError"))

/-! ### glob matching (`fnmatch.translate` restricted to `*` and `?`; `[` is outside the domain) -/

def globMatch : Nat → List Char → List Char → Bool
  | 0, _, _ => false
  | _ + 1, [], [] => true
  | _ + 1, [], _ :: _ => false
  | f + 1, '*' :: ps, s =>
    globMatch f ps s || (match s with | [] => false | _ :: s' => globMatch f ('*' :: ps) s')
  | f + 1, '?' :: ps, s => match s with | [] => false | _ :: s' => globMatch f ps s'
  | f + 1, p :: ps, s => match s with | [] => false | c :: s' => p = c && globMatch f ps s'

def glob (pat s : String) : Bool :=
  globMatch (2 * (pat.length + s.length) + 4) pat.toList s.toList

/-! ### util.synchronized -/

/-- outcome of `cmd.execute` -/
inductive ExecRes where
  | value (body : String)            -- plain dict / None
  | statusPayload (st : String)      -- the `status` command overwrites the envelope status
  | future (tid : Nat) (xform : String)   -- a Future (already started); reply callbacks not yet attached
  | unmodelled                       -- read-only command outside the model: some reply, state untouched
  deriving Repr, Inhabited

def fuelDefault : Nat := 100000

/-- `@synchronized(name)` around a coroutine: conflict checks, take the slot, start the
    coroutine, release on completion.  Extra callbacks are attached by the caller. -/
def syncCoroutine (name : String) (c : Call) (extra : List TopCb) : M (R Nat) := do
  let a ← getA
  if a.restarting then pure (.error .conflict)
  else if a.slot.isSome then pure (.error .conflict)
  else
    setSlot (some name)
    let tid ← newTop ([.release] ++ extra)
    exec fuelDefault (.call c (.top tid))
    armTop tid
    pure (.ok tid)

/-- `@synchronized(name)` around a plain function -/
def syncPlain (name : String) (body : M (R α)) : M (R α) := do
  let a ← getA
  if a.restarting then pure (.error .conflict)
  else if a.slot.isSome then pure (.error .conflict)
  else
    setSlot (some name)
    let r ← body
    setSlot none
    pure r

/-- a coroutine that is not synchronized (Kill.execute) -/
def plainCoroutine (c : Call) (extra : List TopCb) : M Nat := do
  let tid ← newTop extra
  exec fuelDefault (.call c (.top tid))
  armTop tid
  pure tid

/-! ### decimal seconds → ms (JSON numbers) -/

def digitsVal (cs : List Char) : Option Nat :=
  if cs.isEmpty then some 0 else
  cs.foldl (fun acc c => match acc with
    | some a => if c.isDigit then some (a * 10 + (c.toNat - 48)) else none
    | none => none) (some 0)

/-- seconds (int or decimal text with ≤ 3 decimals) to milliseconds; negative → 0 polls anyway -/
def secondsToMs : JVal → Option Nat
  | .int i => some (i.toNat * 1000)
  | .bool b => some (if b then 1000 else 0)
  | .real t =>
    if t.startsWith "-" then some 0 else
    match t.splitOn "." with
    | [a, b] =>
      match digitsVal a.toList, digitsVal ((b.toList ++ ['0', '0', '0']).take 3) with
      | some x, some y => some (x * 1000 + y)
      | _, _ => none
    | _ => none
  | _ => none

/-! ### option application (`Watcher.set_opt`) for the modelled keys -/

def validSignum (i : Int) : Bool := 0 < i && i < 65

/-- `Watcher._default_ignore_hook_failure` -/
def defaultIgnoreFail : List String := ["before_stop", "after_stop", "before_signal", "after_signal", "extended_stats"]

/-- option changes that do not touch numprocesses -/
inductive OptChange where
  | warmup (ms : Nat) | graceful (ms : Nat) | stopSignal (n : Nat) | stopChildren (b : Bool)
  | sendHup (b : Bool) | maxAge (n : Nat) | nothing
  | hook (name : String) (outs : List String) (ignore : Bool)      -- `set <w> hooks.<name> = "dotted.name[,flag]"`
  deriving Repr, Inhabited

def applyOpt : OptChange → Watcher → Watcher
  | .warmup ms, w => { w with warmup := ms }
  | .graceful ms, w => { w with graceful := ms }
  | .stopSignal n, w => { w with stopSignal := n }
  | .stopChildren b, w => { w with stopChildren := b }
  | .sendHup b, w => { w with sendHup := b }
  | .maxAge n, w => { w with maxAge := n }
  | .nothing, w => w
  -- `_resolve_hook`: `self.hooks[name] = …`; with the flag the name joins `ignore_hook_failure` (once); without it the name
  -- leaves the list again unless it is one of the five names ignored by default (since fix 512dcc9: before it the flag of a
  -- replaced hook stuck for ever, F32)
  | .hook h outs ig, w =>
    { w with hooks := (h, { outs := outs, ignore := ig }) :: w.hooks.filter (·.1 ≠ h),
             ignoreFail := if ig then (if w.ignoreFail.contains h then w.ignoreFail else w.ignoreFail ++ [h])
                           else if defaultIgnoreFail.contains h then w.ignoreFail
                           else w.ignoreFail.filter (· ≠ h) }

/-- `str.strip()` over the ASCII white space the generated flags contain -/
def pyStripWs (s : String) : String :=
  let ws : Char → Bool := fun c => c = ' ' || c = '\t' || c = '\n' || c = '\r'
  String.ofList ((s.toList.dropWhile ws).reverse.dropWhile ws).reverse

/-- `util.to_bool` on a string: `none` = ValueError -/
def pyToBool (s : String) : Option Bool :=
  let t := pyStripWs (pyLower s)
  if ["yes", "true", "on", "1"].contains t then some true
  else if ["no", "false", "off", "0"].contains t then some false
  else none

/-- `resolve_name(dotted, reload=True)` for the hook names of the harness (harness/simhooks.py): `harness.simhooks.o_<letters>`
    is a hook whose scripted outcomes are the letters (t = true, f = false, r = raise), cycled by the per-watcher, per-hook call
    counter; every other name is an ImportError (`none`) -/
def simHookOuts (dotted : String) : Option (List String) :=
  let pre := "harness.simhooks.o_"
  if dotted.startsWith pre then
    let ls := dotted.toList.drop pre.length
    if ls.isEmpty || !(ls.all fun c => c = 't' || c = 'f' || c = 'r') then none
    else some (ls.map fun c => if c = 't' then "true" else if c = 'f' then "false" else "raise")
  else none

/-- the `hooks…` branch of `Watcher.set_opt`: `val.split(',')`, the flag through `to_bool` when there are exactly two parts,
    `_reload_hook(key, parts[0], flag)` with the hook name `key.split('.')[-1]` -/
def hookChange (key : String) (val : JVal) : Option OptChange :=
  match val with
  | .str v =>
    let parts := v.splitOn ","
    let flag : Option Bool := if parts.length = 2 then pyToBool (parts.getD 1 "") else some false
    match flag with
    | none => none                                   -- ValueError from to_bool
    | some ig =>
      match simHookOuts (parts.getD 0 "") with
      | none => none                                 -- ImportError from resolve_name
      | some outs => some (.hook ((key.splitOn ".").getLast?.getD key) outs ig)
  | _ => none                                        -- `val.split`: AttributeError

def setWOpt (uid : Nat) (c : OptChange) : M Unit := modW uid (applyOpt c)

/-- what `set_opt(key, val)` changes; `none` = it raises (ValueError/TypeError → generic errno 5) -/
def optChange (key : String) (val : JVal) : Option OptChange :=
  if key.startsWith "hooks" then hookChange key val else
  match key, val with
  | "warmup_delay", v => (secondsToMs v).map .warmup
  | "graceful_timeout", v => (secondsToMs v).map .graceful
  | "stop_signal", .int i => if validSignum i then some (.stopSignal i.toNat) else none
  | "stop_signal", .bool _ => none
  | "stop_children", .bool b => some (.stopChildren b)
  | "send_hup", .bool b => some (.sendHup b)
  | "max_age", .int i => some (.maxAge i.toNat)
  | "max_age", .bool b => some (.maxAge (if b then 1 else 0))     -- `int(True)`: a bool passes validate_option as an int
  | "uid", .int 0 => some .nothing
  | "uid", .str "root" => some .nothing
  | "uid", _ => none
  | _, _ => some .nothing

/-- `Watcher.set_opt`; `true` when applied, `false` when it raised -/
def setOpt (wuid : Nat) (key : String) (val : JVal) : M Bool := do
  if key = "numprocesses" then
    let n : Int := match val with | .int i => i | .bool b => if b then 1 else 0 | _ => 0
    let ok ← trySetNp wuid n
    if !ok then pure false else
    notify wuid "updated" none
    pure true
  else
    match optChange key val with
    | none => pure false
    | some c =>
      setWOpt wuid c
      notify wuid "updated" none
      pure true

def setOptAction (key : String) : Int :=
  if ["working_dir", "uid", "gid", "shell", "env", "cmd", "args", "max_age", "max_age_variance"].contains key then 1
  else if key = "graceful_timeout" then -1
  else 0

end Circus.Core
