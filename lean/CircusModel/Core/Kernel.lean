import CircusModel.Core.Types
/-
The simulated kernel (process table, virtual clock, armed faults) and the state monad.
Mirrors `harness/sim.py: Kernel` function by function: every system call is one `tick`
(armed faults fire, due deaths resolve) followed by its effect.
-/
namespace Circus.Core

/-- state monad over the whole model state -/
def M (α : Type) := State → α × State

instance : Monad M where
  pure a := fun s => (a, s)
  bind m f := fun s => let r := m s; f r.1 r.2

def getS : M State := fun s => (s, s)
def modS (f : State → State) : M Unit := fun s => ((), f s)
def Obs.isRep : Obs → Bool
  | .rep .. => true
  | _ => false

def Obs.isEv : Obs → Bool
  | .ev .. => true
  | _ => false

/-- append an observation to the ghost log (replies go through `emitRep`, published events through
    `emitEv`; nothing is observable once the daemon hangs) -/
def emit (o : Obs) : M Unit :=
  modS fun s => if s.blocked || o.isRep || o.isEv then s else { s with log := s.log ++ [o] }

/-- an event published on the PUB socket -/
def emitEv (wname topic : String) (pid : Option Nat) (extra : String) : M Unit :=
  modS fun s => if s.blocked then s else { s with log := s.log ++ [Obs.ev wname topic pid extra] }

/-- a reply written to the control stream -/
def emitRep (cid : String) (id : JVal) (status errno body : String) : M Unit :=
  modS fun s => if s.blocked then s else { s with log := s.log ++ [Obs.rep cid id status errno body] }
def getK : M Kernel := fun s => (s.k, s)
/-- the only way the kernel component is written (besides `spawnAdopt` and `fireSleeper`): a
    kernel function runs on it -/
def runK {α : Type} (f : Kernel → Kernel × α) : M α := fun s => ((f s.k).2, { s with k := (f s.k).1 })
def updK (f : Kernel → Kernel) : M Unit := runK fun k => (f k, ())

def wstatSig (sig : Nat) : Nat := sig % 128
def wstatExit (code : Nat) : Nat := (code % 256) * 256

namespace Kernel

def find (k : Kernel) (pid : Nat) : Option KProc := k.procs.find? (·.pid = pid)

def upd (k : Kernel) (pid : Nat) (f : KProc → KProc) : Kernel :=
  { k with procs := k.procs.map fun p => if p.pid = pid then f p else p }

/-- a process dies: daemon children become zombies, others vanish; its children are re-parented -/
def dead (k : Kernel) (pid status : Nat) : Kernel :=
  { k with procs := k.procs.map fun p =>
      if p.pid = pid then
        { p with doom := none, status := status, st := if p.ppid = some 0 then .zombie else .gone }
      else if p.ppid = some pid then { p with ppid := none } else p }

def die (k : Kernel) (pid status : Nat) : Kernel :=
  match k.find pid with
  | some p => if p.st = .run then k.dead pid status else k
  | none => k

/-- deaths whose deadline has passed (in table order) -/
def resolve (k : Kernel) : Kernel :=
  k.procs.foldl (fun k p0 =>
    match k.find p0.pid with
    | some p => match p.doom with
      | some (dl, st) => if p.st = .run && dl ≤ k.now then k.dead p.pid st else k
      | none => k
    | none => k) k

/-- one kernel-call boundary -/
def tick (k : Kernel) : Kernel :=
  let k := { k with calls := k.calls + 1 }
  let fire := k.armed.filter (fun f => f.1 ≤ k.calls)
  let k := { k with armed := k.armed.filter (fun f => ¬ (f.1 ≤ k.calls)) }
  let k := fire.foldl (fun k f => k.die f.2.1 f.2.2) k
  k.resolve

def beginStep (k : Kernel) : Kernel :=
  { k with calls := 0, spins := 0, slept := 0, armed := k.faults, faults := [] }

def doomAt (k : Kernel) (pid deadline status : Nat) : Kernel :=
  k.upd pid fun p => match p.doom with
    | some (d, _) => if deadline < d then { p with doom := some (deadline, status) } else p
    | none => { p with doom := some (deadline, status) }

/-- HUP USR1 USR2 WINCH CHLD CONT: handled/ignored by workers; STOP TSTP TTIN TTOU stop a process without ending
    it — the daemon only ever waits with WNOHANG (never WUNTRACED), so a stopped worker looks like a running one -/
def ignoredSignals : List Nat := [1, 10, 12, 28, 17, 18, 19, 20, 21, 22]

/-- os.kill: returns the target state at delivery (`gone` = ESRCH) -/
def kill (k : Kernel) (pid sig : Nat) : Kernel × PState :=
  let k := k.tick
  match k.find pid with
  | none => (k, .gone)
  | some p =>
    if p.st = .gone then (k, .gone)
    else if p.st = .run && sig ≠ 0 then
      let k :=
        if sig = 9 then k.doomAt pid (k.now + p.behav.killLat) (wstatSig sig)
        else if ignoredSignals.contains sig then k
        else match p.behav.term with
          | some d => k.doomAt pid (k.now + d) (wstatSig sig)
          | none => k
      (k.resolve, .run)
    else (k, p.st)

/-- the daemon is not permitted to signal `pid`: the process exists (also as a zombie: the permission check
    comes first) and runs under another uid -/
def denies (k : Kernel) (pid : Nat) : Bool :=
  match k.find pid with
  | some p => p.st ≠ .gone && p.behav.eperm
  | none => false

def stAt (k : Kernel) (pid : Nat) : PState :=
  match k.find pid with | some p => p.st | none => .gone

/-- os.kill issued by the daemon itself (`kill` is the outside world's, which is always permitted): the state of
    the target at delivery, and whether the call was refused with EPERM — then nothing is delivered -/
def killD (k : Kernel) (pid sig : Nat) : Kernel × PState × Bool :=
  if k.tick.denies pid then (k.tick, k.tick.stAt pid, true)
  else ((k.kill pid sig).1, (k.kill pid sig).2, false)

inductive WaitRes where
  | echild
  | none                       -- (0, 0)
  | got (pid status : Nat)
  deriving Repr, Inhabited

def insertSorted (x : Nat) : List Nat → List Nat
  | [] => [x]
  | y :: ys => if x ≤ y then x :: y :: ys else y :: insertSorted x ys

def sortNat (l : List Nat) : List Nat := l.foldr insertSorted []

/-- waitpid(pid, WNOHANG); `pid = none` is waitpid(-1) -/
def waitpid (k : Kernel) (pid : Option Nat) : Kernel × WaitRes :=
  let k := k.tick
  let target : Option (Option Nat) :=     -- none = ECHILD, some none = nothing yet, some (some p)
    match pid with
    | some p => some (some p)
    | none =>
      let kids := k.procs.filter fun p => p.ppid = some 0 && p.st ≠ .gone
      if kids.isEmpty then none
      else match sortNat ((kids.filter (·.st = .zombie)).map (·.pid)) with
        | [] => some none
        | z :: _ => some (some z)
  match target with
  | none => (k, .echild)
  | some none => (k, .none)
  | some (some p) =>
    match k.find p with
    | none => (k, .echild)
    | some kp =>
      if kp.ppid ≠ some 0 || kp.st = .gone then (k, .echild)
      else if kp.st = .run then (k, .none)
      else (k.upd p fun q => { q with st := .gone }, .got p kp.status)

def stateOf (k : Kernel) (pid : Nat) : Kernel × PState :=
  let k := k.tick
  (k, match k.find pid with | some p => p.st | none => .gone)

/-- running descendants (depth-first like the harness, children in pid order) -/
def childrenOf (k : Kernel) (fuel : Nat) (pid : Nat) (recursive : Bool) : List Nat :=
  match fuel with
  | 0 => []
  | fuel + 1 =>
    let cs := sortNat ((k.procs.filter fun c => c.ppid = some pid && c.st = .run).map (·.pid))
    if recursive then cs ++ (cs.reverse.map fun c => childrenOf k fuel c true).flatten else cs

/-- psutil children(): `none` = NoSuchProcess -/
def children (k : Kernel) (pid : Nat) (recursive : Bool) : Kernel × Option (List Nat) :=
  let k := k.tick
  match k.find pid with
  | none => (k, none)
  | some p =>
    if p.st = .gone then (k, none)
    else if p.st = .zombie then (k, some [])
    else (k, some (childrenOf k (k.procs.length + 1) pid recursive))

def behavAt (k : Kernel) : Behav :=
  (k.behavs.getD (k.attempt % (if k.behavs.length = 0 then 1 else k.behavs.length)) {})

def mkKids (parent : Nat) (b : Behav) : Nat → Nat → List KProc
  | 0, _ => []
  | n + 1, pid => { pid := pid, ppid := some parent, st := .run, status := 0, doom := none,
                    behav := { term := b.kidTerm, killLat := 0, eperm := b.kidEperm } } :: mkKids parent b n (pid + 1)

/-- Popen(): `none` = OSError -/
def spawn (k : Kernel) : Kernel × Option Nat :=
  let k := k.tick
  let b := k.behavAt
  let k := { k with attempt := k.attempt + 1 }
  if b.execFail then (k, none)
  else
    let pid := k.nextPid
    let me : KProc := { pid := pid, ppid := some 0, st := .run, status := 0, doom := none, behav := b }
    ({ k with procs := k.procs ++ [me] ++ mkKids pid b b.kids (pid + 1), nextPid := pid + 1 + b.kids,
              now := k.now + b.spawnMs }, some pid)

/-- time.sleep(ms) inside the daemon (blocking) -/
def sleep (k : Kernel) (ms : Nat) : Kernel :=
  let ms := if ms = 0 then 1 else ms
  ({ k with now := k.now + ms, slept := k.slept + ms, spins := k.spins + 1 }).tick

def snapshot (k : Kernel) : List (Nat × PState × Option Nat) :=
  ((sortNat (k.procs.map (·.pid))).filterMap fun pid =>
    match k.find pid with
    | some p => if p.st = .gone then none else some (pid, p.st, p.ppid)
    | none => none)

end Kernel

/-! monadic wrappers that also write the ghost log, like the harness' `Kernel.out` -/

/-- outcome of a signal the daemon sends: delivered (also to a zombie), `NoSuchProcess` (ESRCH), `AccessDenied` (EPERM) -/
inductive SigRes where
  | ok | noSuch | denied
  deriving Repr, DecidableEq, Inhabited

def SigRes.of (r : PState × Bool) : SigRes := if r.2 then .denied else if r.1 = .gone then .noSuch else .ok

/-- `psutil.Process.send_signal` / `terminate`; a refused call is logged with a `!` after its `via` tag -/
def kKill (pid sig : Nat) (via : String := "") : M SigRes := do
  let r ← runK fun k => k.killD pid sig
  emit (.sig pid sig r.1 (if r.2 then via ++ "!" else via))
  pure (SigRes.of r)

/-- a signal from the outside world (always permitted) -/
def xKill (pid sig : Nat) : M Unit := do
  let st ← runK fun k => k.kill pid sig
  emit (.sig pid sig st "x")

def kWaitpid (pid : Option Nat) : M Kernel.WaitRes := do
  let r ← runK fun k => k.waitpid pid
  match r with
  | .got p st => emit (.reap p st)
  | _ => pure ()
  pure r

def kStateOf (pid : Nat) : M PState := runK fun k => k.stateOf pid

def kChildren (pid : Nat) (recursive : Bool) : M (Option (List Nat)) := runK fun k => k.children pid recursive

def kSleep (ms : Nat) : M Unit := updK fun k => k.sleep ms

def nowMs : M Nat := do
  let k ← getK
  pure k.now

end Circus.Core
