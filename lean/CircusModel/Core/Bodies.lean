import CircusModel.Core.Interp
/-
Coroutine bodies (watcher.py / arbiter.py), one definition per entry point and per
continuation point.  `rec` is the interpreter (open recursion).
-/
namespace Circus.Core

def excVal (name : String) : Val := .exc (.other name)

/-- `Popen()` succeeded: the new `Process` object exists and is entered into `processes`
    (`none` = the exec failed, nothing changed but the kernel's attempt counter) -/
def spawnAdopt (wuid wid : Nat) : M (Option Nat) := fun s =>
  let (k', r) := s.k.spawn
  match r with
  | none => (none, { s with k := k', log := if s.blocked then s.log else s.log ++ [Obs.execfail] })
  | some pid =>
    let w := (s.ws.find? (·.uid = wuid)).getD defaultWatcher
    (some pid, { s with k := k',
                        -- `Process.started = time.time()` is taken before the fork
                        objs := s.objs ++ [{ pid := pid, wid := wid, started := s.k.now }],
                        log := if s.blocked then s.log else s.log ++ [Obs.spawn pid w.name wid],
                        ws := s.ws.map fun w => if w.uid = wuid then { w with pids := w.pids ++ [pid] } else w })

/-- `rm_watcher`: out of the dict (`_watchers_names.pop(name.lower())`, the entry of this watcher)
    and out of the list -/
def unregisterWatcher (uid : Nat) : M Unit :=
  modA fun a => { a with names := a.names.filter (·.2 ≠ uid), watchers := a.watchers.filter (· ≠ uid) }

def setStopping : M Unit := modA fun a => { a with stopping := true }
def setRestarting : M Unit := modA fun a => { a with restarting := true, stopping := true }
/-- the `except Exception:` of `Arbiter.restart(inside_circusd=True)` (fix 273f512): `_restarting = False; _stopping = was_stopping` (candidate refinement: the flag found on entry is restored) -/
def clearRestarting (was : Bool) : M Unit := modA fun a => { a with restarting := false, stopping := was }
def setLoopStop (b : Bool) : M Unit := modA fun a => { a with loopStop := b }
def setSocketEvent (b : Bool) : M Unit := modA fun a => { a with socketEvent := b }
def setSockReady (b : Bool) : M Unit := modA fun a => { a with sockReady := b }

/-- `Watcher.pending_socket_event` -/
def pendingSocketEvent (wuid : Nat) : M Bool := do
  let w ← getW wuid
  let a ← getA
  pure (w.onDemand && !a.socketEvent)

def pollsOf (gtMs : Nat) : Nat := (gtMs + 99) / 100

/-! ### Watcher.kill_process -/

/-- psutil.AccessDenied (the daemon is not permitted to signal the process): not an OSError, not a NoSuchProcess —
    no `except` clause of watcher.py / process.py catches it on the signalling paths -/
def accessDenied : Val := excVal "AccessDenied"

def killFinish (rec : Rec) (wuid pid : Nat) (escalate : Bool) (wt : Waiter) : M Unit := do
  -- an AccessDenied of the SIGKILL escapes from kill_process: `except Exception: process.stopping = False; raise`
  -- (fix 60e14d0) — the flag is cleared, `remove_redirections` and `process.stop()` are skipped
  let ok ← if escalate then sendSignalProcess wuid pid 9 true else pure true
  if !ok then do setObjStopping pid false; deliver rec wt accessDenied else
  setObjStopping pid false
  objStop pid
  deliver rec wt (.bool true)

/-- loop head of `while waited < graceful_timeout` with `waited = i·0.1` -/
def killLoop (rec : Rec) (wuid pid sig i polls : Nat) (wt : Waiter) : M Unit := do
  if i < polls then
    let alive ← isAlive pid
    if alive then awaitSleep 100 (.killWait wuid pid sig (i + 1) polls) wt
    else killFinish rec wuid pid false wt
  else killFinish rec wuid pid true wt

def killProcess (rec : Rec) (wuid pid : Nat) (sig : Option Nat) (gt : Option Nat) (wt : Waiter) : M Unit := do
  let w ← getW wuid
  let o ← getO pid
  let sig := sig.getD w.stopSignal
  let gt := gt.getD w.graceful
  if o.stopping then awaitSleep 100 (.killWaitOther pid) wt else      -- wait for the kill that is in flight
  -- `except NoSuchProcess: return False`; an AccessDenied escapes (before `process.stopping = True`)
  let r ← if w.stopChildren then do
             let ok ← sendSignalProcess wuid pid sig false
             pure (if ok then SigRes.ok else .denied)
           else do
             let r ← sendSignal wuid pid sig
             if r = .ok then notify wuid "kill" (some pid)
             pure r
  if r = .denied then deliver rec wt accessDenied else
  if r = .noSuch then deliver rec wt (.bool false) else
  setObjStopping pid true
  killLoop rec wuid pid sig 0 (pollsOf gt) wt

def killProcesses (rec : Rec) (wuid : Nat) (sig gt : Option Nat) (wt : Waiter) : M Unit := do
  let act ← activeProcs wuid
  awaitMulti rec (act.map fun p => .killProcess wuid p sig gt) .ignore wt

/-! ### Watcher._stop -/

def stopW (rec : Rec) (wuid : Nat) (close : Bool) (wt : Waiter) : M Unit := do
  let w ← getW wuid
  if w.status = .stopped then deliver rec wt .unit else
  setStatus wuid .stopping
  let _ ← callHook wuid "before_stop"
  await rec (.killProcesses wuid none none) (.stopAfterKill wuid close) wt

def stopAfterKill (rec : Rec) (wuid : Nat) (_close : Bool) (wt : Waiter) : M Unit := do
  reapProcesses wuid
  notify wuid "stop" none
  setStatus wuid .stopped
  let _ ← callHook wuid "after_stop"
  deliver rec wt .unit

/-! ### Watcher.spawn_process / spawn_processes -/

inductive SpawnRes where
  | rTrue | rFalse | started (t : Nat) | raised (e : String)
  deriving Repr, Inhabited

def spawnTry (rec : Rec) (wuid : Nat) : Nat → M SpawnRes
  | 0 => pure .rFalse
  | tries + 1 => do
    let w ← getW wuid
    let used ← usedWids wuid
    match nextWid w.np used with
    | none => pure (.raised "RuntimeError")
    | some wid =>
      let now ← nowMs                      -- `process.started`, what spawn_process returns
      let p ← spawnAdopt wuid wid
      match p with
      | none => spawnTry rec wuid tries
      | some pid =>
        let r ← callHook wuid "after_spawn"
        if !r then
          -- called without yield: detached; the worker stays registered until the kill is done
          let tid ← newTop [.popProc wuid pid]
          rec (.call (.killProcess wuid pid none none) (.top tid))
          armTop tid
          pure .rFalse
        else
          notify wuid "spawn" (some pid)
          pure (.started now)

def spawnProcess (rec : Rec) (wuid : Nat) : M SpawnRes := do
  let w ← getW wuid
  if w.status = .stopped then pure .rTrue else
  let r ← callHook wuid "before_spawn"
  if !r then pure .rFalse else
  spawnTry rec wuid (if w.maxRetry < 0 then 100000 else w.maxRetry.toNat)

def spawnLoop (rec : Rec) (wuid remaining : Nat) (wt : Waiter) : M Unit := do
  match remaining with
  | 0 => deliver rec wt .unit
  | rem + 1 =>
    let res ← spawnProcess rec wuid
    let w ← getW wuid
    match res with
    | .raised e => deliver rec wt (excVal e)
    | .rFalse => await rec (.stop_ wuid false) .spawnAfterStop wt
    | .rTrue => awaitSleep w.warmup (.spawnLoop wuid rem) wt
    | .started t =>
      let now ← nowMs
      awaitSleep (w.warmup - (now - t)) (.spawnLoop wuid rem) wt

def spawnProcesses (rec : Rec) (wuid : Nat) (wt : Waiter) : M Unit := do
  -- "when an on_demand process dies, do not restart it until the next event"
  let pend ← pendingSocketEvent wuid
  if pend then do
    -- stopped only once no worker is left (as repaired)
    let w0 ← getW wuid
    if w0.pids.isEmpty then setStatus wuid .stopped
    deliver rec wt .unit
  else
  let w ← getW wuid
  let n := w.np - w.pids.length
  if n ≤ 0 then deliver rec wt .unit else spawnLoop rec wuid n.toNat wt

/-! ### Watcher.manage_processes -/

def insertObj (x : PObj) : List PObj → List PObj
  | [] => [x]
  | y :: ys => if x.started ≥ y.started then x :: y :: ys else y :: insertObj x ys

/-- `sorted(processes, key=started, reverse=True)` (stable) -/
def sortByStartedDesc (l : List PObj) : List PObj := l.foldr insertObj []

/-- pops with `dict.pop(pid)`: `false` = KeyError -/
def popStrict (wuid pid : Nat) : M Bool := do
  let w ← getW wuid
  if w.pids.contains pid then do popPid wuid pid; pure true else pure false

def popKilled (rec : Rec) (wuid : Nat) (toKill : List Nat) (v : Val) (wt : Waiter) : M Unit := do
  let rs := match v with | .list vs => vs | _ => []
  let mut ok := true
  for (p, r) in toKill.zip rs do
    if ok then
      match r with
      | .bool true =>
        let b ← popStrict wuid p
        if !b then ok := false
      | _ => pure ()
  if ok then deliver rec wt .unit else deliver rec wt (excVal "KeyError")

def manageTail (rec : Rec) (wuid : Nat) (wt : Waiter) : M Unit := do
  let w ← getW wuid
  if (w.pids.length : Int) > w.np then
    let s ← getS
    let objs := w.pids.filterMap fun pid => s.objs.find? (·.pid = pid)
    let extra := (sortByStartedDesc objs).drop w.np.toNat
    let mut toKill := []
    for o in extra do
      let st ← procStatus o.pid
      if isDead st then reapProcess wuid o.pid none else toKill := toKill ++ [o.pid]
    awaitMulti rec (toKill.map fun p => .killProcess wuid p none none) (.manageAfterKill wuid toKill) wt
  else deliver rec wt .unit

def manageAfterExpire (rec : Rec) (wuid : Nat) (wt : Waiter) : M Unit := do
  let w ← getW wuid
  if (w.pids.length : Int) < w.np && w.status ≠ .stopping then
    if w.respawn then await rec (.spawnProcesses wuid) (.manageTail wuid) wt
    else if w.pids.isEmpty && !w.onDemand then await rec (.stop_ wuid false) (.manageTail wuid) wt
    else manageTail rec wuid wt
  else manageTail rec wuid wt

def removeExpired (rec : Rec) (wuid : Nat) (wt : Waiter) : M Unit := do
  let w ← getW wuid
  let s ← getS
  let now := s.k.now
  let expired := w.pids.filter fun pid =>
    match s.objs.find? (·.pid = pid) with
    | some o => now - o.started > w.maxAge * 1000
    | none => false
  awaitMulti rec (expired.map fun p => .killProcess wuid p none none) (.manageAfterKill wuid expired) wt

def manageProcesses (rec : Rec) (wuid : Nat) (wt : Waiter) : M Unit := do
  let w ← getW wuid
  if w.status = .stopped then deliver rec wt .unit else
  for pid in w.pids do
    let st ← procStatus pid
    if isDead st then reapProcess wuid pid none
  if w.maxAge > 0 then await rec (.removeExpired wuid) (.manageAfterExpire wuid []) wt
  else manageAfterExpire rec wuid wt

/-! ### Watcher._start / _restart / _reload / set_numprocesses / do_action -/

def startW (rec : Rec) (wuid : Nat) (wt : Waiter) : M Unit := do
  let pend ← pendingSocketEvent wuid
  if pend then deliver rec wt .unit else
  let w ← getW wuid
  if w.status ≠ .stopped then
    if (w.pids.length : Int) < w.np then
      for pid in w.pids do
        let st ← procStatus pid
        if isDead st then reapProcess wuid pid none
      await rec (.spawnProcesses wuid) .startTail wt
    else deliver rec wt .unit
  else
    let r ← callHook wuid "before_start"
    if !r then deliver rec wt .unit else
    setStatus wuid .starting
    reapProcesses wuid
    await rec (.spawnProcesses wuid) (.startAfterSpawn wuid) wt

def startAfterSpawn (rec : Rec) (wuid : Nat) (wt : Waiter) : M Unit := do
  let w ← getW wuid
  let ok ← if w.pids.isEmpty then pure false else callHook wuid "after_start"
  if !ok then await rec (.stop_ wuid true) .startTail wt else
  setStatus wuid .active
  notify wuid "start" none
  deliver rec wt .unit

def reloadW (rec : Rec) (wuid : Nat) (graceful sequential : Bool) (wt : Waiter) : M Unit := do
  let w ← getW wuid
  if !graceful then await rec (.restart_ wuid) .startTail wt
  else if w.status = .stopped then await rec (.start_ wuid) (.reloadTail wuid) wt
  else if w.sendHup then
    -- `process.send_signal(SIGHUP)`: the first NoSuchProcess / AccessDenied escapes
    let mut err : Option Exc := none
    for pid in w.pids do
      if err.isNone then
        let r ← kKill pid 1
        err := r.exc
    match err with
    | none => rec (.resume (.reloadTail wuid) .unit wt)
    | some e => deliver rec wt (.exc e)
  else if sequential then
    let act ← activeProcs wuid
    rec (.resume (.reloadSeqAfterSleep wuid act) .unit wt)
  else
    let mut err : Option String := none
    for _ in List.range w.np.toNat do
      if err.isNone then
        let r ← spawnProcess rec wuid
        match r with
        | .raised e => err := some e
        | _ => pure ()
    match err with
    | some e => deliver rec wt (excVal e)
    | none => await rec (.manageProcesses wuid) (.reloadTail wuid) wt

def reloadSeqNext (rec : Rec) (wuid : Nat) (rest : List Nat) (wt : Waiter) : M Unit :=
  match rest with
  | [] => rec (.resume (.reloadTail wuid) .unit wt)
  | p :: rest' => await rec (.killProcess wuid p none none) (.reloadSeqAfterKill wuid p rest') wt

def reloadSeqAfterKill (rec : Rec) (wuid pid : Nat) (rest : List Nat) (wt : Waiter) : M Unit := do
  reapProcess wuid pid none
  let r ← spawnProcess rec wuid
  match r with
  | .raised e => deliver rec wt (excVal e)
  | _ =>
    let w ← getW wuid
    awaitSleep w.warmup (.reloadSeqAfterSleep wuid rest) wt

def setNumprocesses (rec : Rec) (wuid : Nat) (n : Int) (wt : Waiter) : M Unit := do
  let ok ← trySetNp wuid n
  if !ok then deliver rec wt (excVal "ValueError") else
  await rec (.manageProcesses wuid) (.setNpTail wuid) wt

def doAction (rec : Rec) (wuid : Nat) (num : Int) (wt : Waiter) : M Unit := do
  let w ← getW wuid
  if num = 0 then await rec (.manageProcesses wuid) .ignore wt
  else if w.status ≠ .stopped then await rec (.reload_ wuid true false) .ignore wt
  else deliver rec wt .unit

/-- `Watcher.start/restart/reload` wrappers: before/after pid sets -/
def pubBefore (wuid : Nat) : M (List Nat) := do
  let w ← getW wuid
  pure (if w.status = .stopped then [] else w.pids)

def pubInfo (rec : Rec) (wuid : Nat) (before : List Nat) (wt : Waiter) : M Unit := do
  let w ← getW wuid
  let after := w.pids
  deliver rec wt (.info (sortedNat (after.filter fun p => !before.contains p))
                        (sortedNat (before.filter fun p => !after.contains p))
                        (sortedNat (after.filter fun p => before.contains p)))

/-! ### Arbiter -/

def arbStartNext (rec : Rec) (ws : List Nat) (wt : Waiter) : M Unit :=
  match ws with
  | [] => deliver rec wt .unit
  | w :: rest => do
    let wa ← getW w
    if wa.autostart then await rec (.start_ w) (.arbStartAfterStart rest) wt
    else rec (.resume (.arbStartAfterSleep rest) .unit wt)

def arbStartAfterStart (_rec : Rec) (rest : List Nat) (wt : Waiter) : M Unit := do
  let a ← getA
  awaitSleep a.warmup (.arbStartAfterSleep rest) wt

def arbStopTail (rec : Rec) (wt : Waiter) : M Unit := do
  -- loop.add_callback(self.loop.stop): the loop finishes the callbacks already queued (the
  -- future's own ones: release, reply), returns, and Arbiter.start() then closes the sockets
  setLoopStop true
  deliver rec wt .unit

def arbStop (rec : Rec) (wt : Waiter) : M Unit := do
  setStopping
  let ws ← iterWatchers false
  await rec (.arbStopWatchers ws true) .quitAfterStop wt

def arbRestartInside (rec : Rec) (wt : Waiter) : M Unit := do
  let a ← getA                               -- `was_stopping = self._stopping`, read before `_stopping = True`
  setRestarting
  let ws ← iterWatchers false
  -- `try: yield self._stop_watchers(close_output_streams=True)` (fix 273f512), see `runResume`
  await rec (.arbStopWatchers ws true) (.restartInsideAfterStop a.stopping) wt

def arbReloadNext (rec : Rec) (ws : List Nat) (g s : Bool) (wt : Waiter) : M Unit :=
  match ws with
  | [] => deliver rec wt .unit
  | w :: rest => await rec (.reload_ w g s) (.arbReloadNext rest g s) wt

def arbReloadAfter (rec : Rec) (rest : List Nat) (g s : Bool) (wt : Waiter) : M Unit := do
  let a ← getA
  addSleeper a.warmup .none                -- `tornado_sleep(self.warmup_delay)` without yield
  arbReloadNext rec rest g s wt

def manageWatchers (rec : Rec) (wt : Waiter) : M Unit := do
  let a ← getA
  if a.stopping then deliver rec wt .unit else
  arbReapProcesses
  let ws ← iterWatchers true
  -- `need_on_demand`: some on-demand watcher is stopped (looked at just before its own manage_processes;
  -- no watcher's check changes another watcher's status)
  let s ← getS
  let need := ws.any fun u => match s.ws.find? (·.uid = u) with
    | some w => w.onDemand && w.status = .stopped
    | none => false
  awaitMulti rec (ws.map fun w => .manageProcesses w) (.manageWatchersTail need) wt

/-- the end of `manage_watchers`: a connection waiting on a managed socket starts the on-demand
    watchers — `_start_watchers()` is called without `yield`, `socket_event` is true only during its
    first (eager) run -/
def manageWatchersTail (rec : Rec) (need : Bool) (wt : Waiter) : M Unit := do
  let a ← getA
  if need && a.sockReady then
    setSocketEvent true
    let ws ← iterWatchers true
    let s ← getS
    -- only the on-demand watchers (as repaired: a socket event does not bring back watchers stopped on purpose)
    let od := ws.filter fun u => match s.ws.find? (·.uid = u) with | some w => w.onDemand | none => false
    -- nobody holds the returned future: an exception that escapes it is only logged by asyncio ("Future exception
    -- was never retrieved") when the future is freed — not an observable
    let tid ← newTop []
    rec (.call (.arbStartWatchers od) (.top tid))
    armTop tid
    setSocketEvent false
  deliver rec wt .unit

def rmWatcher (rec : Rec) (uid : Nat) (nostop : Bool) (wt : Waiter) : M Unit := do
  notify uid "remove" none
  unregisterWatcher uid
  if !nostop then await rec (.stop_ uid false) .ignore wt else deliver rec wt .unit

/-! ### the interpreter -/

def runCall (rec : Rec) (c : Call) (wt : Waiter) : M Unit :=
  match c with
  | .killProcess w p sig gt => killProcess rec w p sig gt wt
  | .killProcesses w sig gt => killProcesses rec w sig gt wt
  | .stop_ w close => stopW rec w close wt
  | .spawnProcesses w => spawnProcesses rec w wt
  | .manageProcesses w => manageProcesses rec w wt
  | .removeExpired w => removeExpired rec w wt
  | .start_ w => startW rec w wt
  | .restart_ w => await rec (.stop_ w false) (.restartAfterStop w) wt
  | .reload_ w g s => reloadW rec w g s wt
  | .setNumprocesses w n => setNumprocesses rec w n wt
  | .doAction w n => doAction rec w n wt
  | .pubStart w => do
      let b ← pubBefore w
      await rec (.start_ w) (.pubInfo w b false "start") wt
  | .pubStop w => await rec (.stop_ w true) .ignore wt
  | .pubRestart w => do
      let b ← pubBefore w
      await rec (.restart_ w) (.pubInfo w b false "restart") wt
  | .pubReload w g s => do
      let b ← pubBefore w
      await rec (.reload_ w g s) (.pubInfo w b false "reload") wt
  | .arbStartWatchers ws => arbStartNext rec ws wt
  | .arbStopWatchers ws close => awaitMulti rec (ws.map fun w => .stop_ w close) .ignore wt
  | .arbRestart asc desc => await rec (.arbStopWatchers asc false) (.arbRestartAfterStop desc) wt
  | .arbRestartInside => arbRestartInside rec wt
  | .arbReload g s => do
      let a ← getA
      if a.stopping then deliver rec wt .unit else
      let ws ← iterWatchers true
      arbReloadNext rec ws g s wt
  | .arbStop => arbStop rec wt
  | .manageWatchers => manageWatchers rec wt
  | .rmWatcher u n => rmWatcher rec u n wt
  | .killCmd w pids sig gt =>
      awaitMulti rec (pids.map fun p => .killProcess w p sig gt) .ignore wt

def runResume (rec : Rec) (k : Kont) (v : Val) (wt : Waiter) : M Unit :=
  match k, v with
  | .pass, v => deliver rec wt v
  | .multi _ _, v => deliver rec wt v          -- not reached: multi frames are handled by `deliver`
  | .multiSlot fid slot, v => multiCollect rec fid slot v
  -- `except Exception: self._restarting = False; self._stopping = False; raise` (fix 273f512)
  | .restartInsideAfterStop was, .exc e => do clearRestarting was; deliver rec wt (.exc e)
  | _, .exc e => deliver rec wt (.exc e)       -- an exception propagates through every other frame
  | .killWait w p sig i polls, _ => killLoop rec w p sig i polls wt
  | .manageWatchersTail need, _ => manageWatchersTail rec need wt
  | .killWaitOther p, _ => do
      let o ← getO p
      if o.stopping then awaitSleep 100 (.killWaitOther p) wt else deliver rec wt (.bool false)
  | .stopAfterKill w close, _ => stopAfterKill rec w close wt
  | .spawnLoop w rem, _ => spawnLoop rec w rem wt
  | .spawnAfterStop, _ => deliver rec wt .unit
  | .manageAfterExpire w _, _ => manageAfterExpire rec w wt
  | .manageAfterSpawn w, _ => manageTail rec w wt
  | .manageAfterStopOrSpawn w, _ => manageTail rec w wt
  | .manageTail w, _ => manageTail rec w wt
  | .manageAfterKill w toKill, v => popKilled rec w toKill v wt
  | .startAfterSpawn w, _ => startAfterSpawn rec w wt
  | .startTail, _ => deliver rec wt .unit
  | .restartAfterStop w, _ => await rec (.start_ w) .startTail wt
  | .reloadTail w, _ => do notify w "reload" none; deliver rec wt .unit
  | .reloadSeqAfterKill w p rest, _ => reloadSeqAfterKill rec w p rest wt
  | .reloadSeqAfterSleep w rest, _ => reloadSeqNext rec w rest wt
  | .setNpTail w, _ => do let wa ← getW w; deliver rec wt (.int wa.np)
  | .pubInfo w before _ _, _ => pubInfo rec w before wt
  | .arbStartAfterStart rest, _ => arbStartAfterStart rec rest wt
  | .arbStartAfterSleep rest, _ => arbStartNext rec rest wt
  | .arbRestartAfterStop ws, _ => await rec (.arbStartWatchers ws) .ignore wt
  | .arbReloadNext rest g s, _ => arbReloadAfter rec rest g s wt
  | .quitAfterStop, _ => arbStopTail rec wt
  | .restartInsideAfterStop _, _ => arbStopTail rec wt
  | .ignore, _ => deliver rec wt .unit

/-- the interpreter: `fuel` bounds the number of nested task activations -/
def exec : Nat → Task → M Unit
  | 0, _ => emit .outOfFuel
  | fuel + 1, t => do
    let s ← getS
    if s.blocked then pure () else
    match t with
    | .call c w => runCall (exec fuel) c w
    | .resume k v w => runResume (exec fuel) k v w

end Circus.Core

