import CircusModel.Proto
import CircusModel.Model.StreamWiring
/-
Driver for the stream wiring layer.
  wiring <confOut> <confErr> <op>*
conf:  `~` None | `-` {} | k.v.k.v…  (dict literal: a later duplicate key overwrites, keeps the first position)
ops:   set <o|e> <k> <v> | nodot <o|e> | create | spawn | start | stop <0|1> | restart
answer: `init-raise` when the constructor raises, else one record per state (initial state first), `;`-separated:
  <res> <confOut> <confErr> <attrOut> <attrErr> <red> <deliverOut> <deliverErr> <stopped> <built> <closed>
  ref: `~` | b<id> | g<v>;  red: `~` | <ref>,<ref>,<0|1>;  built: `-` | entries `<o|e>,<cls>,<kwargs>` joined by `|`;
  closed: `-` | refs joined by `,` (as stored, duplicates possible)
-/
namespace Circus.Wiring.Drv
open Circus.Proto Circus.Wiring

def decChan (s : String) : Option Chan :=
  if s = "o" then some .out else if s = "e" then some .err else none

def encChan : Chan → String
  | .out => "o"
  | .err => "e"

def pairUp : List Nat → Option Conf
  | [] => some []
  | k :: v :: rest => (pairUp rest).map (fun c => (k, v) :: c)
  | [_] => none

/-- a dict literal: successive `d[k] = v` from `{}` -/
def mkDict (c : Conf) : Conf := c.foldl (fun d kv => cset d kv.1 kv.2) []

def decConf (s : String) : Option (Option Conf) :=
  if s = "~" then some none
  else match decCps s with
    | some l => (pairUp l).map (fun c => some (mkDict c))
    | none => none

def encConf (c : Conf) : String :=
  encCps (c.flatMap (fun kv => [kv.1, kv.2]))

def encOptConf : Option Conf → String
  | none => "~"
  | some c => encConf c

def encRef : Ref → String
  | .built i => s!"b{i}"
  | .given v => s!"g{v}"

def encOptRef : Option Ref → String
  | none => "~"
  | some r => encRef r

def encCls : Cls → String
  | .file => "File"
  | .full => "Rec"
  | .closeOnly => "RecC"
  | .bare => "RecBare"

def encRed : Option Redir → String
  | none => "~"
  | some r => s!"{encOptRef r.tOut},{encOptRef r.tErr},{encBool r.running}"

def encRes : Res → String
  | .none => "none"
  | .ret n => s!"ret{n}"
  | .typeError => "raise:TypeError"
  | .valueError => "raise:ValueError"
  | .indexError => "raise:IndexError"

def encList (sep : String) (l : List String) : String :=
  if l.isEmpty then "-" else sep.intercalate l

def showState (res : String) (s : State) : String :=
  " ".intercalate [res, encOptConf s.confOut, encOptConf s.confErr, encOptRef s.sOut, encOptRef s.sErr,
    encRed s.red, encOptRef (deliver s .out), encOptRef (deliver s .err), encBool s.stopped,
    encList "|" (s.heap.map (fun b => s!"{encChan b.chan},{encCls b.cls},{encConf b.kwargs}")),
    encList "," (s.closed.map encRef)]

def decOps : List String → Option (List Op)
  | [] => some []
  | "set" :: c :: k :: v :: rest => do
      let c ← decChan c
      let k ← k.toNat?
      let v ← v.toNat?
      let ops ← decOps rest
      pure (.set c k v :: ops)
  | "nodot" :: c :: rest => do
      let c ← decChan c
      let ops ← decOps rest
      pure (.setNoDot c :: ops)
  | "create" :: rest => (decOps rest).map (Op.create :: ·)
  | "spawn" :: rest => (decOps rest).map (Op.spawn :: ·)
  | "start" :: rest => (decOps rest).map (Op.start :: ·)
  | "restart" :: rest => (decOps rest).map (Op.restart :: ·)
  | "stop" :: b :: rest => do
      let b ← decBool b
      let ops ← decOps rest
      pure (.stop b :: ops)
  | _ => none

def runShow (s : State) : List Op → List String
  | [] => []
  | op :: ops =>
    let r := step s op
    showState (encRes r.2) r.1 :: runShow r.1 ops

def handle (toks : List String) : String :=
  match toks with
  | co :: ce :: rest =>
    match decConf co, decConf ce, decOps rest with
    | some co, some ce, some ops =>
      match init co ce with
      | none => "init-raise"
      | some s0 => ";".intercalate (showState "init" s0 :: runShow s0 ops)
    | _, _, _ => "bad-op"
  | _ => "bad-op"

end Circus.Wiring.Drv
