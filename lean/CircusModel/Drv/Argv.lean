import CircusModel.Proto
import CircusModel.Model.GnuArgs
import CircusModel.Model.Shlex
import CircusModel.Model.FormatArgs
/-
Driver for the argv layer (C13).  Sub-commands (first token after the tag `argv`):

  gnu   <data> <table>                          -> <result>
  split <s>                                     -> ok <n> <tok>*n | E:quote | E:escape
  quote <n> <x>*n                               -> <n> <quote x>*n <joined> then the `split` answer of <joined>
  fmt   <wid> <cmd> <args> <argsStr> <shell> <env> <cwd> <shellArgs> <table>
                                                -> the `split`-style answer for format_args
  env   <copyEnv> <copyPath> <environ> <sysPath> <optenv>
                                                -> ok ~ | ok <dict> | E:copy_path
  spawn <cmd> <args> <argsStr> <shell> <shellArgs> <cwd> <copyEnv> <copyPath> <environ> <sysPath>
        <optenv> <useSockets> <np> <pipeOut> <pipeErr> <optexecutable> <table> <nused> <wid>*
                                                -> E:copy_path | raised | failed <err> |
                                                   ok <wid> <argv> <cwd> <shell> <env> <closeFds> <executable> <pipeOut> <pipeErr>
  hist  <np> <nops> (s | d <i> | n <k>)*        -> <answers of the spawns: wid or R>* ; <live wids>*

Encodings: <s> string as code points (Proto); <args> = `~` | `s <s>` | `l <n> <s>*n`;
<dict> = `<n> (<k> <v>)*n`; <optenv> = `~` | `d <dict>`; <table> = `<n> (<key> (s <s> | d <dict>))*n`;
booleans `0`/`1`.  Anything malformed or left over answers `bad-op`.
-/
namespace Circus.Argv.Drv
open Circus.Proto Circus.GnuArgs Circus.Shlex Circus.FormatArgs

abbrev P := StateT (List String) Option

def tok : P String := fun s =>
  match s with
  | [] => none
  | t :: r => some (t, r)

def liftO {α} (o : Option α) : P α := fun s => o.map (fun a => (a, s))

def pStr : P (List Nat) := do liftO (decCps (← tok))
def pNat : P Nat := do liftO ((← tok).toNat?)
def pBool : P Bool := do liftO (decBool (← tok))

def pMany {α} (p : P α) : Nat → P (List α)
  | 0 => pure []
  | n + 1 => do
    let a ← p
    let r ← pMany p n
    pure (a :: r)

def pList {α} (p : P α) : P (List α) := do pMany p (← pNat)

def pDict : P (List (List Nat × List Nat)) :=
  pList (do let k ← pStr; let v ← pStr; pure (k, v))

def pArgs : P Args := do
  match (← tok) with
  | "~" => pure .none
  | "s" => do pure (.str (← pStr))
  | "l" => do pure (.list (← pList pStr))
  | _ => liftO none

def pOptEnv : P (Option Env) := do
  match (← tok) with
  | "~" => pure none
  | "d" => do pure (some (← pDict))
  | _ => liftO none

def pOptStr : P (Option (List Nat)) := do liftO (decOptCps (← tok))

def pVal : P Val := do
  match (← tok) with
  | "s" => do pure (.scalar (← pStr))
  | "d" => do pure (.dict (← pDict))
  | _ => liftO none

def pTable : P (List (List Nat × Val)) :=
  pList (do let k ← pStr; let v ← pVal; pure (k, v))

def showToks (xs : List (List Nat)) : String :=
  " ".intercalate (toString xs.length :: xs.map encCps)

def showErr : Err → String
  | .noClosingQuotation => "E:quote"
  | .noEscapedCharacter => "E:escape"

def showSplit : Except Err (List (List Nat)) → String
  | .ok xs => "ok " ++ showToks xs
  | .error e => showErr e

def showDict (d : Env) : String :=
  " ".intercalate (toString d.length :: d.map (fun kv => encCps kv.1 ++ " " ++ encCps kv.2))

def showObs (o : PopenObs) : String :=
  " ".intercalate [showToks o.argv, encCps o.cwd, encBool o.shell, showDict o.env, encBool o.closeFds,
    encOptCps o.executable, encBool o.pipeStdout, encBool o.pipeStderr]

def pOp : P Op := do
  match (← tok) with
  | "s" => pure .spawn
  | "d" => do pure (.die (← pNat))
  | "n" => do pure (.setNp (← pNat))
  | _ => liftO none

def showWids (xs : List Nat) : String := " ".intercalate (xs.map toString)

def cmdGnu : P String := do
  let data ← pStr
  let tbl ← pTable
  pure (encCps (replaceGnuArgs tbl data))

def cmdSplit : P String := do
  pure (showSplit (split (← pStr)))

def cmdQuote : P String := do
  let xs ← pList pStr
  let qs := xs.map quote
  let j := joinSp qs
  pure (showToks qs ++ " " ++ encCps j ++ " " ++ showSplit (split j))

def cmdFmt : P String := do
  let wid ← pNat
  let cmd ← pStr
  let args ← pArgs
  let argsStr ← pStr
  let shell ← pBool
  let env ← pDict
  let cwd ← pStr
  let shellArgs ← pArgs
  let extra ← pTable
  let p : Proc := { wid, cmd, args, argsStr, shell, env, cwd, extra, shellArgs, useFds := false,
                    executable := none, pipeStdout := false, pipeStderr := false }
  pure (showSplit (formatArgs p))

def showWEnv : Except WErr (Option Env) → String
  | .error _ => "E:copy_path"
  | .ok none => "ok ~"
  | .ok (some d) => "ok " ++ showDict d

def cmdEnv : P String := do
  let ce ← pBool
  let cp ← pBool
  let environ ← pDict
  let sp ← pStr
  let env ← pOptEnv
  pure (showWEnv (watcherEnv ce cp environ sp env))

def cmdSpawn : P String := do
  let cmd ← pStr
  let args ← pArgs
  let argsStr ← pStr
  let shell ← pBool
  let shellArgs ← pArgs
  let cwd ← pStr
  let ce ← pBool
  let cp ← pBool
  let environ ← pDict
  let sp ← pStr
  let env ← pOptEnv
  let useSockets ← pBool
  let np ← pNat
  let pipeStdout ← pBool
  let pipeStderr ← pBool
  let exe ← pOptStr
  let extra ← pTable
  let used ← pList pNat
  match watcherEnv ce cp environ sp env with
  | .error _ => pure "E:copy_path"
  | .ok wenv =>
    let w : Watcher := { cmd, args, argsStr, shell, shellArgs, workingDir := cwd, env := wenv,
                         useSockets, numprocesses := np, pipeStdout, pipeStderr,
                         executableCfg := exe, extra }
    match spawnProcess w used with
    | .raised => pure "raised"
    | .failed e => pure ("failed " ++ showErr e)
    | .ok wid obs => pure ("ok " ++ toString wid ++ " " ++ showObs obs)

def cmdHist : P String := do
  let np ← pNat
  let ops ← pList pOp
  let s0 : WState := { np := np, wids := [] }
  let tr := traceOps s0 ops
  let fin := runOps s0 ops
  pure (" ".intercalate (tr.map (fun r => match r with | some w => toString w | none => "R"))
        ++ " ; " ++ showWids fin.wids)

def run (p : P String) (toks : List String) : String :=
  match p toks with
  | some (out, []) => out
  | _ => "bad-op"

def handle (toks : List String) : String :=
  match toks with
  | "gnu" :: rest => run cmdGnu rest
  | "split" :: rest => run cmdSplit rest
  | "quote" :: rest => run cmdQuote rest
  | "fmt" :: rest => run cmdFmt rest
  | "env" :: rest => run cmdEnv rest
  | "spawn" :: rest => run cmdSpawn rest
  | "hist" :: rest => run cmdHist rest
  | _ => "bad-op"

end Circus.Argv.Drv
