import CircusModel.Proto
import CircusModel.Model.Sockets
import CircusModel.Drv.Argv
/-
Driver for the managed-sockets layer (C07), tag `sock`.

  run <base> <nsock> <spec>*nsock
      <nw> (<useSockets> <cmd> <args> <np> <pipeOut> <pipeErr> <maxRetry> <stdin_socket or ~>)*nw
      <nops> <op>*nops
    -> <segment> ( "|" <segment> )*nops          one segment for the state after setup, one per op

`base`: descriptors 0 .. base-1 are open (non-inheritable files of the environment) and stay so.
<op> = I | S <w> | D <i> | R <w> | L <w> | + <w> <k> | - <w> <k> | O <inh> | C <i> | X
       | G <n> <spec>*n <n> <name>*n <n> <name>*n        (reload: new socket sections, order of the deleted, of the added)
<spec> = <name> <reuseport> <addr> <s|q|d> <unix> <replace> <opts>
<segment> = <nrec> <rec>* <ntab> <ent>* <nsock> (<name> <optfd>)* <nproc> (<pid> <w> <wid> <n> <fd>*n)* <phase> <nfiles> <addr>* <res>
            (<res>: `E`/`ok` = `initialize` raised or not, `T`/`F`/`R` = `spawn_process` answered True / False / raised, else `-`)
            (the records are the ones this op added, oldest first; the table lists the open
             descriptors >= base)
<rec> = <w> <closeFds> <phase> <n> (<name> <optfd>)*n <n> <arg>*n <n> <ent>*n <n> <fd>*n (~ | 0 <ent>)
        (last: what `preexec_fn` dup2s onto descriptor 0 of the child)
<ent> = <fd> <id> <s|o> <inheritable> <listening> <optaddr> <bindSer>
<optfd>, <optaddr>: a number or `~`; <phase> = f | r | x; <args> as in the `argv` driver.
Socket names must be pairwise different (a `dict`), else `bad-op`.
-/
namespace Circus.Sockets.Drv
open Circus.Proto Circus.Sockets
open Circus.Argv.Drv (P tok liftO pStr pNat pBool pList pArgs)

def pTyp : P SockType := do
  match (← tok) with
  | "s" => pure .stream
  | "q" => pure .seqpacket
  | "d" => pure .dgram
  | _ => liftO none

def pSpec : P Spec := do
  let name ← pStr
  let reuseport ← pBool
  let addr ← pNat
  let typ ← pTyp
  let unix ← pBool
  let replace ← pBool
  let opts ← pNat
  pure { name, reuseport, addr, typ, unix, replace, opts }

def pWatcher : P Watcher := do
  let useSockets ← pBool
  let cmd ← pStr
  let args ← pArgs
  let numprocesses ← pNat
  let pipeOut ← pBool
  let pipeErr ← pBool
  let maxRetry ← pNat
  let stdinSocket ← Circus.Argv.Drv.pOptStr
  pure { useSockets, cmd, args, numprocesses, pipeOut, pipeErr, maxRetry, stdinSocket }

def pOp : P Op := do
  match (← tok) with
  | "I" => pure .initialize
  | "S" => do pure (.spawn (← pNat))
  | "D" => do pure (.die (← pNat))
  | "R" => do pure (.restart (← pNat))
  | "L" => do pure (.reload (← pNat))
  | "+" => do let w ← pNat; let k ← pNat; pure (.incr w k)
  | "-" => do let w ← pNat; let k ← pNat; pure (.decr w k)
  | "O" => do pure (.openOther (← pBool))
  | "C" => do pure (.closeOther (← pNat))
  | "X" => pure .stop
  | "G" => do
    let new ← pList pSpec
    let dorder ← pList pStr
    let aorder ← pList pStr
    if ¬ (new.map (·.name)).Nodup then liftO none else
    pure (.reloadSockets new dorder aorder)
  | _ => liftO none

def showOptNat : Option Nat → String
  | some n => toString n
  | none => "~"

def showPhase : Phase → String
  | .fresh => "f"
  | .running => "r"
  | .stopped => "x"

def showEnt (fd : Nat) (d : Desc) : String :=
  " ".intercalate [toString fd, toString d.id, (match d.kind with | .sock => "s" | .other => "o"),
    encBool d.inheritable, encBool d.listening, showOptNat d.addr, toString d.bindSer]

/-- the open descriptors `>= base` of a table, with their numbers -/
def entries (base : Nat) (t : FdTable) : List String :=
  (t.zipIdx.filterMap (fun (o, i) => if i < base then none else o.map (showEnt i)))

def showCounted (xs : List String) : String := " ".intercalate (toString xs.length :: xs)

def showFds (d : List (Str × Option Nat)) : String :=
  showCounted (d.map (fun nv => encCps nv.1 ++ " " ++ showOptNat nv.2))

def showRec (base : Nat) (r : Rec) : String :=
  " ".intercalate [toString r.w, encBool r.closeFds, showPhase r.phase, showFds r.socketsFds,
    showCounted (r.argv.map encCps), showCounted (entries base r.inherited),
    showCounted (r.temp.map toString),
    (match r.fd0 with
     | none => "~"
     | some d => "0 " ++ showEnt 0 d)]

def showProc (p : Proc) : String :=
  " ".intercalate ([toString p.pid, toString p.w, toString p.wid, toString p.pipeFds.length] ++ p.pipeFds.map toString)

def showSeg (base : Nat) (nOld : Nat) (s : State) : String :=
  let recs := (s.log.take (s.log.length - nOld)).reverse
  " ".intercalate [showCounted (recs.map (showRec base)), showCounted (entries base s.fdt),
    showFds (s.socks.map (fun k => (k.name, k.fd))), showCounted (s.procs.map showProc), showPhase s.phase,
    showCounted (s.files.map toString)]

/-- what the call answered: `E` = `initialize` raised, `T`/`F` = result of `spawn_process` -/
def opResult (s : State) : Op → String
  | .initialize => if (bindAndListenAll s s.socks).2.isSome then "E" else "ok"
  | .spawn w => (match (spawnProcess s w).2 with | .ok => "T" | .failed => "F" | .raised => "R")
  | _ => "-"

def segments (base : Nat) : State → List Op → List String
  | _, [] => []
  | s, o :: os =>
    let s1 := step s o
    (showSeg base s.log.length s1 ++ " " ++ opResult s o) :: segments base s1 os

def envDesc : Desc := { id := 0, kind := .other, inheritable := false, listening := false, addr := none, bindSer := 0 }

def cmdRun : P String := do
  let base ← pNat
  let specs ← pList pSpec
  let ws ← pList pWatcher
  let ops ← pList pOp
  if ¬ (specs.map (·.name)).Nodup then liftO none else
  let s0 := setup (List.replicate base (some envDesc)) specs ws
  pure (" | ".intercalate ((showSeg base 0 s0 ++ " -") :: segments base s0 ops))

def handle (toks : List String) : String :=
  match toks with
  | "run" :: rest => Circus.Argv.Drv.run cmdRun rest
  | _ => "bad-op"

end Circus.Sockets.Drv
