import CircusModel.Proto
import CircusModel.Model.Pidfile
/-
Driver for the pid-file layer (tag `pidfile`).
  pidfile ops  <file|~> <self.pid> <dirOk> <live> <op>*
  pidfile main <usePidfile> <file|~> <own pid> <dirOk> <live> <turn>*
<live> = `<default a|d|e>[,<pid>=<a|d|e>]*` (answer of os.kill(pid, 0) for pids that fit a C int).
<op>   = `v` validate | `c:<pid>` create(pid) | `u` unlink | `w:<cps|~>` (somebody rewrites/removes the file).
  Answer, one item per op joined by `;`: `<result> <file after|~> <self.pid after>`;
  result: v → `none` | `owner:<pid>` | `raise:<exc>`; c → `ok` | `raise:<exc>`; u, w → `-`.
<turn> = `fr` finished+restarting | `fd` finished | `fx` future exception | `re` raised early |
         `rl` raised late | `ie` interrupted early | `il` interrupted late.
  Answer: `<file after|~> <exit> <started 0|1>`; exit: `status:<n>` | `uncaught:<exc|arbiter>` | `running`.
-/
namespace Circus.Pidfile.Drv
open Circus.Proto Circus.Pidfile

def decLive1 (s : String) : Option Live :=
  if s = "a" then some .alive else if s = "d" then some .dead else if s = "e" then some .eperm else none

def decLive (s : String) : Option (Int → Live) :=
  match s.splitOn "," with
  | [] => none
  | d :: rest =>
    match decLive1 d, rest.mapM (fun t => match t.splitOn "=" with
        | [p, l] => match decInt p, decLive1 l with
          | some p, some l => some (p, l)
          | _, _ => none
        | _ => none) with
    | some d, some tbl => some (fun p => ((tbl.find? (fun e => e.1 = p)).map (·.2)).getD d)
    | _, _ => none

def showExc : Exc → String
  | .osError => "OSError"
  | .runtimeStale => "RuntimeError-stale"
  | .runtimeNoDir => "RuntimeError-nodir"

def showSt (st : St) : String := encOptCps st.file ++ " " ++ toString st.pid

def runOps (live : Int → Live) (dirOk : Bool) : St → List String → Option (List String)
  | _, [] => some []
  | st, op :: rest =>
    let step : Option (String × St) :=
      if op = "v" then
        some (match validate st.file live with
          | .none => "none"
          | .owner p => s!"owner:{p}"
          | .raised e => "raise:" ++ showExc e, st)
      else if op = "u" then some ("-", unlink st)
      else match op.splitOn ":" with
        | ["c", p] => (decInt p).map (fun p =>
            let r := create st live dirOk p
            (match r.2 with | .ok => "ok" | .raised e => "raise:" ++ showExc e, r.1))
        | ["w", t] => (decOptCps t).map (fun f => ("-", { st with file := f }))
        | _ => none
    match step with
    | none => none
    | some (r, st') =>
      match runOps live dirOk st' rest with
      | none => none
      | some out => some ((r ++ " " ++ showSt st') :: out)

def decTurn (s : String) : Option Turn :=
  if s = "fr" then some (.finished true) else if s = "fd" then some (.finished false)
  else if s = "fx" then some .futureException else if s = "re" then some .raisedEarly
  else if s = "rl" then some .raisedLate else if s = "ie" then some .interruptedEarly
  else if s = "il" then some .interruptedLate else none

def showExit : Exit → String
  | .status n => s!"status:{n}"
  | .uncaught (some e) => "uncaught:" ++ showExc e
  | .uncaught none => "uncaught:arbiter"
  | .running => "running"

def handle (toks : List String) : String :=
  match toks with
  | "ops" :: file :: pid :: dirOk :: live :: ops =>
    match decOptCps file, decInt pid, decBool dirOk, decLive live with
    | some file, some pid, some dirOk, some live =>
      match runOps live dirOk { file := file, pid := pid } ops with
      | some outs => ";".intercalate outs
      | none => "bad-op"
    | _, _, _, _ => "bad-op"
  | "main" :: use :: file :: own :: dirOk :: live :: turns =>
    match decBool use, decOptCps file, decInt own, decBool dirOk, decLive live, turns.mapM decTurn with
    | some use, some file, some own, some dirOk, some live, some turns =>
      let r := main use file live dirOk own turns
      encOptCps r.1 ++ " " ++ showExit r.2.1 ++ " " ++ encBool r.2.2
    | _, _, _, _, _, _ => "bad-op"
  | _ => "bad-op"

end Circus.Pidfile.Drv
