import CircusModel.Proto
import CircusModel.Model.FileStream
/-
Driver for the FileStream layer.
  fs <maxBytes> <N> <K> <active0> <b1> … <bK> <nw> (<pre_i> <data_i>)*nw
answers with the directory (active, .1 … .K) after every write, `;`-separated.
-/
namespace Circus.FileStream.Drv
open Circus.Proto Circus.FileStream

def showDir (k : Nat) (d : Dir) : String :=
  " ".intercalate (encCps d.active :: (List.range k).map (fun i => encOptCps (d.backup (i + 1))))

def mkDir (active : Bytes) (bs : List (Option Bytes)) : Dir :=
  { active := active, backup := fun i => if i = 0 then none else (bs.getD (i - 1) none) }

def runWrites (maxBytes n k : Nat) : Dir → List String → Option (List String)
  | _, [] => some []
  | d, p :: w :: rest => do
      let pre ← decOptCps p
      let data ← decCps w
      let d' := call maxBytes n pre d data
      let out ← runWrites maxBytes n k d' rest
      pure (showDir k d' :: out)
  | _, [_] => none

def handle (toks : List String) : String :=
  match toks with
  | mb :: n :: k :: a0 :: rest =>
    match mb.toNat?, n.toNat?, k.toNat?, decCps a0 with
    | some mb, some n, some k, some a0 =>
      match (rest.take k).mapM decOptCps with
      | some bs =>
        match runWrites mb n k (mkDir a0 bs) ((rest.drop k).drop 1) with
        | some outs => ";".intercalate outs
        | none => "bad-op"
      | none => "bad-op"
    | _, _, _, _ => "bad-op"
  | _ => "bad-op"

end Circus.FileStream.Drv
