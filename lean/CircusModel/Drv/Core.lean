import CircusModel.Proto
import CircusModel.Core.Step
/-
Driver for the core state machine.  One scenario per line:
  core A <arbWarmup> W <n> {watcher}* B <n> {behav}* O <n> {op}*
answers: per op  `<obs line>;;…;;<snapshot>`, ops separated by ` ## `.
-/
namespace Circus.Core.Drv
open Circus.Proto Circus.Core

abbrev P := StateT (List String) Option

def tok : P String := fun ts => match ts with | [] => none | t :: r => some (t, r)
def nat : P Nat := do let t ← tok; match t.toNat? with | some n => pure n | none => failure
def int : P Int := do let t ← tok; match t.toInt? with | some n => pure n | none => failure
def bool : P Bool := do let t ← tok; match decBool t with | some b => pure b | none => failure
def str : P String := do let t ← tok; match decStr t with | some s => pure s | none => failure
def optNat : P (Option Nat) := do
  let t ← tok
  if t = "~" then pure none else match t.toNat? with | some n => pure (some n) | none => failure
def expect (s : String) : P Unit := do let t ← tok; if t = s then pure () else failure

def rep (n : Nat) (p : P α) : P (List α) :=
  match n with
  | 0 => pure []
  | n + 1 => do let a ← p; let r ← rep n p; pure (a :: r)

/-- JVal in prefix code: n t f i<int> r<text> s<cps> a<k> … o<k> (<cps key> <val>)… ; fuel bounds nesting -/
def jval : Nat → P JVal
  | 0 => failure
  | f + 1 => do
    let t ← tok
    if t = "n" then pure .null
    else if t = "t" then pure (.bool true)
    else if t = "f" then pure (.bool false)
    else
      let c := t.front
      let r := (t.drop 1).toString
      if c = 'i' then match r.toInt? with | some i => pure (.int i) | none => failure
      else if c = 'r' then pure (.real r)
      else if c = 's' then match decStr r with | some s => pure (.str s) | none => failure
      else if c = 'a' then match r.toNat? with
        | some k => do let xs ← rep k (jval f); pure (.arr xs)
        | none => failure
      else if c = 'o' then match r.toNat? with
        | some k => do
          let kvs ← rep k (do let key ← str; let v ← jval f; pure (key, v))
          pure (.obj kvs)
        | none => failure
      else failure

def hook : P (String × HookSpec) := do
  let name ← tok
  let ign ← bool
  let n ← nat
  let outs ← rep n tok
  pure (name, { outs := outs, ignore := ign })

def watcher (uid : Nat) : P Watcher := do
  let name ← str
  let np ← int
  let singleton ← bool
  let respawn ← bool
  let warmup ← nat
  let graceful ← nat
  let stopSignal ← nat
  let stopChildren ← bool
  let priority ← int
  let autostart ← bool
  let maxRetry ← int
  let sendHup ← bool
  let maxAge ← nat
  let onDemand ← bool
  let nh ← nat
  let hooks ← rep nh hook
  let base : Watcher := { name := name }
  pure { base with
    np := np, singleton := singleton, respawn := respawn, warmup := warmup, graceful := graceful,
    stopSignal := stopSignal, stopChildren := stopChildren, priority := priority,
    autostart := autostart, maxRetry := maxRetry, sendHup := sendHup, maxAge := maxAge, onDemand := onDemand, hooks := hooks,
    ignoreFail := base.ignoreFail ++ (hooks.filter (·.2.ignore)).map (·.1), uid := uid }

def watchers : Nat → P (List Watcher)
  | 0 => pure []
  | n + 1 => do let w ← watcher 0; let r ← watchers n; pure (w :: r)

def behav : P Behav := do
  let term ← optNat
  let killLat ← nat
  let kids ← nat
  let kidTerm ← optNat
  let execFail ← bool
  let spawnMs ← nat
  let eperm ← bool
  let kidEperm ← bool
  pure { term := term, killLat := killLat, kids := kids, kidTerm := kidTerm, execFail := execFail, spawnMs := spawnMs,
         eperm := eperm, kidEperm := kidEperm }

def op : P Op := do
  let t ← tok
  match t with
  | "start" => pure .start
  | "req" => do let cid ← tok; let j ← jval 64; pure (.req cid (some j))
  | "reqbad" => do let cid ← tok; pure (.req cid none)
  | "sig" => do let w ← tok; pure (.sigreq (w = "quit"))
  | "check" => pure .check
  | "wake" => pure .wake
  | "adv" => do let ms ← nat; pure (.adv ms)
  | "die" => do let p ← nat; let s ← nat; pure (.die p s)
  | "xkill" => do let p ← nat; let s ← nat; pure (.xkill p s)
  | "fault" => do let k ← nat; let p ← nat; let s ← nat; pure (.fault k p s)
  | "sockev" => do let b ← bool; pure (.sockev b)
  | _ => failure

/-- what a scenario line may contain besides the stimuli of `Op`: *unit-level* probes that the harness applies to
    the real objects in the same way — forcing a watcher's status (an unreachable state) and calling one watcher
    method directly.  They are not part of `Op`: the theorems about `run` do not quantify over them; they only
    widen the differential test of the individual functions (guards first of all). -/
inductive DOp where
  | op (o : Op)
  | poke (name : String) (st : Status)
  | call (name : String) (fn : String)
  | xreq (cid : String) (j : JVal) (cls : String)

def status : P Status := do
  let t ← tok
  match t with
  | "stopped" => pure .stopped
  | "starting" => pure .starting
  | "active" => pure .active
  | "stopping" => pure .stopping
  | _ => failure

def dop : P DOp := fun toks =>
  match toks with
  | "poke" :: rest => (do let n ← str; let st ← status; pure (DOp.poke n st)) rest
  | "call" :: rest => (do let n ← str; let f ← tok; pure (DOp.call n f)) rest
  | "xreq" :: rest => (do let cid ← tok; let j ← jval 64; let c ← tok; pure (DOp.xreq cid j c)) rest
  | _ => (do let o ← op; pure (DOp.op o)) toks

/-- a direct call of a watcher method, run like a stimulus: the coroutine gets a top-level future whose only
    callback reports an escaping exception; then the loop runs to quiescence -/
def callFn (u : Nat) (fn : String) : M Unit := do
  let co (c : Call) : M Unit := do
    let tid ← newTop [.watch]
    exec fuelDefault (.call c (.top tid))
    armTop tid
  match fn with
  | "manage" => co (.manageProcesses u)
  | "start" => co (.start_ u)
  | "stop" => co (.stop_ u false)
  | "spawns" => co (.spawnProcesses u)
  | "kills" => co (.killProcesses u none none)
  | "reaps" => reapProcesses u
  | "spawn1" => do
    let r ← spawnProcess (exec fuelDefault) u
    match r with
    | .raised e => emit (.raised e)
    | _ => pure ()
  | _ => pure ()

def stepD (d : DOp) : M Unit :=
  match d with
  | .op o => stepM o
  | .poke name st => do
    let s0 ← getS
    if s0.blocked then pure () else
    updK Kernel.beginStep
    let r ← lookupWatcher (pyLower name)
    match r with
    | some u => setStatus u st
    | none => emit (.raised "NoWatcher")
  | .call name fn => do
    let s0 ← getS
    if s0.blocked then pure () else
    updK Kernel.beginStep
    let r ← lookupWatcher (pyLower name)
    match r with
    | some u => callFn u fn
    | none => emit (.raised "NoWatcher")
    stepTail
  | .xreq cid j cls => do
    -- a request for a registered command whose `execute` raises an exception of class `cls`
    let s0 ← getS
    if s0.blocked then pure () else
    updK Kernel.beginStep
    dispatchRaised (some cid) j (excOfClass cls)
    stepTail

def scenario : P (State × List DOp) := do
  expect "A"
  let aw ← nat
  let ow ← tok                 -- endpoint owner: `-` = not in endpoint-owner mode, else the encoded name
  let owner ← (if ow = "-" then pure none else match decStr ow with | some s => pure (some s) | none => failure : P (Option String))
  expect "W"
  let nw ← nat
  let ws ← watchers nw
  expect "B"
  let nb ← nat
  let bs ← rep nb behav
  expect "O"
  let no ← nat
  let ops ← rep no dop
  let s := initState ws bs aw owner
  pure (s, ops)

def runOps (s : State) : List DOp → List String
  | [] => []
  | o :: os =>
    let n := s.log.length
    let s' := (stepD o s).2
    let lines := (s'.log.drop n).map showObs
    (";;".intercalate (lines ++ [snapshot s'])) :: runOps s' os

def handle (toks : List String) : String :=
  match scenario toks with
  | some ((s, ops), []) => " ## ".intercalate (runOps s ops)
  | _ => "bad-op"

end Circus.Core.Drv
