import CircusModel.Proto
import CircusModel.Model.Redirector
/-
Driver for the Redirector layer.
  redir <buffer> <pid0> <op>*
ops:  sp <0|1> <0|1> | wr <pid> <o|e> <cps> | rd <fd> | cw <pid> <o|e> | kill <pid> | reap <pid>
      | start | stop
answer: <outs of op 1>;<outs of op 2>;…|<pipes>|<_active>|<running>|<fd table>
  outs of one op are `,`-separated, fields of one out `:`-separated; dict items `fd:chan:pid` in
  dict order; fd table = one char per slot (`-` free, `w` writer open, `c` writer closed).
-/
namespace Circus.Redirector.Drv
open Circus.Proto Circus.Redirector

def decChan (s : String) : Option Chan :=
  if s = "o" then some .stdout else if s = "e" then some .stderr else none

def encChan : Chan → String
  | .stdout => "o"
  | .stderr => "e"

def encPObj : PObj → String
  | .absent => "~"
  | .opened fd => toString fd
  | .closed => "x"

def encOut : Out → String
  | .spawned pid o e => s!"S:{pid}:{encPObj o}:{encPObj e}"
  | .addHandler fd => s!"A:{fd}"
  | .rmHandler fd => s!"R:{fd}"
  | .wrote pid c b => s!"W:{pid}:{encChan c}:{encCps b}"
  | .epipe => "EPIPE"
  | .writerClosed => "WC"
  | .noPipe => "NOPIPE"
  | .noSuchPid => "NOPID"
  | .delivered c pid b => s!"D:{encChan c}:{pid}:{encCps b}"
  | .eof c pid fd => s!"EOF:{encChan c}:{pid}:{fd}"
  | .eagain => "EAGAIN"
  | .ebadf fd => s!"EBADF:{fd}"
  | .noHandler => "NOH"
  | .writerEnd pid c => s!"CW:{pid}:{encChan c}"
  | .closedFd fd => s!"X:{fd}"
  | .lost c pid b => s!"L:{encChan c}:{pid}:{encCps b}"
  | .staleLeft fd => s!"STALE:{fd}"

def encDict (d : Dict) : String :=
  ",".intercalate (d.map (fun e => s!"{e.fd}:{encChan e.name}:{e.pid}"))

def encFdt (t : List (Option Pipe)) : String :=
  String.join (t.map (fun
    | none => "-"
    | some p => if p.wOpen then "w" else "c"))

def decOps : List String → Option (List Op)
  | [] => some []
  | "sp" :: a :: b :: rest => do
      let a ← decBool a
      let b ← decBool b
      let ops ← decOps rest
      pure (.spawn a b :: ops)
  | "wr" :: p :: c :: d :: rest => do
      let p ← p.toNat?
      let c ← decChan c
      let d ← decCps d
      let ops ← decOps rest
      pure (.write p c d :: ops)
  | "rd" :: fd :: rest => do
      let fd ← fd.toNat?
      let ops ← decOps rest
      pure (.ready fd :: ops)
  | "cw" :: p :: c :: rest => do
      let p ← p.toNat?
      let c ← decChan c
      let ops ← decOps rest
      pure (.closeWriter p c :: ops)
  | "kill" :: p :: rest => do
      let p ← p.toNat?
      let ops ← decOps rest
      pure (.killProcess p :: ops)
  | "reap" :: p :: rest => do
      let p ← p.toNat?
      let ops ← decOps rest
      pure (.reapSelfExited p :: ops)
  | "lr" :: p :: rest => do
      let p ← p.toNat?
      let ops ← decOps rest
      pure (.lateRemove p :: ops)
  | "start" :: rest => do
      let ops ← decOps rest
      pure (.start :: ops)
  | "stop" :: rest => do
      let ops ← decOps rest
      pure (.stop :: ops)
  | _ => none

/-- the stated domain of `lateRemove`: the pid is not a live worker when the op arrives -/
def lateOk (s : State) : List Op → Bool
  | [] => true
  | op :: ops =>
    (match op with
     | .lateRemove p => (findProc s p).isNone
     | _ => true) && lateOk (step s op).1 ops

def handle (toks : List String) : String :=
  match toks with
  | b :: p0 :: rest =>
    match b.toNat?, p0.toNat?, decOps rest with
    | some b, some p0, some ops =>
      if !lateOk (init b p0) ops then "bad-op" else
      let (s, outs) := run (init b p0) ops
      let o := ";".intercalate (outs.map (fun os => ",".intercalate (os.map encOut)))
      s!"{o}|{encDict s.red.pipes}|{encDict s.red.active}|{encBool s.red.running}|{encFdt s.fdt}"
    | _, _, _ => "bad-op"
  | _ => "bad-op"

end Circus.Redirector.Drv
