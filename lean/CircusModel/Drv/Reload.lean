import CircusModel.Proto
import CircusModel.Model.Reload
import CircusModel.Drv.Config
/-
Driver for the Reload layer (tag `reload`).

request (space separated, strings as dot-separated code points, `-` = empty):
  reload run <nEnv> (<k> <v>)*nEnv <nSig> (<text> <num|~>)*nSig <firstPid> <nVer> <ini text>*nVer
      the daemon is started on the first text (`freshStart`), then every further text is loaded with
      `reloadconfig` (`reload`).  Each text goes through the Config model (`readIni`, `getConfig`)
      and `cfgOf`.
      answer: `out-of-domain` | `err <class>` |
              `ok <nVer> view*nVer`
        view    := <nW> watcher*nW                           -- sorted by name
        watcher := <name> <numprocesses> <active 0|1> <nPids> <pid>* <cfg numprocesses>
                   <nOpts> (<k> <v>)* <nEnv> (<k> <v>)*      -- `w._cfg`, keys sorted
-/
namespace Circus.Reload.Drv
open Circus.Proto Circus.Config Circus.Reload
open Circus.Config.Drv (P pNat pStr pRep pCounted pPair pSigEntry inDomain encList)

def flagOff (w : Config.Watcher) (k : Str) : Bool :=
  match dget w.opts k with
  | some (.bool false) => true
  | none => true
  | _ => false

/-- the stated domain of the Reload model for one file -/
def versionInDomain (c : Config.Config) : Bool :=
  c.plugins.isEmpty && c.sockets.isEmpty
  && !caseClash (c.watchers.map (·.name))
  && c.watchers.all (fun w =>
      flagOff w (cp! "singleton") && flagOff w (cp! "on_demand") && flagOff w (cp! "use_sockets")
      && w.hooks.isEmpty)

def kCheckDelay : Str := cp! "check_delay"

/-- canonical text of the arbiter configuration of a file (`Arbiter.get_arbiter_config(get_config(f))`) inside the
    stated domain: the `[circus]` section has a `check_delay` line (`dget(…, float)`: compared as a number) and
    otherwise lines whose values are compared as texts (the harness keeps them fixed, without `$` or `(`) -/
def arbOf (secs : List Config.Section) : Except String Str :=
  match secs.find? (fun s => s.name = cp! "circus") with
  | none => .error "out-of-domain"
  | some s =>
    match dget s.kvs kCheckDelay with
    | none => .error "out-of-domain"
    | some t =>
      if s.kvs.any (fun kv => kv.1 ≠ kCheckDelay && kv.2.any (fun c => c == 36 || c == 40)) then .error "out-of-domain" else
      match Config.parseFloat t with
      | .ok m e =>
        .ok (renderNum m e ++ ((sortBy (fun kv : Str × Str => kv.1) (s.kvs.filter (fun kv => kv.1 ≠ kCheckDelay))).map
              (fun kv => lp kv.1 ++ lp kv.2)).flatten)
      | .invalid => .error "err ValueError"
      | .unsupported => .error "out-of-domain"

/-- one file: text → the canonical arbiter configuration and the comparable dicts of its watchers -/
def parseVersion (osenv : Dict Str) (sigTbl : List (Str × Option Nat)) (text : Str) :
    Except String (Str × List Cfg) :=
  if !text.all (fun c => c < 128 && c ≠ 13) then .error "out-of-domain" else
  match readIni text with
  | .missingSectionHeader => .error "err MissingSectionHeaderError"
  | .parsingError => .error "err ParsingError"
  | .outOfDomain => .error "out-of-domain"
  | .ok secs =>
    if !inDomain osenv secs then .error "out-of-domain" else
    let missing := secs.any (fun s => startsWith (cp! "watcher:") s.name &&
      s.kvs.any (fun kv => kv.1 = cp! "stop_signal" && (dget sigTbl kv.2).isNone))
    if missing then .error "bad-op" else
    let sig : Str → Option Nat := fun t => (dget sigTbl t).getD none
    match getConfig sig osenv secs with
    | .error .valueError => .error "err ValueError"
    | .error .keyError => .error "err KeyError"
    | .error .outOfDomain => .error "out-of-domain"
    | .ok c =>
      if !versionInDomain c then .error "out-of-domain"
      else match arbOf secs with
        | .error e => .error e
        | .ok a => .ok (a, c.watchers.map (cfgOf osenv))

def parseVersions (osenv : Dict Str) (sigTbl : List (Str × Option Nat)) :
    List Str → Except String (List (Str × List Cfg))
  | [] => .ok []
  | t :: r =>
    match parseVersion osenv sigTbl t with
    | .error e => .error e
    | .ok v =>
      match parseVersions osenv sigTbl r with
      | .error e => .error e
      | .ok vs => .ok (v :: vs)

def encPairs (d : List (Str × Str)) : List String :=
  encList (fun kv : Str × Str => [encCps kv.1, encCps kv.2]) (sortBy (fun kv : Str × Str => kv.1) d)

def encW (w : W) : List String :=
  [encCps w.name, toString w.np, encBool w.active, toString w.pids.length]
  ++ w.pids.map toString ++ [toString w.cfg.np] ++ encPairs w.cfg.opts ++ encPairs w.cfg.env

def encState (st : State) : List String :=
  encList encW (sortBy W.name st.ws)

def handleRun (ts : List String) : String :=
  match pCounted pPair ts with
  | none => "bad-op"
  | some (osenv, r1) =>
    match pCounted pSigEntry r1 with
    | none => "bad-op"
    | some (sigTbl, r2) =>
      match pNat r2 with
      | none => "bad-op"
      | some (first, r3) =>
        match pCounted pStr r3 with
        | some (texts, []) =>
          (match parseVersions osenv sigTbl texts with
           | .error e => e
           | .ok [] => "bad-op"
           | .ok (v0 :: vs) =>
             let states := traceA { arb := v0.1, st := freshStart v0.2 first } vs
             " ".intercalate ("ok" :: toString states.length :: (states.map encState).flatten))
        | _ => "bad-op"

def handle (toks : List String) : String :=
  match toks with
  | "run" :: rest => handleRun rest
  | _ => "bad-op"

end Circus.Reload.Drv
