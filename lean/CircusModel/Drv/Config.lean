import CircusModel.Proto
import CircusModel.Model.Config
/-
Driver for the Config layer (tag `cfg`).

request (space separated, strings as dot-separated code points, `-` = empty):
  cfg get <nEnv> (<k> <v>)*nEnv <nSig> (<text> <num|~>)*nSig <nSec> (<name> <nkv> (<k> <v>)*nkv)*nSec
      answer: `err ValueError` | `err KeyError` | `out-of-domain` |
              `ok <nW> watcher* <nP> dict* <nS> dict*`
        watcher := <name> <n> (<k> <val>)* <n> (<k> <int>)* <n> (<k> <v>)* <n> (<k> <v>)*
                   <n> (<k> <hookname> <0|1>)* <n> (<k> <v>)*      -- opts rlimits stderr stdout hooks env
        dict    := <n> (<k> <val>)*
        val     := N | I<int> | D<m>e<k> | B0 | B1 | S<cps>
  cfg file <nEnv> (<k> <v>)*nEnv <nSig> (<text> <num|~>)*nSig <ini text>
      the same, the section list coming from the model's own reader `readIni`;
      additionally `err MissingSectionHeaderError` | `err ParsingError`
  cfg read <ini text>                           answer: `ok <nSec> (<name> <nkv> (<k> <v>)*)*` | err … | out-of-domain
  cfg fnmatch <name> <pat>                      answer: 0 | 1
  cfg expand <nEnv> (<k> <v>)* <text>           answer: <cps>
  cfg int <text>  /  cfg float <text>  /  cfg bool <text>
-/
namespace Circus.Config.Drv
open Circus.Proto Circus.Config

/-- parser over the token list -/
abbrev P (α : Type) := List String → Option (α × List String)

def pNat : P Nat
  | t :: r => t.toNat?.map (·, r)
  | [] => none

def pStr : P Str
  | t :: r => (decCps t).map (·, r)
  | [] => none

def pRep {α} (p : P α) : Nat → P (List α)
  | 0, ts => some ([], ts)
  | n + 1, ts =>
    match p ts with
    | none => none
    | some (a, r) =>
      match pRep p n r with
      | none => none
      | some (as, r') => some (a :: as, r')

def pCounted {α} (p : P α) : P (List α) := fun ts =>
  match pNat ts with
  | some (n, r) => pRep p n r
  | none => none

def pPair : P (Str × Str) := fun ts =>
  match pStr ts with
  | some (k, r) => (pStr r).map (fun (v, r') => ((k, v), r'))
  | none => none

def pSigEntry : P (Str × Option Nat) := fun ts =>
  match pStr ts with
  | some (k, t :: r) =>
    if t = "~" then some ((k, none), r) else t.toNat?.map (fun n => ((k, some n), r))
  | _ => none

def pSection : P Section := fun ts =>
  match pStr ts with
  | some (n, r) => (pCounted pPair r).map (fun (kvs, r') => ({ name := n, kvs := kvs }, r'))
  | none => none

def encVal : Val → String
  | .none => "N"
  | .int i => "I" ++ toString i
  | .dec m e => "D" ++ toString m ++ "e" ++ toString e
  | .bool b => if b then "B1" else "B0"
  | .str s => "S" ++ encCps s

def encList {α} (f : α → List String) (l : List α) : List String :=
  toString l.length :: (l.map f).flatten

def encWatcher (w : Watcher) : List String :=
  encCps w.name ::
    (encList (fun kv : Str × Val => [encCps kv.1, encVal kv.2]) w.opts
     ++ encList (fun kv : Str × Int => [encCps kv.1, toString kv.2]) w.rlimits
     ++ encList (fun kv : Str × Str => [encCps kv.1, encCps kv.2]) w.stderr
     ++ encList (fun kv : Str × Str => [encCps kv.1, encCps kv.2]) w.stdout
     ++ encList (fun kv : Str × (Str × Bool) => [encCps kv.1, encCps kv.2.1, encBool kv.2.2]) w.hooks
     ++ encList (fun kv : Str × Str => [encCps kv.1, encCps kv.2]) w.env)

def encDict (d : Dict Val) : List String :=
  encList (fun kv : Str × Val => [encCps kv.1, encVal kv.2]) d

def nodup (l : List Str) : Bool :=
  match l with
  | [] => true
  | x :: r => !r.contains x && nodup r

/-- the stated input domain (everything else is answered `out-of-domain`):
    ASCII; distinct section names, none called DEFAULT; distinct option names per section, none
    called `__name__`; no watcher option called name / env / rlimits / hooks; distinct environment
    variable names. -/
def inDomain (osenv : Dict Str) (secs : List Section) : Bool :=
  let ascii (s : Str) : Bool := s.all (· < 128)
  osenv.all (fun kv => ascii kv.1 && ascii kv.2)
  && nodup (osenv.map (·.1))
  && nodup (secs.map (·.name))
  && secs.all (fun s =>
      ascii s.name && s.name ≠ cp! "DEFAULT" && s.name ≠ []
      && nodup (s.kvs.map (·.1))
      && s.kvs.all (fun kv => ascii kv.1 && ascii kv.2 && kv.1 ≠ cp! "__name__")
      && (!startsWith (cp! "watcher:") s.name
          || s.kvs.all (fun kv => kv.1 ≠ cp! "name" && kv.1 ≠ cp! "env" && kv.1 ≠ cp! "rlimits"
                                  && kv.1 ≠ cp! "hooks")))

def encSections (secs : List Section) : List String :=
  encList (fun s : Section => encCps s.name ::
    encList (fun kv : Str × Str => [encCps kv.1, encCps kv.2]) s.kvs) secs

def handleRead (t : String) : String :=
  match decCps t with
  | none => "bad-op"
  | some text =>
    if !text.all (fun c => c < 128 && c ≠ 13) then "out-of-domain" else
    match readIni text with
    | .ok secs => " ".intercalate ("ok" :: encSections secs)
    | .missingSectionHeader => "err MissingSectionHeaderError"
    | .parsingError => "err ParsingError"
    | .outOfDomain => "out-of-domain"

/-- `get`: sections given; `file`: the ini text given, read by the model's own reader -/
def handleGet (fromText : Bool) (ts : List String) : String :=
  match pCounted pPair ts with
  | none => "bad-op"
  | some (osenv, r1) =>
    match pCounted pSigEntry r1 with
    | none => "bad-op"
    | some (sigTbl, r2) =>
      let parsed : Option (Except String (List Section)) :=
        if fromText then
          match r2 with
          | [t] =>
            match decCps t with
            | none => none
            | some text =>
              if !text.all (fun c => c < 128 && c ≠ 13) then some (.error "out-of-domain") else
              match readIni text with
              | .ok secs => some (.ok secs)
              | .missingSectionHeader => some (.error "err MissingSectionHeaderError")
              | .parsingError => some (.error "err ParsingError")
              | .outOfDomain => some (.error "out-of-domain")
          | _ => none
        else
          match pCounted pSection r2 with
          | some (secs, []) => some (.ok secs)
          | _ => none
      match parsed with
      | some (.error e) => e
      | some (.ok secs) =>
        if !inDomain osenv secs then "out-of-domain" else
        -- `to_signum` is a parameter: its graph on the texts that occur is supplied by the caller
        let missing := secs.any (fun s => startsWith (cp! "watcher:") s.name &&
          s.kvs.any (fun kv => kv.1 = cp! "stop_signal" && (dget sigTbl kv.2).isNone))
        if missing then "bad-op" else
        let sig : Str → Option Nat := fun t => (dget sigTbl t).getD none
        match getConfig sig osenv secs with
        | .error .valueError => "err ValueError"
        | .error .keyError => "err KeyError"
        | .error .outOfDomain => "out-of-domain"
        | .ok c =>
          " ".intercalate ("ok" :: (encList encWatcher c.watchers ++ encList encDict c.plugins
                                     ++ encList encDict c.sockets))
      | none => "bad-op"

def handle (toks : List String) : String :=
  match toks with
  | "get" :: rest => handleGet false rest
  | "file" :: rest => handleGet true rest
  | ["read", t] => handleRead t
  | ["fnmatch", n, p] =>
    match decCps n, decCps p with
    | some n, some p => encBool (fnmatch n p)
    | _, _ => "bad-op"
  | "expand" :: rest =>
    match pCounted pPair rest with
    | some (env, [t]) =>
      match decCps t with
      | some t => encCps (expand env t)
      | none => "bad-op"
    | _ => "bad-op"
  | ["int", t] =>
    match decCps t with
    | some t => (match parseInt t with | some i => "I" ++ toString i | none => "err")
    | none => "bad-op"
  | ["float", t] =>
    match decCps t with
    | some t => (match parseFloat t with
                 | .ok m e => "D" ++ toString m ++ "e" ++ toString e
                 | .invalid => "err"
                 | .unsupported => "out-of-domain")
    | none => "bad-op"
  | ["bool", t] =>
    match decCps t with
    | some t => (match toBool t with | some b => encBool b | none => "err")
    | none => "bad-op"
  | _ => "bad-op"

end Circus.Config.Drv
