import CircusModel.Proto
import CircusModel.Model.Client
/-
Driver for the client layer (tag `client`).
  client s <callId cps> <sendFails 0|1> <event>*        CircusClient.call
  client a <callId cps> <batch>*                        AsyncCircusClient.call; batch = frames joined by `,` (`-` = empty)
<event> = `t` timeout | `e` EINTR | `p` poll error | <frame>
<frame> = `i` invalid JSON | `n:<tag>` non-object | `o:<id>:<body>`; <id> = `m` missing | `s<cps>` string | `x<tag>` non-string
Answer: `ok <id> <body>` | `timeout` | `json` | `zmq` | `attr` | `pending`.
-/
namespace Circus.Client.Drv
open Circus.Proto Circus.Client

def decId (s : String) : Option JId :=
  if s = "m" then some .missing
  else match s.toList with
    | 's' :: r => (decCps (String.ofList r)).map .str
    | 'x' :: r => (String.ofList r).toNat?.map .nonStr
    | _ => none

def showId : JId → String
  | .missing => "m"
  | .str s => "s" ++ encCps s
  | .nonStr t => "x" ++ toString t

def decFrame (s : String) : Option Frame :=
  if s = "i" then some .invalid
  else match s.splitOn ":" with
    | ["n", t] => t.toNat?.map .nonObject
    | ["o", id, b] => match decId id, b.toNat? with
      | some id, some b => some (.obj id b)
      | _, _ => none
    | _ => none

def decEvent (s : String) : Option Event :=
  if s = "t" then some .timeout else if s = "e" then some .eintr else if s = "p" then some .pollError
  else (decFrame s).map .msg

def decBatch (s : String) : Option (List Frame) :=
  if s = "-" then some [] else (s.splitOn ",").mapM decFrame

def showOutcome : Outcome → String
  | .ok id b => "ok " ++ showId id ++ " " ++ toString b
  | .callErrorTimeout => "timeout"
  | .callErrorJson => "json"
  | .callErrorZmq => "zmq"
  | .attributeError => "attr"
  | .pending => "pending"

def handle (toks : List String) : String :=
  match toks with
  | "s" :: cid :: sf :: evs =>
    match decCps cid, decBool sf, evs.mapM decEvent with
    | some cid, some sf, some evs => showOutcome (call cid sf evs)
    | _, _, _ => "bad-op"
  | "a" :: cid :: bs =>
    match decCps cid, bs.mapM decBatch with
    | some cid, some bs => showOutcome (asyncCall cid bs)
    | _, _ => "bad-op"
  | _ => "bad-op"

end Circus.Client.Drv
