import CircusModel.Proto
import CircusModel.Model.Signum
/-
Driver for the signal-designation layer (tag `signum`).
  signum table                       → `<NSIG>;<name cps>=<number>;…`   (the model's platform table)
  signum <cur> int <decimal>         |
  signum <cur> str <cps>             |  → `<to_signum> <Signal.validate> <Kill.validate> <set> <stop_signal after set>
  signum <cur> bool 0|1              |      <convert_option> <config>`   (config: `-` unless the argument is a str)
  signum <cur> float | other         |
Outcomes: `ok:<n>`, `VE` (ValueError), `ME` (MessageError), `NI` (set: not an integer).
-/
namespace Circus.Signum.Drv
open Circus.Proto Circus.Signum

def showRes : SigRes → String
  | .ok n => s!"ok:{n}"
  | .valueError => "VE"

def showReply : Reply → String
  | .accepted (some n) => s!"ok:{n}"
  | .accepted none => "ok:~"
  | .messageError => "ME"

def showSet : SetRes → String
  | .done => "done"
  | .valueError => "VE"
  | .notInteger => "NI"

def decArg : List String → Option SigArg
  | ["int", i] => (decInt i).map .int
  | ["str", s] => (decCps s).map .str
  | ["bool", b] => (decBool b).map .bool
  | ["float"] => some .float
  | ["other"] => some .other
  | _ => none

def showTable : String :=
  ";".intercalate (toString NSIG :: sigTable.map (fun e => encCps e.1 ++ "=" ++ toString e.2))

def handle (toks : List String) : String :=
  match toks with
  | ["table"] => showTable
  | cur :: rest =>
    match cur.toNat?, decArg rest with
    | some cur, some x =>
      let st := setStopSignal cur x
      let conf := match x with
        | .str s => showRes (configStopSignal s)
        | _ => "-"
      " ".intercalate [showRes (toSignum x), showReply (signalValidate x), showReply (killValidate (some x)),
        showSet st.1, toString st.2, showRes (convertOption x), conf]
    | _, _ => "bad-op"
  | _ => "bad-op"

end Circus.Signum.Drv
