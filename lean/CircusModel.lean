-- Root of the executable model (no Mathlib below this point).
import CircusModel.Proto
import CircusModel.Model.FileStream
import CircusModel.Drv.FileStream
