-- Root of the executable model (no Mathlib below this point).
import CircusModel.Proto
import CircusModel.Model.FileStream
import CircusModel.Drv.FileStream
import CircusModel.Model.GnuArgs
import CircusModel.Model.Shlex
import CircusModel.Model.FormatArgs
import CircusModel.Drv.Argv
import CircusModel.Core.Types
import CircusModel.Core.Kernel
import CircusModel.Core.Watcher
import CircusModel.Core.Interp
import CircusModel.Core.Bodies
import CircusModel.Core.Dispatch
import CircusModel.Core.Commands
import CircusModel.Core.Step
import CircusModel.Drv.Core
