"""Live cross-check of the simulated kernel (docs/LIVE.md).

The same core scenario (harness/coregen.py format, restricted domain) is run twice on the REAL circus code:
  * `run_sim(case)`  on the simulated kernel of harness/sim.py (what every core check and the Lean model are tied to),
  * `run_live(case)` with REAL worker processes (harness/live_worker.py) on the real Linux kernel: real psutil.Popen,
    real fork/exec/kill/waitpid, real /proc, real time, the real tornado IOLoop,
and both runs are reduced, at every `settle` point, to the same coarse, timing-insensitive observation (`canon`).

Scenario = coregen scenario whose ops are
  ["start"] | ["req", {...}, cid] | ["check"] | ["settle"] | ["die", pid, wait_status] | ["xkill", pid, sig]
(`wake` runs of a plain sim scenario are read as one `settle`, `adv` is dropped; fault/sockev/sig/raw are outside the
domain).  pids in ops and request properties are the pids of the *simulated* run (100, 101, …): they are translated
to the live run by spawn ordinal (the j-th successful spawn, its k-th child).

The daemon's own timers are owned by the harness on both sides (as in sim.py): a `tornado_sleep` is parked and fires
only inside `settle`, in (nominal deadline, creation) order — on the live side not before its real duration has
elapsed.  The *schedule* of the live run is thus the one of the simulated run (which is what makes the comparison
insensitive to load); everything the kernel and the C library do is real: fork/exec and its failure, signal delivery to
handlers / ignored / to zombies / to reaped pids, death and wait statuses, zombies, reparenting of orphans, waitpid(pid) and
waitpid(-1), subprocess.Popen.poll and its caching, psutil status/children over /proc, the clock.  The behaviour knobs:
  term obey d / ignore   real signal handlers of the worker (dies by the signal after d ms / SIG_IGN)
                         delay 0: the process is dead (zombie) before kill() returns; delay > 0: the signal is handed to
                         the kernel when the atomic step of the daemon ends — virtual time stands still during a step of the
                         simulated run, so the worker is still there for everything else the step does — and no later timer
                         of the daemon fires before the process is really dead (see LiveKernel, "signals")
  kill_lat 0 / > 0       the same for the daemon's SIGKILL: dead before kill() returns / still alive until the step ends
  kids / kid_term        real forked children of the worker
  exec_fail              argv[0] does not exist: the real fork + failed exec path of subprocess
  spawn_ms               ignored (the real start-up takes what it takes)

Every live scenario runs in its own forked process (the "daemon process": Arbiter.reap_processes calls
waitpid(-1), which must not see anybody else's children), bounded by a watchdog; whatever happens every process
carrying the scenario's tag in its environment is SIGKILLed and reaped afterwards.
"""
import errno
import json
import os
import select
import signal
import sys
import time
import traceback

REPO = os.environ.get("VERIF_REPO", "/repo")
if REPO not in sys.path:
    sys.path.insert(0, REPO)

from harness import sim                                      # noqa: E402
from harness.sim import Blocked, enc                         # noqa: E402

HERE = os.path.dirname(os.path.abspath(__file__))
WORKER = os.path.join(HERE, "live_worker.py")
TAGVAR = "VERIF_LIVE_TAG"
MAX_WAKES = 60            # timers fired per settle at most (both sides)
ADV_MS = 150              # sim: virtual time granted after a settle / outside kill for pending deaths to resolve (> any obey delay)
READY_S = 6.0             # a worker must have its handlers installed within this time
DEAD_S = 3.0              # a process that must die has to be dead within this time
SETTLE_S = 8.0
SPIN_S = 3.0              # blocking time.sleep inside one atomic step beyond this: the daemon hangs
SCENARIO_S = 10.0         # watchdog of one live scenario
IGNORED = (signal.SIGHUP, signal.SIGUSR1, signal.SIGUSR2, signal.SIGWINCH, signal.SIGCHLD, signal.SIGCONT)
SUPPORTED_OPS = ("start", "req", "check", "settle", "wake", "adv", "die", "xkill")
NOPID = 4194304           # > pid_max: stands for a pid of the simulated run that has no live counterpart


class Inconclusive(BaseException):
    """the sandbox / the load did not let the live run proceed as scripted: the scenario is SKIPPED, never failed"""


def dec(t):
    return "" if t == "-" else "".join(chr(int(x)) for x in t.split("."))


# ------------------------------------------------------------------------------------------------ /proc helpers

def proc_stat(pid):
    """(state letter, ppid, starttime) or None"""
    try:
        with open("/proc/%d/stat" % pid, "rb") as fh:
            data = fh.read()
    except OSError:
        return None
    f = data[data.rfind(b")") + 2:].split()
    try:
        return chr(f[0][0]), int(f[1]), int(f[19])
    except (IndexError, ValueError):
        return None


def tagged_pids(tag):
    """pids of all processes that carry the tag in their environment (zombies have none)"""
    needle = ("%s=%s" % (TAGVAR, tag)).encode()
    out = []
    for d in os.listdir("/proc"):
        if not d.isdigit():
            continue
        try:
            with open("/proc/%s/environ" % d, "rb") as fh:
                if needle in fh.read().split(b"\0"):
                    out.append(int(d))
        except OSError:
            pass
    return out


def children_of(pid):
    out = []
    for d in os.listdir("/proc"):
        if d.isdigit():
            st = proc_stat(int(d))
            if st is not None and st[1] == pid:
                out.append(int(d))
    return out


def set_subreaper(on):
    """orphans of the scenario are re-parented to the supervisor, not to the daemon process (which sees exactly what a
    daemon sees whose orphaned grandchildren go to init) — so that they can be reaped; False when refused"""
    try:
        import ctypes
        libc = ctypes.CDLL(None, use_errno=True)
        return libc.prctl(36, 1 if on else 0, 0, 0, 0) == 0
    except Exception:
        return False


# ------------------------------------------------------------------------------------------------ canonical observation

def _abstract_body(body):
    """pid lists of a reply body -> their length"""
    import re
    return re.sub(r"\[([0-9,]*)\]", lambda m: "#%d" % (len(m.group(1).split(",")) if m.group(1) else 0), body)


def canon(lines, probe):
    """the observation compared between the two runs; `lines` = trace lines since the previous settle point"""
    pi = probe["pidinfo"]
    ev, reaps, reps, sk, skk, misc = {}, {}, [], {}, {}, {}
    for l in lines:
        t = l.split(" ")
        k = t[1]
        if k == "ev":
            name = dec(t[2])
            ev.setdefault(name, {})
            ev[name][t[3]] = ev[name].get(t[3], 0) + 1
            if t[3] == "reap":
                reaps.setdefault(name, []).append(t[5])
        elif k == "rep":
            reps.append([t[2], " ".join(t[3:-3]), t[-3], t[-2], _abstract_body(t[-1])])
        elif k == "sig":
            if int(t[3]) == signal.SIGKILL and not t[4].endswith("x"):
                inf = pi.get(int(t[2]))
                if inf is None:
                    misc["sigkill-unknown"] = misc.get("sigkill-unknown", 0) + 1
                elif inf["kind"] == "w":
                    sk.setdefault(inf["name"], []).append(str(inf["wid"]))
                else:
                    skk[inf["name"]] = skk.get(inf["name"], 0) + 1
        elif k in ("conflict", "execfail", "nosleeper", "notarget", "blocked", "sig-foreign"):
            misc[k] = misc.get(k, 0) + 1
        elif k in ("raised", "close"):
            key = "%s %s" % (k, t[2])
            misc[key] = misc.get(key, 0) + 1
    for v in reaps.values():
        v.sort()
    for v in sk.values():
        v.sort()
    live, kids, zomb = {}, {}, 0
    listed = set(p[0] for w in probe["watchers"] for p in w["procs"])
    for pid, st in probe["states"].items():
        inf = pi[pid]
        if inf["kind"] == "w":
            if st == "r":
                live[inf["name"]] = live.get(inf["name"], 0) + 1
            elif st == "z" and pid in listed:
                # only zombies a watcher still lists: the wait status of a worker that no watcher tracks any more is
                # collected by CPython's subprocess module whenever the Popen object happens to be garbage-collected
                # (Popen.__del__) or the next Popen is created (subprocess._cleanup) — docs/LIVE.md, D2
                zomb += 1
        elif st == "r":
            kids[inf["name"]] = kids.get(inf["name"], 0) + 1
    ws = []
    for w in probe["watchers"]:
        ws.append([w["name"], w["status"], str(w["np"]), len(w["procs"]), sorted(str(p[1]) for p in w["procs"])])
    ws.sort(key=lambda x: x[0])
    return {"watchers": ws, "live": live, "kids": kids, "zombies": zomb, "events": ev, "reaps": reaps,
            "replies": reps, "sigkill": sk, "sigkill_kids": skk, "misc": misc, "slot": probe["slot"],
            "stopping": probe["stopping"], "blocked": probe["blocked"], "settled": probe["settled"]}


def first_difference(a, b):
    """(settle point, key, sim value, live value) of the first difference of two lists of observations, or None"""
    for i in range(max(len(a), len(b))):
        if i >= len(a) or i >= len(b):
            return {"point": i, "key": "number of settle points", "sim": len(a), "live": len(b)}
        for key in a[i]:
            if a[i][key] != b[i].get(key):
                return {"point": i, "key": key, "sim": a[i][key], "live": b[i].get(key)}
    return None


# ------------------------------------------------------------------------------------------------ common runner

def normalise_ops(ops):
    """coregen ops -> ops of the live domain: a run of wakes is one settle, adv is dropped"""
    out = []
    for op in ops:
        k = op[0]
        if k not in SUPPORTED_OPS:
            raise ValueError("op %r is outside the live domain" % (op,))
        if k == "adv":
            continue
        if k == "wake":
            k, op = "settle", ["settle"]
        if k == "settle" and out and out[-1][0] == "settle":
            continue
        out.append(op)
    return out


class _Side(object):
    """what the two runs share: the op loop, settle, registration of spawned processes, the observation"""

    def side_init(self):
        self.spawns = []         # ordinal -> {"pid", "kids", "name", "wid", "attempt"}
        self.pidinfo = {}        # pid -> {"kind": "w"|"k", "name", "wid", "ord", "kidx"}
        self.points = []         # canonical observations, one per settle point
        self.extra = []          # per settle point, not compared: what the live-only oracle needs
        self.acc = []            # trace lines since the last settle point
        self.trace = []          # [[op, [lines]]] of the whole run (diagnostics)
        self.closed = False
        self.fresh = False       # something happened since the last observation

    def register(self, pid, kids, name, wid, attempt):
        o = len(self.spawns)
        self.spawns.append({"pid": pid, "kids": list(kids), "name": name, "wid": wid, "attempt": attempt})
        self.pidinfo[pid] = {"kind": "w", "name": name, "wid": wid, "ord": o, "kidx": None}
        for i, c in enumerate(kids):
            self.pidinfo[c] = {"kind": "k", "name": name, "wid": wid, "ord": o, "kidx": i}

    def step(self, op):
        self.fresh = True
        self.k.log = []
        self.apply(op)
        lines = list(self.k.log)
        self.acc += lines
        self.trace.append([op, lines])
        if "o close ctrl" in lines:
            self.closed = True

    def watcher_probe(self):
        out = []
        for w in self.arb.watchers:
            out.append({"name": w.name, "status": w._status, "np": w.numprocesses,
                        "procs": [[p.pid, p.wid] for p in w.processes.values()]})
        return out

    def observe(self, settled):
        probe = {"pidinfo": self.pidinfo, "states": self.states(), "watchers": self.watcher_probe(),
                 "slot": self.arb._exclusive_running_command, "stopping": bool(self.arb._stopping),
                 "blocked": bool(self.blocked), "settled": bool(settled)}
        self.points.append(canon(self.acc, probe))
        self.extra.append({"listed": {w["name"]: [[self.pidinfo.get(p[0], {}).get("ord"), probe["states"].get(p[0], "g")]
                                                  for p in w["procs"]] for w in probe["watchers"]}})
        self.acc = []
        self.fresh = False

    def do_settle(self):
        n = 0
        while self.sleepers and n < MAX_WAKES and not self.blocked and not self.closed:
            self.step(["wake"])
            n += 1
        settled = not self.sleepers
        if not self.blocked:
            self.quiesce()
        self.observe(settled)

    def feed(self, op):
        """one op of the live domain"""
        if self.blocked or self.closed:
            return
        if op[0] == "settle":
            self.do_settle()
            return
        op = self.translate(op)
        if op is None:
            self.k.log = []
            self.k.out("o notarget")
            self.acc += self.k.log
            self.fresh = True
            return
        self.step(op)
        if op[0] in ("die", "xkill") and not self.blocked:
            self.quiesce()

    def finish(self):
        if self.fresh:
            if self.blocked or self.closed:
                self.observe(not self.sleepers)
            else:
                self.do_settle()

    def run_ops(self, ops):
        for op in ops:
            self.feed(op)
        self.finish()


def _name_wid(args):
    name, wid = "?", "?"
    try:
        name = args[args.index("--name") + 1]
        wid = args[args.index("--wid") + 1]
    except (ValueError, IndexError, AttributeError):
        pass
    return name, wid


# ------------------------------------------------------------------------------------------------ sim side

class SimSide(sim.Sim, _Side):
    def __init__(self, sc):
        sim.Sim.__init__(self, sc)
        self.side_init()
        self.expanded = []
        k = self.k
        orig = k.spawn

        def spawn(info):
            attempt = k.attempt
            pid = orig(info)
            kids = sorted(p.pid for p in k.procs.values() if p.ppid == pid)
            name, wid = _name_wid(info.get("args"))
            self.register(pid, kids, name, wid, attempt)
            return pid
        k.spawn = spawn

    def step(self, op):
        self.expanded.append(op)
        _Side.step(self, op)

    def translate(self, op):
        return op

    def quiesce(self):
        if not self.sleepers:
            self.step(["adv", ADV_MS])

    def states(self):
        out = {}
        for pid in self.pidinfo:
            p = self.k.procs.get(pid)
            out[pid] = "g" if p is None else p.state
        return out


def run_sim(case):
    """-> {"points": [...], "extra": [...], "expanded": plain sim scenario, "pidmap": {sim pid: [ord, kidx]}, "trace"}"""
    sc = dict(case)
    ops = normalise_ops(case["ops"])
    s = SimSide(sc)
    s.setup()
    try:
        s.run_ops(ops)
    finally:
        s.teardown()
    exp = {k: v for k, v in case.items() if not k.startswith("_")}
    exp["ops"] = s.expanded
    return {"points": s.points, "extra": s.extra, "expanded": exp, "trace": s.trace,
            "pidmap": {str(p): [i["ord"], i["kidx"]] for p, i in s.pidinfo.items()},
            "spawns": s.spawns}


# ------------------------------------------------------------------------------------------------ live side

class LiveKernel(object):
    """the part of sim.Kernel's interface that Sim.apply / FakePub / FakeStream use, on real processes"""

    def __init__(self, behav, tag, side):
        self.behav = behav or [{}]
        self.tag = tag
        self.side = side
        self.attempt = 0
        self.now = 0                 # NOMINAL ms: orders the daemon's timers exactly as the simulated run does
        self.log = []
        self.blocked = False
        self.faults = []
        self.slept = 0
        self.spin_s = 0.0
        self.dpid = os.getpid()
        self.ident = {}              # pid -> starttime
        self.bh = {}                 # pid -> behaviour
        self.held = {}               # pid -> (sig, nominal deadline): the deadly signal not yet handed to the kernel
        self.doom = {}               # pid -> nominal ms by which the process is dead
        self.real_kill = os.kill
        self.inconclusive = None
        self.reaped = set()          # pids whose wait status has been collected

    # -- bookkeeping
    def out(self, line):
        if not self.blocked:
            self.log.append(line)

    def begin_step(self):
        self.spin_s = 0.0
        self.slept = 0

    def resolve(self):
        pass

    def give_up(self, why):
        if self.inconclusive is None:
            self.inconclusive = why
        raise Inconclusive(why)

    # -- the process table is the kernel's
    def state(self, pid):
        st = proc_stat(pid)
        if st is None or st[2] != self.ident.get(pid):
            return "g"
        if self.side.pidinfo[pid]["kind"] == "w" and st[1] != self.dpid:
            return "g"
        return "z" if st[0] in "ZXx" else "r"

    # -- signals.  In the simulated run the effect of a signal comes `delay` ms of VIRTUAL time later, and virtual time stands
    # still while the daemon works (one atomic step): a worker that was told to stop is still there for everything else the
    # step does.  A real kernel gives no such guarantee — whether the worker is gone 5 ms later, when the daemon polls it or
    # looks its children up, is decided by the load.  The live run therefore takes the same schedule as the simulated one:
    #   delay 0 (obey 0, kill_lat 0)   the signal is sent and the process is dead (zombie) before kill() returns;
    #   delay > 0                      the signal is HELD and handed to the kernel when the step ends (or the daemon blocks in
    #                                  time.sleep); the process then takes its real `delay`; no timer of the daemon with a
    #                                  later nominal deadline fires before the process is really dead;
    #   no deadly effect               sent at once.
    def _hold(self, pid, sig, delay):
        # sim.Kernel._doom: of several deadly signals the one whose effect is due first decides how the process ends
        if pid not in self.held or self.now + delay < self.held[pid][1]:
            self.held[pid] = (sig, self.now + delay)
        self.doom[pid] = min(self.doom.get(pid, 1 << 60), self.now + delay)

    def flush(self):
        held, self.held = self.held, {}
        for pid, (sig, _) in held.items():
            if self.state(pid) != "g":
                try:
                    self.real_kill(pid, sig)
                except ProcessLookupError:
                    pass

    def await_dead(self, upto=None):
        """every process doomed by nominal time `upto` (None: at all) is really dead"""
        self.flush()
        end = time.monotonic() + DEAD_S
        while True:
            left = [p for p, d in self.doom.items() if (upto is None or d <= upto) and self.state(p) == "r"]
            if not left:
                break
            if time.monotonic() > end:
                self.give_up("processes %r still alive %.0f s after a deadly signal" % (left, DEAD_S))
            time.sleep(0.0005)
        for p in [p for p, d in self.doom.items() if upto is None or d <= upto]:
            del self.doom[p]

    def wait_dead(self, pid, why):
        end = time.monotonic() + DEAD_S
        while self.state(pid) == "r":
            if time.monotonic() > end:
                self.give_up("pid %d (%s) not dead after %.0f s" % (pid, why, DEAD_S))
            time.sleep(0.0002)

    def _effect(self, pid, sig):
        """None (no deadly effect) or the delay in ms after which the process is dead"""
        b = self.bh[pid]
        if sig == signal.SIGKILL:
            return b.get("kill_lat", 0)
        if sig == 0 or sig in IGNORED:
            return None
        t = b.get("term", ["obey", 0])
        return (t[1] if len(t) > 1 else 0) if t[0] == "obey" else None

    def _send(self, pid, sig, st):
        if sig == 0 or st != "r":
            return self.real_kill(pid, sig)            # a zombie takes any signal, nothing happens
        d = self._effect(pid, sig)
        if d is None:
            return self.real_kill(pid, sig)
        if d > 0:
            return self._hold(pid, sig, d)
        self.held.pop(pid, None)
        self.real_kill(pid, sig)
        self.wait_dead(pid, "signal %d, delay 0" % sig)
        return None

    def kill(self, pid, sig):
        """os.kill of the daemon process: every signal the code under test sends goes through here"""
        if pid not in self.bh or pid <= 0:
            self.out("o sig-foreign %d %d" % (pid, sig))
            raise ProcessLookupError(errno.ESRCH, "not a process of this scenario")
        st = self.state(pid)
        self.out("o sig %d %d %s" % (pid, int(sig), st))
        if st == "g":
            raise ProcessLookupError(errno.ESRCH, "No such process")
        return self._send(pid, int(sig), st)

    def outside(self, pid, sig):
        """a signal from outside the daemon (xkill)"""
        st = self.state(pid)
        self.out("o sig %d %d %sx" % (pid, int(sig), st))
        if st != "g":
            try:
                self._send(pid, int(sig), st)
            except ProcessLookupError:
                pass

    def die(self, pid, status):
        """the process ends by itself with this wait status"""
        if self.state(pid) != "r":
            return
        if os.WIFSIGNALED(status):
            if os.WTERMSIG(status) != signal.SIGKILL:
                raise ValueError("die with signal %d is outside the live domain" % os.WTERMSIG(status))
            self.real_kill(pid, signal.SIGKILL)
        else:
            code = os.WEXITSTATUS(status)
            if not 0 <= code < 8:
                raise ValueError("die with exit code %d is outside the live domain" % code)
            self.real_kill(pid, signal.SIGRTMIN + code)
        self.wait_dead(pid, "die")

    def sleep(self, secs):
        """time.sleep of the code under test (Watcher.reap_process waits for a process this way)"""
        ms = max(1, int(round(secs * 1000)))
        self.spin_s += max(secs, 0.0005)
        self.slept += ms
        if self.spin_s > SPIN_S:
            self.blocked = True
            raise Blocked()
        self.now += ms
        self.flush()
        time.sleep(secs)

    def quiesce(self):
        """every death that has been caused has happened"""
        self.await_dead(None)

    def snapshot(self):
        return ",".join("%d:%s" % (p, self.state(p)) for p in sorted(self.bh) if self.state(p) != "g") or "-"

    # -- spawn
    def handshake(self, rfd, pid, nkids):
        """-> pids of the worker's children, once worker and children have their signal handlers in place"""
        buf = b""
        end = time.monotonic() + READY_S
        try:
            while True:
                lines = buf.split(b"\n")[:-1]
                if sum(1 for x in lines if x.startswith(b"R")) >= 1 and sum(1 for x in lines if x.startswith(b"K")) >= nkids:
                    return [int(x.split()[1]) for x in lines if x.startswith(b"K")]
                left = end - time.monotonic()
                if left <= 0:
                    self.give_up("worker %d not ready after %.0f s" % (pid, READY_S))
                r, _, _ = select.select([rfd], [], [], min(left, 0.2))
                if r:
                    chunk = os.read(rfd, 4096)
                    if not chunk:
                        self.give_up("worker %d ended while starting" % pid)
                    buf += chunk
        finally:
            os.close(rfd)


def make_live_popen(k):
    import psutil

    class LivePopen(psutil.Popen):
        """the REAL psutil.Popen; only the command line is replaced by the scripted worker"""

        def __init__(self, args, **kw):
            b = k.behav[k.attempt % len(k.behav)]
            attempt = k.attempt
            k.attempt += 1
            args = list(args)
            name, wid = _name_wid(args)
            env = dict(kw.get("env") or {})
            env[TAGVAR] = k.tag
            kw["env"] = env
            if b.get("exec_fail"):
                k.out("o execfail")
                psutil.Popen.__init__(self, ["/nonexistent/verif-live/no-such-command"] + args[1:], **kw)
                k.give_up("a command that does not exist was started")       # not reached: Popen raised OSError
            rfd, wfd = os.pipe()
            real = [sys.executable, "-I", "-S", WORKER] + args[1:] + \
                ["--behav", json.dumps({x: b[x] for x in ("term", "kids", "kid_term") if x in b}), "--ready", str(wfd)]
            kw["pass_fds"] = tuple(kw.get("pass_fds", ())) + (wfd,)
            try:
                psutil.Popen.__init__(self, real, **kw)
            except OSError as e:
                os.close(rfd)
                os.close(wfd)
                k.give_up("spawn refused: %s" % e)
            os.close(wfd)
            st = proc_stat(self.pid)
            k.ident[self.pid] = st[2] if st else None
            k.bh[self.pid] = b
            k.side.pidinfo[self.pid] = {"kind": "w", "name": name, "wid": wid, "ord": None, "kidx": None}   # until registered
            kids = k.handshake(rfd, self.pid, int(b.get("kids", 0)))
            for c in kids:
                cs = proc_stat(c)
                k.ident[c] = cs[2] if cs else None
                k.bh[c] = {"term": b.get("kid_term", ["obey", 0]), "kill_lat": 0}
            k.side.register(self.pid, kids, name, wid, attempt)
            k.out("o spawn %d %s %s" % (self.pid, enc(name), wid))

        def poll(self):
            sp = object.__getattribute__(self, "_Popen__subproc")
            before = sp.returncode
            rc = sp.poll()
            if before is None and rc is not None and self.pid not in k.reaped:     # else: ECHILD, subprocess says 0
                k.reaped.add(self.pid)
                k.out("o reap %d %d" % (self.pid, (-rc) if rc < 0 else (rc << 8)))
            return rc

    return LivePopen


class _LiveOs(object):
    def __init__(self, k):
        self._k = k

    def __getattr__(self, name):
        return getattr(os, name)

    def waitpid(self, pid, flags):
        r = os.waitpid(pid, flags)
        if r[0]:
            self._k.reaped.add(r[0])
            self._k.out("o reap %d %d" % r)
        return r


class _LiveTime(object):
    def __init__(self, k):
        self._k = k

    def __getattr__(self, name):
        return getattr(time, name)

    def sleep(self, s):
        self._k.sleep(s)


class Live(sim.Sim, _Side):
    """sim.Sim with the simulated kernel taken out again: same arbiter set-up, same op semantics, same trace lines"""

    def __init__(self, sc, tag, pidmap):
        sim.Sim.__init__(self, sc)
        self.side_init()
        self.k = LiveKernel(sc.get("behav"), tag, self)
        self.real_due = {}                   # timer seq -> earliest real time it may fire
        self.pidmap = pidmap                 # sim pid -> [ord, kidx]

    def _tornado_sleep(self, duration):
        f = sim.Sim._tornado_sleep(self, duration)
        self.real_due[self.seq] = time.monotonic() + duration
        return f

    def _call_later(self, delay, callback, *args, **kw):
        sim.Sim._call_later(self, delay, callback, *args, **kw)
        self.real_due[self.seq] = time.monotonic() + delay

    def setup(self):
        import circus.arbiter as A
        import circus.process as P
        import circus.watcher as W
        sim.Sim.setup(self)                  # arbiter, watchers, fake PUB / ROUTER, parked timers … and the fake kernel:
        P.Popen = make_live_popen(self.k)    # … which is taken out again here
        W.os = _LiveOs(self.k)
        A.os = _LiveOs(self.k)
        W.time = _LiveTime(self.k)
        A.time = _LiveTime(self.k)
        P.time = _LiveTime(self.k)
        os.kill = self.k.kill                # psutil sends every signal through os.kill

    def teardown(self):
        os.kill = self.k.real_kill
        sim.Sim.teardown(self)

    def apply(self, op):
        k = self.k
        if op[0] == "wake" and self.sleepers:
            self.sleepers.sort(key=lambda s: (s[0], s[1]))
            due = self.real_due.pop(self.sleepers[0][1], 0)
            k.flush()
            left = due - time.monotonic()
            if left > SETTLE_S:
                k.give_up("timer of %.1f s" % left)
            if left > 0:
                time.sleep(left)
            k.await_dead(max(k.now, self.sleepers[0][0]))
        elif op[0] == "die":
            k.begin_step()
            k.die(op[1], op[2])
            return
        elif op[0] == "xkill":
            k.begin_step()
            k.outside(op[1], op[2])
            return
        sim.Sim.apply(self, op)
        if k.inconclusive:
            raise Inconclusive(k.inconclusive)
        if not self.blocked:
            k.flush()                         # the step is over: held signals reach the kernel

    def _pid(self, p):
        if isinstance(p, bool) or not isinstance(p, int):
            return p
        m = self.pidmap.get(str(p))
        if m is None:
            return NOPID + (p % 1000)
        if m[0] >= len(self.spawns):
            return None
        s = self.spawns[m[0]]
        if m[1] is None:
            return s["pid"]
        return s["kids"][m[1]] if m[1] < len(s["kids"]) else None

    def translate(self, op):
        if op[0] in ("die", "xkill"):
            p = self._pid(op[1])
            if p is None or p >= NOPID:
                return None
            return [op[0], p] + list(op[2:])
        if op[0] == "req" and isinstance(op[1], dict) and isinstance(op[1].get("properties"), dict):
            props = dict(op[1]["properties"])
            for key in ("pid", "childpid"):
                if key in props:
                    p = self._pid(props[key])
                    props[key] = NOPID if p is None else p
            return ["req", dict(op[1], properties=props)] + list(op[2:])
        return op

    def quiesce(self):
        self.k.quiesce()

    def states(self):
        return {pid: self.k.state(pid) for pid in self.pidinfo}

    def kill_everything(self):
        k = self.k
        k.held = {}
        for pid in list(k.bh):
            if k.state(pid) == "r":
                try:
                    k.real_kill(pid, signal.SIGKILL)
                except OSError:
                    pass
        for s in self.spawns:
            try:
                os.killpg(s["pid"], signal.SIGKILL)      # every worker leads its own session (Process.spawn: setsid)
            except OSError:
                pass
        end = time.monotonic() + 2.0
        for s in self.spawns:
            while time.monotonic() < end:
                try:
                    if os.waitpid(s["pid"], os.WNOHANG)[0]:
                        break
                except OSError:
                    break
                time.sleep(0.001)


def _daemon_main(case, pidmap, tag):
    t0 = time.monotonic()
    ops = normalise_ops(case["ops"])
    lv = Live(dict(case), tag, pidmap)
    res = {}
    try:
        lv.setup()
        try:
            lv.run_ops(ops)
            res = {"points": lv.points, "extra": lv.extra}
        except Inconclusive as e:
            res = {"skipped": "inconclusive: %s" % e}
        finally:
            try:
                lv.kill_everything()
            finally:
                try:
                    lv.teardown()
                except BaseException:
                    pass
    except Inconclusive as e:
        res = {"skipped": "inconclusive: %s" % e}
    res["trace"] = lv.trace
    res["spawns"] = lv.spawns
    res["errors"] = lv.errors[:5]
    res["wall_s"] = round(time.monotonic() - t0, 3)
    return res


_COUNTER = [0]


def sweep(tag, before_children, dpid):
    """SIGKILL every process that carries the tag, reap whatever was re-parented to us; -> (killed, left)"""
    me = os.getpid()
    killed = 0
    for _ in range(3):
        pids = [p for p in tagged_pids(tag) if p != me]
        if not pids:
            break
        for p in pids:
            try:
                os.kill(p, signal.SIGKILL)
                killed += 1
            except OSError:
                pass
        time.sleep(0.01)
    end = time.monotonic() + 2.0
    while True:
        mine = [p for p in children_of(me) if p not in before_children and p != dpid]
        for p in mine:
            try:
                os.waitpid(p, os.WNOHANG)
            except OSError:
                pass
        left = [p for p in tagged_pids(tag) if p != me]
        if (not mine and not left) or time.monotonic() > end:
            return killed, len(mine) + len(left)
        time.sleep(0.005)


def run_live(case, pidmap, timeout=SCENARIO_S):
    """one scenario with real processes, in a process of its own -> {"points", "extra", "trace", …} | {"skipped": why}"""
    _COUNTER[0] += 1
    tag = "%d-%d-%d" % (os.getpid(), _COUNTER[0], int(time.time() * 1000) % 100000)
    me = os.getpid()
    before = set(children_of(me))
    sub = set_subreaper(True)
    t0 = time.monotonic()
    try:
        rfd, wfd = os.pipe()
        sys.stdout.flush()
        sys.stderr.flush()
        try:
            dpid = os.fork()
        except OSError as e:
            os.close(rfd)
            os.close(wfd)
            return {"skipped": "fork refused: %s" % e}
        if dpid == 0:
            code = 0
            try:
                os.close(rfd)
                for s in (signal.SIGALRM, signal.SIGTERM, signal.SIGINT, signal.SIGQUIT, signal.SIGCHLD, signal.SIGHUP):
                    signal.signal(s, signal.SIG_DFL)
                signal.alarm(int(timeout) + 5)                     # dead-man timer of the daemon process itself
                try:
                    import ctypes
                    ctypes.CDLL(None).prctl(1, signal.SIGKILL, 0, 0, 0)    # PR_SET_PDEATHSIG: gone with the check process
                    if os.getppid() != me:
                        os._exit(0)
                except Exception:
                    pass
                try:
                    res = _daemon_main(case, pidmap, tag)
                except BaseException as e:
                    res = {"skipped": "driver exception %s: %s" % (type(e).__name__, e), "tb": traceback.format_exc()[-1500:]}
                data = json.dumps(res, default=str).encode()
                while data:
                    n = os.write(wfd, data)
                    data = data[n:]
            except BaseException:
                code = 1
            finally:
                os._exit(code)
        os.close(wfd)
        buf = b""
        end = time.monotonic() + timeout
        timed_out = False
        while True:
            left = end - time.monotonic()
            if left <= 0:
                timed_out = True
                break
            r, _, _ = select.select([rfd], [], [], min(left, 0.25))
            if r:
                chunk = os.read(rfd, 65536)
                if not chunk:
                    break
                buf += chunk
        os.close(rfd)
        if timed_out:
            try:
                os.kill(dpid, signal.SIGKILL)
            except OSError:
                pass
        try:
            os.waitpid(dpid, 0)
        except OSError:
            pass
        killed, left = sweep(tag, before, dpid)
        if timed_out:
            res = {"skipped": "watchdog: scenario not finished after %.0f s" % timeout}
        else:
            try:
                res = json.loads(buf.decode())
            except ValueError:
                res = {"skipped": "daemon process ended without a result"}
        res["swept"] = killed
        res["left_behind"] = left
        res["subreaper"] = sub
        res["total_s"] = round(time.monotonic() - t0, 3)
        return res
    finally:
        if sub:
            set_subreaper(False)


def run_both(case):
    s = run_sim(case)
    l = run_live(case, s["pidmap"])
    return {"sim": s, "live": l}


if __name__ == "__main__":
    if len(sys.argv) > 1:
        c = json.load(open(sys.argv[1]))
        c = c.get("case", c.get("scenario", c))
    else:
        c = {"arb": {"warmup_ms": 0},
             "watchers": [{"name": "a", "np": 2, "graceful_ms": 200, "warmup_ms": 0}],
             "behav": [{"term": ["ignore"], "kill_lat": 0, "spawn_ms": 1}, {"term": ["obey", 20], "kill_lat": 0, "spawn_ms": 1}],
             "ops": [["start"], ["settle"], ["req", {"command": "stop", "id": "x1", "properties": {"waiting": True}}, 0], ["settle"]]}
    o = run_both(c)
    for side in ("sim", "live"):
        print("==", side, {k: v for k, v in o[side].items() if k not in ("points", "extra", "trace", "expanded", "pidmap", "spawns")})
        for op, lines in o[side].get("trace", []):
            print("  >>", op)
            for l in lines:
                print("       ", l)
        for i, p in enumerate(o[side].get("points", [])):
            print("  point", i, json.dumps(p, sort_keys=True))
    print("first difference:", first_difference(o["sim"]["points"], o["live"].get("points", [])) if "points" in o["live"] else "-")
