"""The REAL `Arbiter.load_from_config` / `reloadconfig` on the simulated kernel of harness/sim.py.

A daemon is built from a configuration file with `Arbiter.load_from_config` (what circusd does),
wired to the simulated kernel exactly like `Sim.setup` wires its own arbiter, started with
`start_watchers`, and then driven through the real command path (`Controller.handle_message` ->
`commands/reloadconfig.py` -> `Arbiter.reload_from_config`) after every rewrite of the file.  Workers
are simulated processes, so pids before and after every reload are exact and repeatable.

Nothing in sim.py is changed: `ReloadSim` subclasses `Sim`, lets `Sim.setup` install its patches with an
empty watcher list and then replaces the arbiter.  The kernel subclass makes the virtual clock tick
1 ms per spawn, so that `Process.started` is strictly increasing in spawn order as on a real machine
(`manage_processes` sorts by it when it removes extra processes).
"""
import os
import shutil
import tempfile

from harness import sim as S

SCRATCH = os.environ.get("VERIF_SCRATCH", "/dev/shm")

# the [circus] section and the (absent) sockets are held fixed, as C12 says
HEAD = ("[circus]\ncheck_delay = 5\nendpoint = ipc:///dev/shm/verif-none-ctl\n"
        "pubsub_endpoint = ipc:///dev/shm/verif-none-pub\n\n")

# the option attributes of a Watcher (Watcher.optnames plus what __init__ stores besides)
ATTRS = ["numprocesses", "warmup_delay", "working_dir", "uid", "gid", "send_hup", "stop_signal", "stop_children",
         "shell", "shell_args", "max_retry", "cmd", "args", "respawn", "graceful_timeout", "executable",
         "use_sockets", "priority", "copy_env", "copy_path", "singleton", "stdout_stream_conf", "on_demand",
         "stderr_stream_conf", "max_age", "max_age_variance", "close_child_stdin", "close_child_stdout",
         "close_child_stderr", "autostart", "rlimits", "virtualenv", "virtualenv_py_ver", "stdin_socket", "_options"]


class RKernel(S.Kernel):
    def __init__(self, behav=None):
        S.Kernel.__init__(self, behav)
        self.spawn_args = {}
        self.spawn_env = {}

    def spawn(self, info):
        self.now += 1
        pid = S.Kernel.spawn(self, info)
        self.spawn_args[pid] = info.get("args")
        return pid


def with_environ(pairs, fn):
    saved = dict(os.environ)
    try:
        os.environ.clear()
        for k, v in pairs:
            os.environ[k] = v
        return fn()
    finally:
        os.environ.clear()
        os.environ.update(saved)


def _jsonable(v):
    if isinstance(v, dict):
        return {str(k): _jsonable(x) for k, x in v.items()}
    if isinstance(v, (list, tuple)):
        return [_jsonable(x) for x in v]
    if v is None or isinstance(v, (bool, int, float, str)):
        return v
    return repr(v)


class ReloadSim(S.Sim):
    def __init__(self, path):
        S.Sim.__init__(self, {"watchers": [], "ops": []})
        self.k = RKernel(None)
        self.path = path
        self.nreq = 0

    def setup(self):
        S.Sim.setup(self)                      # patches, loop, fake pub/stream (with a throw-away arbiter)
        import circus.arbiter as A
        import circus.process as P
        k = self.k
        Base = P.Popen                         # the fake psutil.Popen of sim.py; teardown restores the real one

        class EnvPopen(Base):                  # additionally remembers the environment handed to each worker
            def __init__(self, args, **kw):
                Base.__init__(self, args, **kw)
                env = kw.get("env")
                k.spawn_env[self.pid] = None if env is None else dict(env)
        P.Popen = EnvPopen
        self.arb = A.Arbiter.load_from_config(self.path, loop=self.loop)
        self.arb._provided_loop = False
        self.arb.evpub_socket = self.pub
        for w in self.arb.iter_watchers():     # what Arbiter.initialize does, minus zmq
            self.arb._watchers_names[w.name.lower()] = w
            w.initialize(self.pub, self.arb.sockets, self.arb)
        self.arb.ctrl.stream = self.stream
        self.arb.ctrl.started = True
        self.arb.ctrl.caller = None
        self.arb.ctrl.ctrl_socket = S._Closable()
        self.arb._running = True               # Arbiter.start() sets it once the watchers are started

    def quiesce(self, limit=20000):
        n = 0
        while self.sleepers and n < limit and not self.blocked:
            self.apply(["wake"])
            n += 1
        return n

    def start(self):
        self.k.log = []
        self.apply(["start"])
        return self.quiesce()

    def reload(self):
        self.k.log = []
        self.nreq += 1
        self.apply(["req", {"command": "reloadconfig", "id": "r%d" % self.nreq, "properties": {"waiting": True}}])
        # timers fire until the request has been answered; from then on the periodic check may run again (it is refused
        # while reloadconfig holds the exclusive slot) — one check right after the answer, then everything settles
        n = 0
        while self.sleepers and n < 20000 and not self.blocked and not any(l.startswith("o rep ") for l in self.k.log):
            self.apply(["wake"])
            n += 1
        if not self.blocked:
            self.apply(["check"])
        return n + self.quiesce()

    def check(self):
        """one periodic check of the daemon (Arbiter.manage_watchers)"""
        self.k.log = []
        self.apply(["check"])
        return self.quiesce()

    def observe(self):
        ws = []
        for w in self.arb.watchers:
            if not hasattr(w, "_verif_oid"):           # identity of the Watcher object across observations
                self.noid = getattr(self, "noid", 0) + 1
                w._verif_oid = self.noid
            attrs = {a: _jsonable(getattr(w, a, "<absent>")) for a in ATTRS}
            # the stream class is popped from the conf dict when the stream is built: the object says which class took effect
            for ch in ("stdout_stream", "stderr_stream"):
                so = getattr(w, ch, None)
                attrs[ch + "_class"] = None if so is None else type(so).__name__
            ws.append({"name": w.name, "oid": w._verif_oid, "np": w.numprocesses, "status": w._status,
                       "pids": [int(p) for p in w.processes],
                       "cfg": _jsonable(getattr(w, "_cfg", None)),
                       "attrs": attrs,
                       "env": _jsonable(w.env)})
        live = sorted(p.pid for p in self.k.procs.values() if p.state == "r")
        zomb = sorted(p.pid for p in self.k.procs.values() if p.state == "z")
        log = list(self.k.log)
        reps = [l.split(" ")[4] for l in log if l.startswith("o rep ")]
        return {"watchers": ws, "names_index": sorted(self.arb._watchers_names),
                "live": live, "zombies": zomb,
                "spawned": [int(l.split(" ")[2]) for l in log if l.startswith("o spawn ")],
                "spawn_env": {str(p): _jsonable(self.k.spawn_env.get(p)) for p in live},
                "spawn_args": {str(p): _jsonable(self.k.spawn_args.get(p)) for p in live},
                "signalled": sorted(set(int(l.split(" ")[2]) for l in log if l.startswith("o sig "))),
                "reply": reps[-1] if reps else None,
                "reply_errno": ([l.split(" ")[5] for l in log if l.startswith("o rep ")] or [None])[-1],
                "slot": self.arb._exclusive_running_command,
                "raised": list(self.raised), "errors": list(self.errors)[-3:], "blocked": bool(self.blocked)}


def run_versions(environ, texts, periodic_check=True, then_restart_all=False):
    """fresh start on texts[0], then `reloadconfig` after writing texts[1], texts[2], …
    returns one observation per text; with `then_restart_all` one more: after the last reload every watcher is stopped
    (`stop` without a name) and started again (`start` without a name), the observation carries the spawn lines in order"""
    d = tempfile.mkdtemp(prefix="verif-c12-", dir=SCRATCH)
    path = os.path.join(d, "circus.ini")

    def go():
        out = []
        with open(path, "w") as fh:
            fh.write(texts[0])
        s = ReloadSim(path)
        s.setup()
        try:
            s.start()
            out.append(s.observe())
            for t in texts[1:]:
                with open(path, "w") as fh:
                    fh.write(t)
                s.raised[:] = []
                s.errors[:] = []
                s.reload()
                o = s.observe()
                if periodic_check and not s.blocked:
                    s.check()
                    o2 = s.observe()
                    o["stable_under_check"] = ([(w["name"], w["np"], w["status"], w["pids"]) for w in o["watchers"]]
                                               == [(w["name"], w["np"], w["status"], w["pids"]) for w in o2["watchers"]]
                                               and o["live"] == o2["live"])
                out.append(o)
                if s.blocked:
                    break
            if then_restart_all and not s.blocked:
                for cmd in ("stop", "start"):
                    s.k.log = []
                    s.nreq += 1
                    s.apply(["req", {"command": cmd, "id": "x%d" % s.nreq, "properties": {"waiting": True}}])
                    s.quiesce()
                    if s.blocked:
                        break
                o = s.observe()
                o["spawn_order"] = [l.split(" ")[3] for l in s.k.log if l.startswith("o spawn ")]
                o["priorities"] = {S.enc(w.name.replace(" ", "_")): w.priority for w in s.arb.watchers}
                o["autostart"] = {S.enc(w.name.replace(" ", "_")): bool(w.autostart) for w in s.arb.watchers}
                out.append(o)
        finally:
            s.teardown()
        return out
    try:
        return with_environ(environ, go)
    finally:
        shutil.rmtree(d, ignore_errors=True)


def fresh_start(environ, text):
    return run_versions(environ, [text])[0]
