"""Property oracles over the *implementation's* trace of a core scenario (failing-input search).

Each oracle restates one property over what an outside observer sees (kernel calls, events,
replies, status snapshots); it never looks at the Lean model.  A failure is
{"sig": cause signature, "msg": …, "step": n}.  Signatures of genuine defects of the pinned
tree are listed in known_findings.json; anything else is a VIOLATION."""
import json

from harness.sim import enc, wstat_sig

EXCL = {"start", "stop", "restart", "reload", "incr", "decr", "set", "add", "rm", "quit", "reloadconfig"}
STARTISH = {"arbiter_start_watchers", "arbiter_restart", "arbiter_reload", "watcher_start", "watcher_restart",
            "watcher_reload", "watcher_do_action", "arbiter_reload_config"}
START_HOOKS = ("before_start", "before_spawn", "after_spawn", "after_start")


def dec(t):
    return "" if t == "-" else "".join(chr(int(x)) for x in t.split("."))


class Snap(object):
    def __init__(self, text):
        self.blocked = text == "s blocked"
        self.watchers, self.names, self.sleepers, self.kernel = [], [], [], {}
        self.slot, self.stopping, self.restarting, self.t = None, False, False, 0
        if self.blocked:
            return
        head, ws, names, sl, kern, t = [x.strip() for x in text[2:].split(" | ")]
        slot, flags = head.split(" ")
        self.slot = None if slot == "-" else slot
        self.stopping, self.restarting = flags[0] == "1", flags[1] == "1"
        if ws != "-":
            for w in ws.split(" "):
                name, status, np_, procs = w.split(":")
                pl = []
                if procs != "-":
                    for p in procs.split(","):
                        pid, wid, st = p.split(".")
                        pl.append((int(pid), wid, st == "1"))
                self.watchers.append({"name": dec(name), "status": status, "np": np_, "procs": pl})
        self.names = [] if names == "-" else [dec(n) for n in names.split(",")]
        self.sleepers = [] if sl == "-" else [int(x) for x in sl.split(",")]
        if kern != "-":
            for e in kern.split(","):
                pid, st, pp = e.split(":")
                self.kernel[int(pid)] = (st, None if pp == "-" else int(pp))
        self.t = int(t[2:])

    def w(self, name):
        for w in self.watchers:
            if w["name"] == name:
                return w
        return None

    def quiescent(self):
        return not self.blocked and not self.sleepers

    def descendants(self, pids):
        out = set(pids)
        changed = True
        while changed:
            changed = False
            for p, (_, pp) in self.kernel.items():
                if pp in out and p not in out:
                    out.add(p)
                    changed = True
        return out


def parse_line(l):
    t = l.split(" ")
    k = t[1]
    if k == "spawn":
        return ("spawn", int(t[2]), dec(t[3]), t[4])
    if k == "sig":
        return ("sig", int(t[2]), int(t[3]), t[4][0], t[4][1:])
    if k == "reap":
        return ("reap", int(t[2]), int(t[3]))
    if k == "ev":
        return ("ev", dec(t[2]), t[3], None if t[4] == "-" else int(t[4]), t[5])
    if k == "rep":
        return ("rep", t[2], " ".join(t[3:-3]), t[-3], t[-2], t[-1])
    return tuple(t[1:])


class Step(object):
    def __init__(self, n, st, before):
        self.n = n
        self.op = st["op"]
        self.lines = [parse_line(l) for l in st["lines"]]
        self.snap = Snap(st["snap"])
        self.before = before
        self.slept = st.get("slept", 0)
        self.reasons = st.get("reasons", [])      # reason texts of this step's error replies / refused check (side channel)
        self.opts = st.get("opts")         # digest of every watcher's option values (real Watcher.options()), or None

    def kind(self):
        return self.op[0]

    def cmd(self):
        if self.op[0] == "req" and isinstance(self.op[1], dict) and isinstance(self.op[1].get("command"), str):
            return self.op[1]["command"].lower()
        return None

    def props(self):
        if self.op[0] == "req" and isinstance(self.op[1], dict) and isinstance(self.op[1].get("properties", {}), dict):
            return self.op[1].get("properties", {})
        return {}

    def of(self, k):
        return [l for l in self.lines if l[0] == k]


def view(sc, steps):
    out = []
    init = "s - 00 | " + (" ".join("%s:stopped:%s:-" % (enc(w["name"]), w.get("np", 1)) for w in sc["watchers"]) or "-") + \
           " | " + (",".join(enc(n) for n in sorted(w["name"].lower() for w in sc["watchers"])) or "-") + " | - | - | t=0"
    before = Snap(init)
    for n, st in enumerate(steps):
        s = Step(n, st, before)
        out.append(s)
        before = s.snap
        if "o close ctrl" in st["lines"]:
            break                          # the daemon has shut down
    return out


def alive(st):
    return st in ("r", "k")


def step_nominal(s):
    """the time the daemon had scheduled this step for: a timer that fires late because the loop was busy (a blocking
    Popen that takes `spawn_ms`) still carries its own deadline"""
    if s.kind() == "wake" and s.before.sleepers:
        return s.before.t + min(s.before.sleepers)
    return s.before.t


def step_begin(s):
    """virtual time at which the code of step s started to run: a wake jumps to the deadline of the earliest timer"""
    if s.kind() == "wake" and s.before.sleepers:
        return s.before.t + max(0, min(s.before.sleepers))
    return s.before.t


def step_busy(sc, V):
    """per step: virtual time the loop was blocked in Popen calls (spawn_ms of the behaviours used)"""
    bh = sc.get("behav") or [{}]
    att = 0
    out = []
    for s in V:
        b = 0
        for l in s.lines:
            if l[0] == "execfail":
                att += 1
            elif l[0] == "spawn":
                b += bh[att % len(bh)].get("spawn_ms", 0)
                att += 1
        out.append(b)
    return out


def spawn_times(sc, V):
    """pid -> time its spawn *started* (Process.started): spawns take the time their behaviour says (`spawn_ms`);
    behaviours are assigned by attempt number, exec failures count as attempts"""
    bh = sc.get("behav") or [{}]
    att = 0
    out = {}
    for s in V:
        cur = step_begin(s)
        for l in s.lines:
            if l[0] == "execfail":
                att += 1
            elif l[0] == "spawn":
                out[l[1]] = cur
                cur += bh[att % len(bh)].get("spawn_ms", 0)
                att += 1
    return out


def unsignalable(sc, V):
    """pids the daemon is not permitted to signal (worker behaviour `eperm`, children of a `kid_eperm` worker): os.kill
    raises EPERM for them.  Behaviours are assigned by spawn attempt (exec failures count), children take the pids
    right after their parent's.  Such workers are outside "workers that obey / ignore / delay on the stop signal"."""
    bh = sc.get("behav") or [{}]
    att = 0
    out = set()
    for s in V:
        for l in s.lines:
            if l[0] == "execfail":
                att += 1
            elif l[0] == "spawn":
                b = bh[att % len(bh)]
                if b.get("eperm"):
                    out.add(l[1])
                if b.get("kid_eperm"):
                    out.update(range(l[1] + 1, l[1] + 1 + b.get("kids", 0)))
                att += 1
    return out


def refused(l):
    """a kernel `kill` line of a signal the kernel refused (EPERM): the via tag ends in `!`"""
    return l[0] == "sig" and l[4].endswith("!")


def refused_before(V, n, pids=None):
    """some signal of the daemon was refused up to (and including) step n — for one of `pids` when given"""
    return any(refused(l) and (pids is None or l[1] in pids) for x in V[:n + 1] for l in x.lines)


def watcher_family(V, n, wname_spawn):
    """every pid ever spawned for the watcher (spawn name) up to step n, with the descendants the snapshots showed"""
    own = set(l[1] for x in V[:n + 1] for l in x.lines if l[0] == "spawn" and l[2] == wname_spawn)
    fam = set(own)
    for x in V[:n + 1]:
        if not x.snap.blocked:
            fam |= x.snap.descendants(own)
    return fam


def beyond_reach(V, n, snap, pid, nosig):
    """the daemon cannot terminate worker `pid` the way the properties assume: it may not signal it, or a kill of it failed
    part-way because it may not signal one of its descendants (stop_children / the recursive SIGKILL: AccessDenied)"""
    fam = set(snap.descendants({pid}))
    for x in V[:n + 1]:                   # a descendant that has gone meanwhile was one when its signal was refused
        if not x.snap.blocked and pid in x.snap.kernel:
            fam |= x.snap.descendants({pid})
    return pid in nosig or refused_before(V, n, fam)


def res_name(n):
    return n.lower().replace(" ", "_")


def wname_matches(evname, wname):
    return evname == res_name(wname)


# ------------------------------------------------------------------------------------------------ C10

def c10(sc, V):
    f = _start_not_exclusive(V)
    for s in V:
        if s.snap.blocked:
            break
        if s.snap.quiescent() and s.snap.slot is not None:
            f.append({"sig": "slot-wedged", "step": s.n, "msg": "exclusive slot %s still taken with nothing in flight" % s.snap.slot})
        if s.kind() == "req" and s.cmd() in EXCL and s.before.slot is not None and not s.before.blocked:
            changed = [l for l in s.lines if l[0] in ("spawn", "sig", "ev")]
            same = [(w["name"], w["status"], w["np"], w["procs"]) for w in s.before.watchers] == \
                   [(w["name"], w["status"], w["np"], w["procs"]) for w in s.snap.watchers]
            if changed or not same:
                f.append({"sig": "conflicting-request-had-effect", "step": s.n,
                          "msg": "%s arrived while %s was in flight and changed something" % (s.cmd(), s.before.slot)})
            # the operation in flight only advances on timer wakes: a request step cannot end it, so the slot it
            # holds must still be held afterwards (a refused request must not free somebody else's slot)
            if s.snap.slot != s.before.slot:
                f.append({"sig": "refused-request-changed-slot", "step": s.n,
                          "msg": "%s arrived while %s was in flight; afterwards the slot is %s" % (s.cmd(), s.before.slot, s.snap.slot)})
            for r in s.of("rep"):
                if r[3] == "ok" and not ("singleton" in r[5]):
                    f.append({"sig": "conflicting-request-accepted", "step": s.n,
                              "msg": "%s answered ok while %s was in flight" % (s.cmd(), s.before.slot)})
        if s.kind() == "check" and s.before.slot is not None and not s.before.blocked and s.snap.slot != s.before.slot:
            f.append({"sig": "refused-request-changed-slot", "step": s.n,
                      "msg": "periodic check arrived while %s was in flight; afterwards the slot is %s" % (s.before.slot, s.snap.slot)})
        # "when the operation in flight ends — successfully, with an error … — the next state-changing request is accepted
        # again": with the slot free no exclusive operation is in flight, so the conflict error (util.synchronized) is wrong
        if not s.before.blocked and s.before.slot is None and s.kind() in ("req", "check", "start"):
            for reason in s.reasons:
                if reason.startswith("arbiter is already running") or reason.startswith("arbiter is restarting"):
                    # the former F33 (a failed `restart` of the arbiter left `_restarting` set; repaired by 273f512): its own
                    # signature, no longer a known finding — if it comes back it is a violation
                    f32 = reason.startswith("arbiter is restarting") and s.before.restarting
                    f.append({"sig": "wedged-after-failed-restart" if f32 else "refused-although-no-operation-in-flight",
                              "step": s.n,
                              "msg": "%s was refused with %r although the exclusive slot is free (flags stopping=%s restarting=%s)"
                                     % (s.cmd() or s.kind(), reason, s.before.stopping, s.before.restarting)})
                    break
        # `Process.stopping` says that a termination of this worker is in flight (a kill_process is polling it).  With no
        # timer pending nothing is in flight: the flag will never be cleared, and the next stop / kill of this worker waits
        # for it for ever, holding the slot (the former F34: an AccessDenied from the SIGKILL escalation left kill_process between
        # `stopping = True` and `stopping = False`; repaired by 60e14d0 — no longer a known finding, a violation if it returns)
        if s.snap.quiescent():
            stuck = [(w["name"], q[0]) for w in s.snap.watchers for q in w["procs"]
                     if q[2] and alive(s.snap.kernel.get(q[0], ("g", None))[0])]
            if stuck and not any(x.get("sig") == "stopping-flag-stuck" for x in f):
                f.append({"sig": "stopping-flag-stuck", "step": s.n,
                          "msg": "workers %r are marked `stopping` (a termination in flight) with nothing in flight: the next "
                                 "stop of them never ends" % stuck})
        # Watcher._stop runs only inside the exclusive operations (stop, restart, rm, quit, the check, a start that is
        # aborted): a watcher that reports `stop` in a timer step while the slot is free was being stopped by an operation
        # that is still in progress without being serialized (e.g. a multi-watcher stop that gave the slot back when the
        # first _stop failed).  (The socket-triggered start of on-demand watchers runs detached by design: F28.)
        # Judged for a watcher whose stop was already under way (status `stopping`) when the timer fired — a termination
        # signal that had to wait for the slot (SysHandler retries on a timer) starts and ends its own stop inside a timer step.
        if s.kind() == "wake" and s.before.slot is None and not s.before.blocked and \
                not any(c.get("on_demand") for c in sc["watchers"]) and \
                not any(x.kind() == "sig" and x.op[1] == "quit" for x in V[:s.n]):
            ev = next((l for l in s.lines if l[0] == "ev" and l[2] == "stop" and
                       any(res_name(w["name"]) == l[1] and w["status"] == "stopping" for w in s.before.watchers)), None)
            if ev is not None:
                f.append({"sig": "operation-in-progress-without-slot", "step": s.n,
                          "msg": "a timer step completed the stop of %s while the exclusive slot was free: the operation that "
                                 "stops it is in flight unserialized" % ev[1]})
        # every code path that starts a worker belongs to one of the listed state-changing operations (start, restart, reload,
        # incr, set, add, the periodic check, the daemon's own start).  A worker started by a *timer* step therefore means such
        # an operation is still in progress; if the slot is free at that moment, a request arriving now would be accepted next
        # to it — the operation is in flight without being serialized.  (The socket-triggered start of on-demand watchers runs
        # detached by design: F28.)
        if s.kind() == "wake" and s.before.slot is None and not s.before.blocked:
            for l in s.lines:
                if l[0] == "spawn":
                    cfgw = next((c for c in sc["watchers"] if c["name"].replace(" ", "_") == l[2]), None)
                    if cfgw is not None and cfgw.get("on_demand"):
                        continue
                    if any(c.get("on_demand") for c in sc["watchers"]) and any(x.kind() == "sockev" and x.op[1] for x in V[:s.n]):
                        continue          # the detached start walks over every watcher in earlier versions of the tree
                    f.append({"sig": "operation-in-progress-without-slot", "step": s.n,
                              "msg": "a timer step started worker %d of %s while the exclusive slot was free: the operation that "
                                     "does so is in flight unserialized" % (l[1], l[2])})
                    break
    return f


# ------------------------------------------------------------------------------------------------ C05

def c05(sc, V):
    f = c05_no_progress(sc, V)
    for s in V:
        if s.snap.blocked:
            # F28: the socket-triggered start of an on-demand watcher runs detached, outside the exclusive slot; a stop or
            # restart overlapping it ends in reap_processes() waiting for workers that were spawned during the stop
            od = any(c.get("on_demand") for c in sc["watchers"]) and any(x.kind() == "sockev" and x.op[1] for x in V[:s.n])
            # F35: a stop / kill that WAITED for another kill of the same worker goes on as if the worker were dead when that
            # kill ends — also when it ended by failing (SIGKILL refused: a worker the daemon may not signal); `_stop` then
            # reaps a live process: blocking waitpid loop
            nosig = unsignalable(sc, V)
            live_nosig = [p[0] for w in s.before.watchers for p in w["procs"]
                          if p[0] in nosig and alive(s.before.kernel.get(p[0], ("g", 0))[0])]
            sig = "on-demand-start-overlap" if od else \
                "blocked-reap-after-failed-kill-of-unsignalable-worker" if (live_nosig and refused_before(V, s.n, set(live_nosig))) \
                else "event-loop-blocked"
            f.append({"sig": sig, "step": s.n,
                      "msg": "daemon spins for ever inside one step (op %r)" % (s.op,)})
            break
        if s.slept > 40:
            od = any(c.get("on_demand") for c in sc["watchers"]) and any(x.kind() == "sockev" and x.op[1] for x in V[:s.n])
            f.append({"sig": "on-demand-start-overlap" if od else "event-loop-stalled", "step": s.n,
                      "msg": "event loop blocked for %d ms in one step" % s.slept})
        if s.kind() == "req" and s.cmd() in ("status", "list", "numprocesses", "numwatchers", "options", "get", "globaloptions",
                                             "stats", "dstats", "listsockets") \
                and not s.before.blocked and not _ctl_closed_before(V, s.n) and s.op[1].get("msg_type") != "cast":
            if len(s.of("rep")) != 1:
                f.append({"sig": "readonly-not-answered-at-once", "step": s.n, "msg": "%s got %d replies in its own step" % (s.cmd(), len(s.of("rep")))})
    return f


def _max_polls(sc, V):
    """the longest a kill_process may poll (100 ms steps): the largest graceful_timeout any watcher or request can have"""
    g = max([w.get("graceful_ms", 300) for w in sc["watchers"]] + [0])
    for s in V:
        p = s.props()
        if s.cmd() == "add":
            g = max(g, 30000)
            o = p.get("options")
            if isinstance(o, dict) and isinstance(o.get("graceful_timeout"), (int, float)):
                g = max(g, int(o["graceful_timeout"] * 1000))
        if s.cmd() == "set" and isinstance(p.get("options"), dict) and isinstance(p["options"].get("graceful_timeout"), (int, float)):
            g = max(g, int(p["options"]["graceful_timeout"] * 1000))
        if s.cmd() == "kill" and isinstance(p.get("graceful_timeout"), (int, float)):
            g = max(g, int(p["graceful_timeout"] * 1000))
    return (g + 99) // 100


def c05_no_progress(sc, V):
    """ "Every accepted state-changing request finishes": an operation holds the slot while timer after timer fires and
    nothing at all happens — no kernel call that shows, no event, no reply, the same snapshot but for the clock — for
    longer than any grace period in force: it is waiting for something that will not come"""
    f = []
    lim = _max_polls(sc, V) + 3
    run = 0
    for s in V:
        if s.snap.blocked:
            break
        # … and the timers it waits on are the same as before, relative to the clock: the timer that fired was armed again
        # as it was and no other timer came closer (a long warmup that is still counting down is progress)
        same = s.kind() == "wake" and not s.lines and s.snap.slot is not None and s.before.slot == s.snap.slot and \
            s.before.sleepers and sorted(s.snap.sleepers) == sorted(s.before.sleepers) and \
            [(w["name"], w["status"], w["np"], w["procs"]) for w in s.before.watchers] == \
            [(w["name"], w["status"], w["np"], w["procs"]) for w in s.snap.watchers] and s.before.kernel == s.snap.kernel
        run = run + 1 if same else 0
        if run > lim:
            stuck = [(w["name"], q[0]) for w in s.snap.watchers for q in w["procs"] if q[2]]
            f.append({"sig": "stopping-flag-stuck" if stuck else "operation-makes-no-progress", "step": s.n,
                      "msg": "%s holds the slot; %d timer firings in a row changed nothing (longest grace period: %d polls)%s"
                             % (s.snap.slot, run, lim - 3, "; workers marked stopping: %r" % stuck if stuck else "")})
            break
    return f


def _ctl_closed_before(V, n):
    for s in V[:n]:
        if ("close", "ctrl") in [tuple(l[:2]) for l in s.lines]:
            return True
    return False


# ------------------------------------------------------------------------------------------------ C06

def c06(sc, V):
    f = []
    pending = {}      # (cid, idtext) -> step
    closed = False
    for s in V:
        if s.snap.blocked:
            break
        reps = s.of("rep")
        if s.kind() in ("req", "raw", "xreq") and not closed:
            cid = "c%d" % (s.op[2] if len(s.op) > 2 else 0)
            if s.kind() == "raw":
                from harness.coreenc import parse_raw
                ok, val = parse_raw(s.op[1])
                msg = val if ok else None
            else:
                msg = s.op[1]
            isobj = isinstance(msg, dict)
            cast = isobj and msg.get("msg_type") == "cast"
            from harness.sim import encj
            idtext = encj(msg.get("id")) if isobj else "n"
            mine = [r for r in reps if r[1] == cid and r[2] == idtext]
            waiting = isobj and isinstance(msg.get("properties"), dict) and bool(msg["properties"].get("waiting"))
            if cast:
                if mine and isobj:
                    f.append({"sig": "reply-to-cast", "step": s.n, "msg": "cast message was answered"})
            else:
                if len(mine) > 1:
                    f.append({"sig": "duplicate-reply", "step": s.n, "msg": "%d replies for one request" % len(mine)})
                elif len(mine) == 0:
                    if waiting:
                        pending[(cid, idtext)] = s.n
                    else:
                        f.append({"sig": "no-reply", "step": s.n, "msg": "request %r got no reply" % (s.op[1],)})
                for r in mine:
                    cmd = msg.get("command") if isobj else None
                    named_status = isinstance(cmd, str) and cmd.lower() == "status" and isobj and \
                        isinstance(msg.get("properties"), dict) and "name" in msg["properties"]
                    if r[3] not in ("ok", "error") and not (named_status and r[3] in ("stopped", "active", "starting", "stopping")):
                        f.append({"sig": "malformed-reply-status", "step": s.n, "msg": "status %s" % r[3]})
            others = [r for r in reps if r not in mine]
        else:
            others = reps
        for r in others:
            key = (r[1], r[2])
            if key in pending:
                del pending[key]
            else:
                f.append({"sig": "unsolicited-reply", "step": s.n, "msg": "reply %r answers no outstanding request" % (r,)})
        if any(l[0] == "close" and l[1] == "ctrl" for l in s.lines):
            closed = True
    last = V[-1].snap if V else None
    if last is not None and last.quiescent():
        for (cid, idt), n in pending.items():
            cmd = V[n].cmd()
            sig = "waiting-never-answered"
            if closed and cmd in ("quit", "restart"):
                sig = "waiting-shutdown-never-answered"
            f.append({"sig": sig, "step": n, "msg": "waiting %s request was never answered although nothing is in flight" % cmd})
    return f


# ------------------------------------------------------------------------------------------------ C11

def _option_invalid(k, v):
    """documented typing of the options the generator uses (commands/util.py validate_option): True = must be refused"""
    isint = isinstance(v, int)                       # bool is an int for Python
    isnum = isinstance(v, (int, float))
    if k in ("numprocesses", "max_retry", "max_age", "stop_signal"):
        return not isint
    if k in ("warmup_delay", "graceful_timeout", "retry_in"):
        return not isnum
    if k in ("send_hup", "stop_children", "respawn", "shell", "copy_env"):
        return not isinstance(v, bool)
    if k in ("uid", "gid"):
        return not (isint or isinstance(v, str))
    if k in ("cmd", "args", "working_dir", "singleton"):
        return False
    return None                                      # not a key this oracle knows about (e.g. bogus_key is invalid, hooks.* valid)


def c11(sc, V):
    f = []
    for s in V:
        if s.kind() not in ("req", "raw") or s.before.blocked or s.snap.blocked:
            continue
        # "every option of a multi-option set … is validated before any of them is applied": an ill-typed value anywhere in
        # the request means a validation error (errno 3) and no effect at all
        if s.cmd() == "set" and isinstance(s.props().get("options"), dict) and isinstance(s.props().get("name"), str) and \
                s.op[1].get("msg_type") != "cast" and any(_option_invalid(k, v) is True for k, v in s.props()["options"].items()):
            reps = s.of("rep")
            eff0 = [l for l in s.lines if l[0] in ("spawn", "ev", "reap") or (l[0] == "sig" and l[3] != "g")]
            if reps and (reps[0][3] != "error" or reps[0][4] != "3" or eff0):
                f.append({"sig": "ill-typed-option-not-refused-by-validation", "step": s.n,
                          "msg": "set with an ill-typed option was answered %s/%s%s" % (reps[0][3], reps[0][4], " and had effects" if eff0 else "")})
                continue
        errs = [r for r in s.of("rep") if r[3] == "error" and r[4] in ("1", "2", "3", "4", "5")]
        if not errs:
            continue
        if s.cmd() == "signal" and errs[0][4] == "5":
            # `signal` takes no slot, so its errno 5 is never a conflict: it is an exception raised while delivering
            # (a target vanished, a foreign pid with children/recursive) — not a validation-class refusal
            continue
        eff = [l for l in s.lines if l[0] in ("spawn", "ev", "reap", "close") or (l[0] == "sig" and l[3] != "g")]
        b, a = s.before, s.snap
        same = (b.names == a.names and [(w["name"], w["status"], w["np"], w["procs"]) for w in b.watchers] ==
                [(w["name"], w["status"], w["np"], w["procs"]) for w in a.watchers] and
                b.stopping == a.stopping and b.slot == a.slot)
        # "… watchers, options, statuses, worker pids exactly as they were": the option values of every watcher, read through
        # the real Watcher.options() after each step (all of them: cmd, env, uid, … too)
        prev = V[s.n - 1].opts if s.n > 0 else None
        opts_changed = prev is not None and s.opts is not None and prev != s.opts
        if eff or not same or opts_changed:
            sig = "refused-request-had-effect" if (eff or not same) else "refused-request-changed-options"
            p = s.props()
            # F4 is about a *later* option failing after earlier ones were applied: it needs at least two options
            if s.cmd() == "set" and isinstance(p.get("options"), dict) and len(p["options"]) >= 2 and eff and \
                    all(l[0] == "ev" and l[2] == "updated" for l in eff):
                sig = "set-partially-applied"
            f.append({"sig": sig, "step": s.n, "msg": "%s was refused (errno %s) but changed the daemon" % (s.cmd(), errs[0][4])})
    return f


# ------------------------------------------------------------------------------------------------ C15

def c15(sc, V):
    f = []
    for s in V:
        a = s.snap
        if a.blocked:
            break
        lows = sorted(w["name"].lower() for w in a.watchers)
        if lows != sorted(a.names) or len(set(lows)) != len(lows):
            f.append({"sig": "directory-incoherent", "step": s.n, "msg": "list %r vs dict %r" % (lows, a.names)})
        if s.kind() == "req":
            for r in s.of("rep"):
                body = r[5]
                if s.cmd() == "list" and body.startswith("watchers="):
                    got = sorted(dec(x) for x in body[len("watchers="):].split(",") if x)
                    if got != lows:
                        f.append({"sig": "list-disagrees", "step": s.n, "msg": "list says %r, watchers are %r" % (got, lows)})
                if s.cmd() == "numwatchers" and body.startswith("numwatchers="):
                    if int(body.split("=")[1]) != len(a.watchers):
                        f.append({"sig": "numwatchers-disagrees", "step": s.n, "msg": body})
                if s.cmd() == "status" and body.startswith("statuses="):
                    got = sorted(dec(x.split(":")[0]).lower() for x in body[len("statuses="):].split(",") if x)
                    if got != lows:
                        f.append({"sig": "statuses-disagree", "step": s.n, "msg": "%r vs %r" % (got, lows)})
                if s.cmd() == "stats" and body.startswith("infos=") and "name" not in s.props():
                    got = sorted(dec(x.split(":")[0]).lower() for x in body[len("infos="):].split(";") if x)
                    if got != lows:
                        f.append({"sig": "stats-disagrees", "step": s.n,
                                  "msg": "stats describes the watchers %r, the directory has %r" % (got, lows)})
                p = s.props()
                if s.cmd() in ("options", "get") and r[3] == "ok" and body.startswith("options=") and isinstance(p.get("name"), str):
                    # the request reached the watcher of that name (whatever the letter case) and no other: the numprocesses
                    # it reports is that watcher's
                    got = dict(x.split(":", 1) for x in body[len("options="):].split(";") if ":" in x)
                    mine = [w for w in a.watchers if w["name"].lower() == p["name"].lower()]
                    if "numprocesses" in got and (len(mine) != 1 or str(mine[0]["np"]) != got["numprocesses"]):
                        f.append({"sig": "options-of-another-watcher", "step": s.n,
                                  "msg": "%s %r reports numprocesses=%s, the watcher has %r" %
                                         (s.cmd(), p["name"], got["numprocesses"], [w["np"] for w in mine])})
                if s.cmd() == "add" and r[3] == "ok" and isinstance(p.get("name"), str):
                    if p["name"].lower() not in a.names:
                        f.append({"sig": "add-ok-but-absent", "step": s.n, "msg": "add %r answered ok but no such watcher" % p["name"]})
                # a request that names a watcher reaches that watcher and no other: start/stop/restart match the
                # lower-cased name (exactly, or as a glob), so whatever changes in this step belongs to a matching watcher
                if s.cmd() in ("start", "stop", "restart") and isinstance(p.get("name"), str) and \
                        p.get("match", "glob") in ("glob", "simple") and s.before.slot is None:
                    import fnmatch
                    pat = p["name"].lower()
                    hit = (lambda n: n.lower() == pat) if p.get("match") == "simple" else \
                        (lambda n: fnmatch.fnmatchcase(n.lower(), pat))
                    if "[" not in pat:
                        for wb in s.before.watchers:
                            wa = a.w(wb["name"])
                            touched = wa is None or (wa["status"], wa["procs"]) != (wb["status"], wb["procs"]) or \
                                any(m[0] == "ev" and m[1] == res_name(wb["name"]) for m in s.lines)
                            other_same_res = any(x["name"] != wb["name"] and res_name(x["name"]) == res_name(wb["name"])
                                                 for x in s.before.watchers)
                            if touched and not hit(wb["name"]) and not other_same_res:
                                f.append({"sig": "request-reached-other-watcher", "step": s.n,
                                          "msg": "%s %r changed watcher %r" % (s.cmd(), p["name"], wb["name"])})
                        if r[4] == "3" and any(hit(wb["name"]) for wb in s.before.watchers):
                            f.append({"sig": "case-variant-not-found", "step": s.n,
                                      "msg": "%s %r not found although a watcher matches" % (s.cmd(), p["name"])})
                if s.cmd() in ("status", "numprocesses", "list", "incr", "decr", "kill", "signal", "rm", "set", "reload",
                               "options", "get") and \
                        isinstance(p.get("name"), str) and p["name"].lower() in s.before.names and r[4] == "3" and \
                        _has_required(s.cmd(), p):
                    f.append({"sig": "case-variant-not-found", "step": s.n, "msg": "%s %r not found although it exists" % (s.cmd(), p["name"])})
    return f


def _has_required(cmd, p):
    if cmd == "signal":
        from harness.coregen import SIGS  # noqa
        return isinstance(p.get("signum"), int) and not isinstance(p.get("signum"), bool) and 0 < p["signum"] < 65
    if cmd == "set":
        return False
    if cmd == "kill":
        return "signum" not in p
    if cmd in ("incr", "decr"):
        return "nb" not in p or (isinstance(p["nb"], int) and not isinstance(p["nb"], bool))
    if cmd == "get":
        # errno 3 is also the answer to a key that is no option name
        return isinstance(p.get("keys"), list) and all(isinstance(k, str) and k in WATCHER_OPTNAMES for k in p["keys"])
    return True


# Watcher.optnames as documented (commands/options.py, watcher.py): the names `get` accepts
WATCHER_OPTNAMES = ("numprocesses", "warmup_delay", "working_dir", "uid", "gid", "send_hup", "stop_signal", "stop_children",
                    "shell", "shell_args", "env", "max_retry", "cmd", "args", "respawn", "graceful_timeout", "executable",
                    "use_sockets", "priority", "copy_env", "singleton", "stdout_stream_conf", "on_demand", "stderr_stream_conf",
                    "max_age", "max_age_variance", "close_child_stdin", "close_child_stdout", "close_child_stderr")


# ------------------------------------------------------------------------------------------------ C18 (confinement)

def c18(sc, V):
    f = []
    for s in V:
        if s.kind() != "req" or s.cmd() not in ("signal", "kill") or s.before.blocked:
            continue
        p = s.props()
        sigs = [l for l in s.lines if l[0] == "sig"]
        name = p.get("name")
        w = None
        if isinstance(name, str):
            for x in s.before.watchers:
                if x["name"].lower() == name.lower():
                    w = x
        # "all active workers of the named watcher": a `signal` addressed to the whole watcher and answered ok reaches every
        # listed worker that is alive — one that is being stopped (its kill is in its grace period) included
        if (s.cmd() == "signal" and w is not None and isinstance(p, dict) and not any(k in p for k in ("pid", "children", "recursive", "childpid"))
                and isinstance(p.get("signum"), int) and not isinstance(p.get("signum"), bool) and 1 <= p["signum"] <= 64
                and any(r[3] == "ok" for r in s.of("rep")) and not (s.n > 0 and V[s.n - 1].kind() == "fault")):
            cfgw = next((c for c in sc["watchers"] if c["name"] == w["name"]), None)
            hooked = cfgw is None or any(h in (cfgw.get("hooks") or {}) for h in ("before_signal", "after_signal")) or \
                any(x.kind() == "req" and x.cmd() in ("set", "add", "rm") for x in V[:s.n])
            if not hooked:
                got = set(l[1] for l in sigs)
                # alive before AND after the step: a worker whose death was already under way (a stop signal it obeys after a
                # latency that has run out) shows as running in the snapshot before and turns out dead when it is looked at
                missed = sorted(pp[0] for pp in w["procs"] if alive(s.before.kernel.get(pp[0], ("g", 0))[0]) and
                                alive(s.snap.kernel.get(pp[0], ("g", 0))[0]) and pp[0] not in got)
                if missed:
                    f.append({"sig": "signal-misses-active-worker", "step": s.n,
                              "msg": "signal %s to the whole watcher %r answered ok, live listed worker(s) %r got nothing (signalled: %r)"
                                     % (p["signum"], name, missed, sorted(got))})
        if not sigs:
            continue
        own = set(pp[0] for pp in w["procs"]) if w else set()
        allowed = s.before.descendants(own)
        for l in sigs:
            if l[1] not in allowed:
                f.append({"sig": "signal-outside-watcher", "step": s.n,
                          "msg": "%s request for %r signalled pid %d which is not one of its workers/descendants" % (s.cmd(), name, l[1])})
        # "the single given pid if it is one of them": a pid that is no worker of the named watcher (0, null, a foreign or dead
        # pid, anything that is not a pid) addresses nobody — the request must not fall back to the whole watcher
        if "pid" in p and not (isinstance(p["pid"], int) and not isinstance(p["pid"], bool) and p["pid"] in own):
            f.append({"sig": "signal-to-unaddressed-workers", "step": s.n,
                      "msg": "%s request for %r with pid %r (not a worker of it) signalled %r"
                             % (s.cmd(), name, p["pid"], sorted(set(l[1] for l in sigs)))})
        if s.cmd() == "signal" and isinstance(p.get("signum"), int) and not isinstance(p.get("signum"), bool):
            for l in sigs:
                if l[2] != p["signum"]:
                    f.append({"sig": "wrong-signal-sent", "step": s.n, "msg": "asked for %s, sent %d" % (p["signum"], l[2])})
            if "pid" in p and isinstance(p["pid"], int) and p["pid"] in own and not p.get("children") and \
                    not p.get("recursive") and not p.get("childpid"):
                tg = set(l[1] for l in sigs)
                if tg - {p["pid"]}:
                    f.append({"sig": "signal-not-precise", "step": s.n, "msg": "pid %s addressed, %r signalled" % (p["pid"], sorted(tg))})
        # "that worker's children when asked": with childpid only that child of the given worker is addressed
        if s.cmd() == "signal" and p.get("childpid") and not p.get("recursive") and not p.get("children"):
            tg = set(l[1] for l in sigs)
            if tg - {p["childpid"]}:
                f.append({"sig": "signal-not-precise", "step": s.n,
                          "msg": "childpid %r of worker %r addressed, %r signalled" % (p["childpid"], p.get("pid"), sorted(tg))})
        errs = [r for r in s.of("rep") if r[3] == "error" and r[4] == "3"]
        if errs and sigs:
            f.append({"sig": "refused-signal-sent", "step": s.n, "msg": "request refused as invalid but a signal was sent"})
    return f


# ------------------------------------------------------------------------------------------------ C03

def _graceful_at(sc, V, n, wname):
    """the watcher's graceful timeout (ms) in force before step n"""
    g = None
    for w in sc["watchers"]:
        if w["name"] == wname:
            g = w.get("graceful_ms", 300)
    for s in V[:n]:
        if s.kind() != "req":
            continue
        p = s.props()
        if s.cmd() == "add" and p.get("name") == wname and any(r[3] == "ok" for r in s.of("rep")):
            g = 30000
            o = p.get("options") or {}
            if isinstance(o, dict) and isinstance(o.get("graceful_timeout"), (int, float)):
                g = int(round(o["graceful_timeout"] * 1000))
        if s.cmd() == "set" and isinstance(p.get("name"), str) and p["name"].lower() == wname.lower():
            o = p.get("options")
            if isinstance(o, dict) and isinstance(o.get("graceful_timeout"), (int, float)):
                # `set` applies its options one by one, in the order of the request, and stops at the first that raises
                # (F4); every applied option publishes one `updated` event: graceful_timeout is in force only if the
                # request got as far as that key
                n_upd = sum(1 for l in s.lines if l[0] == "ev" and l[2] == "updated")
                ks = list(o.keys())
                idx = ks.index("graceful_timeout")
                need = 1 if "hooks" in ks[:idx] else idx + 1
                if n_upd >= need:
                    g = int(round(float(o["graceful_timeout"]) * 1000))
    return g


def _stopsig_at(sc, V, n, wname):
    g = 15
    for w in sc["watchers"]:
        if w["name"] == wname:
            g = w.get("stop_signal", 15)
    for s in V[:n]:
        if s.kind() != "req":
            continue
        p = s.props()
        if s.cmd() == "add" and p.get("name") == wname and any(r[3] == "ok" for r in s.of("rep")):
            g = 15
            o = p.get("options") or {}
            if isinstance(o, dict) and isinstance(o.get("stop_signal"), int):
                g = o["stop_signal"]
        if s.cmd() == "set" and isinstance(p.get("name"), str) and p["name"].lower() == wname.lower():
            o = p.get("options")
            if isinstance(o, dict) and isinstance(o.get("stop_signal"), int) and not isinstance(o.get("stop_signal"), bool) and \
                    any(l[0] == "ev" and l[2] == "updated" for l in s.lines):
                g = o["stop_signal"]
    return g


def _sigkilled_before(V, n, pid):
    """SIGKILL was delivered to pid (a refused one kills nobody)"""
    return any(l[0] == "sig" and l[1] == pid and l[2] == 9 and l[3] in ("r", "z") and not refused(l)
               for x in V[:n + 1] for l in x.lines)


def _sigkill_attempted(V, n, pid):
    """the daemon tried to SIGKILL pid: delivered, or refused by the kernel (EPERM)"""
    return any(l[0] == "sig" and l[1] == pid and l[2] == 9 and l[3] in ("r", "z") for x in V[:n + 1] for l in x.lines)


def c03(sc, V):
    f = []
    busy = step_busy(sc, V)
    owner = {}                # pid -> watcher name
    stop_sent = {}            # pid -> (t, sig, T)
    veto = set(w["name"] for w in sc["watchers"] if "before_signal" in (w.get("hooks") or {}))
    # a watcher that has been removed (`rm`) is no longer in the snapshot: its workers are then known by the name of
    # their spawn line (blanks as underscores)
    # … and a before_signal hook may be installed at run time (`set <w> hooks.before_signal …` / the `hooks` dict): from that
    # request on the watcher's stop signals can be vetoed too (thorough seed 0 of session 5)
    for x in V:
        if x.kind() == "req" and x.cmd() == "set" and isinstance(x.op[1].get("properties"), dict):
            pr = x.op[1]["properties"]
            o = pr.get("options")
            if isinstance(pr.get("name"), str) and isinstance(o, dict) and \
                    ("hooks.before_signal" in o or (isinstance(o.get("hooks"), dict) and "before_signal" in o["hooks"])):
                veto |= set(w["name"] for w in sc["watchers"] if w["name"].lower() == pr["name"].lower())
    veto |= set(n.replace(" ", "_") for n in veto)
    for s in V:
        if s.before.blocked:
            break
        t = s.before.t if s.kind() != "wake" else None
        for i, l in enumerate(s.lines):
            if l[0] == "spawn":
                owner[l[1]] = l[2]
        now = s.snap.t if not s.snap.blocked else s.before.t
        t_start = step_begin(s)            # clock when the step's code started running (after a wake's jump)
        for i, l in enumerate(s.lines):
            if l[0] != "sig" or l[4] in ("x",):
                continue
            pid, sg, st, via = l[1], l[2], l[3], l[4]
            wn = owner.get(pid)
            if wn is None:
                continue
            wn_real = next((w["name"] for w in s.before.watchers if w["name"].replace(" ", "_") == wn), wn)
            is_kill = any(m[0] == "ev" and m[2] == "kill" and m[3] == pid for m in s.lines[i + 1:i + 3])
            # a kill_process that fails right after this signal (stop_children: the daemon may not signal a child of the
            # worker, AccessDenied) never reaches its grace period: the worker's termination starts with a later stop signal
            aborted = any(refused(m) and s.before.kernel.get(m[1], (None, None))[1] == pid for m in s.lines[i + 1:])
            if sg != 9 and via == "" and st == "r" and pid not in stop_sent and is_kill and not aborted:
                # a `set` request applies all its options before it re-evaluates the process set
                T = _graceful_at(sc, V, s.n + (1 if s.cmd() == "set" else 0), wn_real)
                if s.cmd() == "kill":
                    gt = s.props().get("graceful_timeout")
                    if isinstance(gt, (int, float)) and not isinstance(gt, bool):
                        T = int(round(gt * 1000))
                stop_sent[pid] = ((t_start, now), sg, T, s.n)
            if sg == 9 and via == "" and st == "r" and s.kind() == "wake":
                if wn_real in veto:
                    continue
                if pid not in stop_sent:
                    if _stopsig_at(sc, V, s.n, wn_real) != 9:
                        f.append({"sig": "sigkill-without-stop-signal", "step": s.n, "msg": "pid %d got SIGKILL but never the stop signal" % pid})
                else:
                    (t0a, t0b), _, T, n0 = stop_sent[pid]
                    # time the loop spent blocked in Popen since then stretches every 100 ms poll
                    slack = sum(busy[n0:s.n + 1])
                    if T is not None and now < t0a + T and not s.snap.blocked:      # a hanging step has no end time
                        f.append({"sig": "sigkill-early", "step": s.n,
                                  "msg": "pid %d SIGKILLed at most %d ms after the stop signal, graceful_timeout %d ms" % (pid, now - t0a, T)})
                    if T is not None and step_nominal(s) > t0b + T + 100 + slack:
                        f.append({"sig": "sigkill-late", "step": s.n,
                                  "msg": "pid %d SIGKILLed at least %d ms after the stop signal, graceful_timeout %d ms" % (pid, step_nominal(s) - t0b, T)})
        # a worker that outlives its grace period gets SIGKILL: Process.stop()'s terminate() (the trace marks it
        # "t") only ever finds a live process when kill_process gave up waiting without escalating
        for i, l in enumerate(s.lines):
            if l[0] == "sig" and l[2] == 15 and l[3] == "r" and l[4] == "t" and l[1] in owner and l[1] in stop_sent:
                wn_real = next((w["name"] for w in s.before.watchers if w["name"].replace(" ", "_") == owner[l[1]]), owner[l[1]])
                if not _sigkill_attempted(V, s.n, l[1]) and wn_real not in veto and not _after_spawn_failed(V, s.n, l[1]):
                    f.append({"sig": "no-sigkill-after-grace-period", "step": s.n,
                              "msg": "the wait for pid %d ended with the worker alive and no SIGKILL was sent" % l[1]})
        # a kill request that names a signal: that is the stop signal its targets get
        if s.cmd() == "kill" and isinstance(s.props().get("signum"), int) and not isinstance(s.props().get("signum"), bool) \
                and 0 < s.props().get("signum") < 65 and isinstance(s.props().get("name"), str):
            wb = next((w for w in s.before.watchers if w["name"].lower() == s.props()["name"].lower()), None)
            own = set(q[0] for q in wb["procs"]) if wb else set()
            for l in s.lines:
                if l[0] == "sig" and l[4] == "" and l[1] in own and l[2] not in (s.props()["signum"], 9):
                    f.append({"sig": "requested-stop-signal-not-used", "step": s.n,
                              "msg": "kill asked for signal %d, pid %d got %d" % (s.props()["signum"], l[1], l[2])})
        # stop_children: the stop signal and the final SIGKILL reach the direct children too
        for i, l in enumerate(s.lines):
            if l[0] == "sig" and l[4] == "" and l[3] == "r" and l[1] in owner:
                wn = owner[l[1]]
                w = next((w for w in s.before.watchers if w["name"].replace(" ", "_") == wn), None)
                cfg = next((c for c in sc["watchers"] if c["name"].replace(" ", "_") == wn), None)
                if w is None or cfg is None:
                    continue
                kids = [p for p, (stt, pp) in s.before.kernel.items() if pp == l[1] and stt == "r"]
                if not kids:
                    continue
                in_kill = any(m[0] == "ev" and m[2] == "kill" and m[3] == l[1] for m in s.lines[i + 1:i + 3])
                # the configured stop_children is in force only while no `set` touched the watcher and no `add` created a
                # namesake with default options (rm + add of the same name: stop_children is off again)
                is_stop = l[2] != 9 and in_kill and s.cmd() not in ("signal",) and cfg.get("stop_children") and \
                    not any(x.cmd() in ("set", "add") for x in V[:s.n + 1])
                is_final = l[2] == 9 and s.kind() == "wake" and cfg.get("stop_children") and \
                    not any(x.cmd() in ("set", "add") for x in V[:s.n + 1])
                # a child the daemon may not signal ends the loop over the children with AccessDenied: what the children
                # after it get is outside C03's quantifier (worker behaviours: obey / ignore / delay)
                if (is_stop or is_final) and any(refused(m) for m in s.lines):
                    continue
                if is_stop or is_final:
                    got = set(m[1] for m in s.lines if m[0] == "sig" and m[2] == l[2])
                    # a child that died by itself during the step (armed fault) cannot be signalled
                    lost = [k for k in kids if k not in got and alive(s.snap.kernel.get(k, ("g", None))[0])]
                    if lost:
                        # F20: the children are looked up again through the worker after it got the signal; when
                        # the signal killed it at once they are re-parented and no longer found (own signature)
                        parent_gone = not alive(s.snap.kernel.get(l[1], ("g", None))[0])
                        f.append({"sig": "children-signal-lost-worker-died-first" if parent_gone else
                                  ("children-sigkill-lost" if is_final else "children-stop-signal-lost"), "step": s.n,
                                  "msg": "children %r of worker %d did not get signal %d" % (lost, l[1], l[2])})
    return f


# ------------------------------------------------------------------------------------------------ C02

def _addressed(s):
    """lower-cased names of the watchers a start / restart / reload request addresses; None = all of them (no name,
    or a name / match value whose handling is not plain: the oracle then keeps to the coarse rule)"""
    import fnmatch
    props = s.props()
    name = props.get("name")
    if "name" not in props:
        return None
    if not isinstance(name, str):
        return None
    # start / stop / restart match by glob unless told otherwise; reload always looks the name up
    match = "simple" if s.cmd() == "reload" else props.get("match", "glob")
    names = [w["name"].lower() for w in s.before.watchers]
    if match == "simple":
        return set(n for n in names if n == name.lower())
    if match == "glob" and "[" not in name:
        return set(n for n in names if fnmatch.fnmatchcase(n, name.lower()))
    return None


def c02(sc, V):
    f = []
    nosig = unsignalable(sc, V)
    pids_of = {}          # spawn-name -> [pids]
    nostop = set()
    rm_pending = []
    sock_seen = False
    enabled_in_flight = None
    for s in V:
        if s.before.blocked:
            break
        for l in s.lines:
            if l[0] == "spawn":
                pids_of.setdefault(l[2], []).append(l[1])
            if l[0] == "ev" and l[2] == "remove":
                # the watcher is gone; a later watcher of the same name is a different watcher with its own workers
                for key in [k for k in pids_of if k.lower() == l[1]]:
                    del pids_of[key]
        if s.cmd() == "rm" and s.props().get("nostop"):
            n = s.props().get("name")
            if isinstance(n, str):
                nostop.add(n.lower().replace(" ", "_"))
        if s.snap.blocked:
            break
        for li, l in enumerate(s.lines):
            if l[0] == "ev" and l[2] == "stop":
                evn = l[1]
                w = next((w for w in s.snap.watchers if res_name(w["name"]) == evn), None)
                later = [m for m in s.lines[li + 1:] if (m[0] == "spawn" and m[2].lower() == evn) or
                         (m[0] == "ev" and m[1] == evn and m[2] in ("start", "spawn", "hook_success", "hook_failure"))]
                if w is not None and (w["status"] != "stopped" or w["procs"]) and not later:
                    f.append({"sig": "stop-event-but-not-stopped", "step": s.n, "msg": "%s: %s %r" % (evn, w["status"], w["procs"])})
                after = set(m[1] for m in s.lines[li + 1:] if m[0] == "spawn")
                for key, pids in pids_of.items():
                    if key.lower() != evn:
                        continue
                    wb = next((x for x in s.before.watchers if res_name(x["name"]) == evn), None)
                    listed_before = set(q[0] for q in wb["procs"]) if wb else set()
                    surv = [p for p in pids if p not in after and not _sigkilled_before(V, s.n, p) and
                            not beyond_reach(V, s.n, s.snap, p, nosig) and
                            (s.snap.kernel.get(p, ("g", None))[0] == "r" or
                             (s.snap.kernel.get(p, ("g", None))[0] == "z" and p in listed_before))]
                    if surv:
                        sig = "survivor-after-stop"
                        if all(_after_spawn_failed(V, s.n, p) for p in surv):
                            sig = "survivor-after-stop@after_spawn-failure"
                        f.append({"sig": sig, "step": s.n,
                                  "msg": "watcher %s reported stopped but its workers %r are still %s" %
                                         (evn, surv, [s.snap.kernel[p][0] for p in surv])})
        # a completed rm (its exclusive slot is free again) leaves no worker of the removed watcher behind
        if s.cmd() == "rm" and not s.props().get("nostop") and isinstance(s.props().get("name"), str):
            n = s.props().get("name").lower()
            wb = next((w for w in s.before.watchers if w["name"].lower() == n), None)
            if wb is not None and n in [x.lower() for x in s.before.names] and n not in [x.lower() for x in s.snap.names]:
                rm_pending.append((res_name(wb["name"]), [q[0] for q in wb["procs"]]))
        if rm_pending and s.snap.slot != "arbiter_rm_watcher":
            for evn, pids in rm_pending:
                surv = [p for p in pids if s.snap.kernel.get(p, ("g", None))[0] == "r" and not _sigkilled_before(V, s.n + 1, p)
                        and not beyond_reach(V, s.n, s.snap, p, nosig)]
                if surv:
                    f.append({"sig": "survivor-after-rm", "step": s.n,
                              "msg": "rm of %s has completed but its workers %r are still running" % (evn, surv)})
            rm_pending = []
        # stopped stays stopped — until a start / restart / reload that *addresses* the watcher (or the daemon's own
        # start, a reload signal, an add): a request by name or pattern enables only the watchers it names
        enabling = s.kind() == "start" or (s.kind() == "sig" and s.op[1] == "reload") or \
            s.cmd() in ("start", "restart", "reload", "add", "reloadconfig") or \
            (s.kind() == "wake" and s.before.slot in STARTISH)
        addressed = None                   # None = every watcher
        if s.cmd() in ("start", "restart", "reload"):
            addressed = _addressed(s)
            if s.before.slot is None and s.snap.slot in STARTISH:
                enabled_in_flight = addressed
        elif s.kind() == "start" or (s.kind() == "sig" and s.op[1] == "reload") or s.cmd() in ("add", "reloadconfig"):
            if s.before.slot is None and s.snap.slot in STARTISH:
                enabled_in_flight = None
        elif s.kind() == "wake" and s.before.slot in STARTISH:
            addressed = enabled_in_flight
        if s.kind() == "sockev":
            sock_seen = bool(s.op[1])
        if enabling and addressed is not None:
            for l in s.lines:
                if l[0] == "spawn":
                    w = next((w for w in s.before.watchers if w["name"].replace(" ", "_") == l[2]), None)
                    if w is not None and w["status"] == "stopped" and w["name"].lower() not in addressed:
                        f.append({"sig": "spawn-for-stopped-watcher-not-addressed", "step": s.n,
                                  "msg": "op %r spawned %d for the stopped watcher %s, which the request does not address (%s)"
                                         % (s.op, l[1], l[2], sorted(addressed))})
        if not enabling:
            for l in s.lines:
                if l[0] == "spawn":
                    w = next((w for w in s.before.watchers if w["name"].replace(" ", "_") == l[2]), None)
                    if w is not None and sock_seen and (s.kind() == "check" or s.before.slot == "manage_watchers") and \
                            any(c.get("on_demand") and c["name"] == w["name"] for c in sc["watchers"]):
                        continue          # "or a socket event arrives for an on-demand watcher": seen by the periodic check
                    if w is not None and w["status"] == "stopped":
                        f.append({"sig": "spawn-for-stopped-watcher", "step": s.n,
                                  "msg": "op %r spawned %d for stopped watcher %s" % (s.op, l[1], l[2])})
    return f


# ------------------------------------------------------------------------------------------------ C04

def c04(sc, V):
    f = []
    nosig = unsignalable(sc, V)
    spawned = {}
    orphaned_ok = set()
    raised = False
    for s in V:
        if s.snap.blocked:
            break
        for l in s.lines:
            if l[0] == "spawn":
                spawned[l[1]] = l[2]
            if l[0] == "raised":
                raised = True
        if s.cmd() == "rm" and s.props().get("nostop"):
            n = s.props().get("name")
            w = next((w for w in s.before.watchers if isinstance(n, str) and w["name"].lower() == n.lower()), None)
            # accepted = the watcher has left the directory (a cast message gets no reply)
            if w and not any(x["name"] == w["name"] for x in s.snap.watchers):
                orphaned_ok |= set(p[0] for p in w["procs"])
        a = s.snap
        listed = {}
        for w in a.watchers:
            for p in w["procs"]:
                if p[0] in listed:
                    f.append({"sig": "pid-listed-twice", "step": s.n, "msg": "pid %d under %s and %s" % (p[0], listed[p[0]], w["name"])})
                listed[p[0]] = w["name"]
            if w["status"] == "stopped" and w["procs"]:
                od = any(c.get("on_demand") and c["name"] == w["name"] for c in sc["watchers"])
                f.append({"sig": "on-demand-stopped-with-processes" if od else "stopped-with-processes", "step": s.n,
                          "msg": "%s stopped but lists %r" % (w["name"], w["procs"])})
        if a.quiescent():
            for w in a.watchers:
                if w["status"] in ("starting", "stopping"):
                    # an operation that failed because the daemon was not permitted to signal a worker (or a child) of this
                    # watcher leaves it where it was: such workers are outside C04's quantifier (hook outcomes, spawn
                    # failures, worker deaths)
                    if refused_before(V, s.n, watcher_family(V, s.n, w["name"].replace(" ", "_"))):
                        continue
                    odw = any(c.get("on_demand") and c["name"] == w["name"] for c in sc["watchers"]) and \
                        any(x.kind() == "sockev" and x.op[1] for x in V[:s.n])
                    f.append({"sig": "on-demand-start-overlap" if odw else
                              "transient-status-stuck" + ("-after-exception" if raised else ""), "step": s.n,
                              "msg": "%s is %s with nothing in flight" % (w["name"], w["status"])})
            for pid, (st, pp) in a.kernel.items():
                if pp == 0 and st == "r" and pid not in listed and pid not in orphaned_ok and pid in spawned and \
                        not _sigkilled_before(V, s.n, pid) and not beyond_reach(V, s.n, a, pid, nosig):
                    # F28: the detached socket-triggered start of an on-demand watcher goes on spawning after the watcher was removed
                    od = any(c.get("on_demand") and c["name"].replace(" ", "_") == spawned[pid] for c in sc["watchers"]) and \
                        any(x.kind() == "sockev" and x.op[1] for x in V[:s.n]) and any(x.cmd() == "rm" for x in V[:s.n])
                    f.append({"sig": "on-demand-start-overlap" if od else "untracked-live-worker", "step": s.n,
                              "msg": "pid %d (%s) is alive but no watcher lists it" % (pid, spawned[pid])})
            if s.kind() == "check" and not any(l[0] == "conflict" for l in s.lines) and not a.stopping and \
                    not (s.n > 0 and V[s.n - 1].kind() == "fault"):
                for pid, wn in listed.items():
                    w = a.w(wn)
                    # "beyond one periodic check": it was already dead when this check began
                    if w["status"] != "stopped" and not alive(a.kernel.get(pid, ("g", None))[0]) and \
                            not alive(s.before.kernel.get(pid, ("g", None))[0]):
                        f.append({"sig": "dead-pid-listed-after-check", "step": s.n, "msg": "pid %d of %s is dead but still listed" % (pid, wn)})
                for pid, (st, pp) in a.kernel.items():
                    if st == "z" and pp == 0 and s.before.kernel.get(pid, ("g", None))[0] == "z":
                        f.append({"sig": "zombie-after-check", "step": s.n, "msg": "zombie %d outlives a periodic check" % pid})
    return f


# ------------------------------------------------------------------------------------------------ C09

def c09(sc, V):
    f = []
    spawn_ev, reap_ev, kill_ev = {}, {}, {}
    order = []
    owner = {}
    pending_exit = {}      # pid -> expected exit_code for self exits / outside kills while active
    wait_status = {}       # pid -> wait status the daemon collected (kernel line `reap pid status`)
    self_exit = {}         # pid -> (step, watcher) of a worker that exited by itself while its watcher reported active
    for s in V:
        if s.before.blocked:
            break
        if s.kind() == "die":
            st = s.op[2]
            pending_exit[s.op[1]] = -(st & 0x7F) if (st & 0x7F) else (st >> 8) & 0xFF
            # "a worker that exits by itself … while its watcher is active yields a reap event": remembered until it shows
            wown = next((w for w in s.before.watchers if any(p[0] == s.op[1] for p in w["procs"])), None)
            # … not a worker a kill_process of the daemon is already working on (`Process.stopping`: signalled, announced by a
            # `kill` event, popped by that kill_process when it ends): its end is the daemon's kill, not an exit "by itself"
            being_killed = wown is not None and any(p[0] == s.op[1] and p[2] for p in wown["procs"])
            if wown is not None and wown["status"] == "active" and s.before.kernel.get(s.op[1], ("g", 0))[0] == "r" and \
                    not being_killed:
                self_exit[s.op[1]] = (s.n, wown["name"])
        for l in s.lines:
            if l[0] == "spawn":
                owner[l[1]] = l[2]
            if l[0] == "reap":
                wait_status[l[1]] = l[2]          # the daemon obtained this wait status from the kernel
            if l[0] == "ev" and l[2] == "reap" and l[3] in wait_status:
                st = wait_status[l[3]]
                exp = -(st & 0x7F) if (st & 0x7F) else (st >> 8) & 0xFF
                if l[4] != str(exp):
                    f.append({"sig": "exit-code-not-the-wait-status", "step": s.n,
                              "msg": "pid %d: the kernel reported wait status %d (exit code %d), the reap event says %s" % (l[3], st, exp, l[4])})
            if l[0] == "ev" and l[2] == "spawn":
                if l[3] in spawn_ev:
                    f.append({"sig": "two-spawn-events", "step": s.n, "msg": "pid %d announced twice" % l[3]})
                if l[3] in reap_ev:
                    f.append({"sig": "spawn-after-reap", "step": s.n, "msg": "pid %d" % l[3]})
                spawn_ev[l[3]] = s.n
            if l[0] == "ev" and l[2] == "reap":
                if l[3] in reap_ev:
                    f.append({"sig": "two-reap-events", "step": s.n, "msg": "pid %d reaped twice" % l[3]})
                if l[3] not in spawn_ev:
                    # F29: a worker rejected by after_spawn is never announced, yet reaped with an event
                    f.append({"sig": "reap-without-spawn@after_spawn-rejected" if _after_spawn_failed(V, s.n, l[3])
                              else "reap-without-spawn", "step": s.n, "msg": "pid %d got a reap event but never a spawn event" % l[3]})
                reap_ev[l[3]] = l[4]
                if l[3] in pending_exit and l[4] not in ("None",):
                    w = next((w for w in s.before.watchers if res_name(w["name"]) == l[1]), None)
                    if w is not None and w["status"] == "active" and str(pending_exit[l[3]]) != l[4]:
                        f.append({"sig": "wrong-exit-code", "step": s.n,
                                  "msg": "pid %d exited with %s, reap event says %s" % (l[3], pending_exit[l[3]], l[4])})
            if l[0] == "ev" and l[2] == "kill":
                kill_ev[l[3]] = s.n
            if l[0] == "ev" and l[2] == "remove":
                # the watcher has left the daemon: its pids are nobody's workers any more (rm --nostop leaves them running,
                # unsupervised; a later watcher of the same name is a different watcher)
                for p, o in owner.items():
                    if res_name(o.replace("_", " ")) == l[1] or res_name(o) == l[1]:
                        kill_ev.setdefault(p, s.n)
        if s.snap.blocked:
            break
        a = s.snap
        for w in a.watchers:
            for p in w["procs"]:
                if p[0] not in spawn_ev and p[0] in owner and not _after_spawn_failed(V, s.n, p[0]):
                    # adopted worker without a spawn event (only legal inside the spawn step before the hook verdict)
                    f.append({"sig": "listed-without-spawn-event", "step": s.n, "msg": "pid %d" % p[0]})
        if a.quiescent() and s.kind() == "check" and not a.stopping and not any(l[0] == "conflict" for l in s.lines) and \
                not (s.n > 0 and V[s.n - 1].kind() == "fault"):
            live_claim = set(p for p in spawn_ev if p not in reap_ev and p not in kill_ev)
            live = set(p[0] for w in a.watchers for p in w["procs"] if alive(a.kernel.get(p[0], ("g", 0))[0]))
            gone_unannounced = [p for p in live_claim - live if not alive(a.kernel.get(p, ("g", 0))[0]) and
                                owner.get(p) in [w["name"].replace(" ", "_") for w in a.watchers]]
            if gone_unannounced:
                f.append({"sig": "death-never-announced", "step": s.n,
                          "msg": "pids %r have a spawn event, no reap/kill event, and are not running" % sorted(gone_unannounced)})
            # … also when the daemon had signalled the pid in between (a `kill` event is not the report of an exit)
            lost = [p for p, (n0, wn) in self_exit.items() if p not in reap_ev and any(w["name"] == wn for w in a.watchers) and
                    not any(l[0] == "ev" and l[2] == "remove" for x in V[n0:s.n + 1] for l in x.lines)]
            if lost:
                f.append({"sig": "self-exit-never-reported", "step": s.n,
                          "msg": "workers %r exited by themselves while their watcher was active; no reap event has been "
                                 "published for them and nothing is in flight" % sorted(lost)})
            unann = [p for p in live if p in reap_ev]
            if unann:
                f.append({"sig": "live-but-reaped", "step": s.n, "msg": "%r" % unann})
            # with nothing in flight a `kill` event means the worker is gone (the stop signal is followed by SIGKILL):
            # a subscriber drops the pid from its live set when it sees the event
            # (a kill that failed part-way — the daemon was not permitted to signal the worker's child, or to SIGKILL the
            # worker — is outside C09's quantifier: its `kill` event stands although the worker lives)
            wrongly = [p for p in live if p in kill_ev and a.kernel.get(p, ("g", 0))[0] == "r" and
                       not _sigkilled_before(V, s.n, p) and      # SIGKILLed = dying, whatever the kernel's bookkeeping shows
                       not beyond_reach(V, s.n, a, p, set())]
            if wrongly:
                f.append({"sig": "kill-event-for-surviving-worker", "step": s.n,
                          "msg": "pids %r were announced killed but are running and listed with nothing in flight" % sorted(wrongly)})
        # start/stop events agree with status at quiescence
        if a.quiescent():
            last = {}
            for x in V[:s.n + 1]:
                for l in x.lines:
                    if l[0] == "ev" and l[2] in ("start", "stop"):
                        last[l[1]] = l[2]
            for w in a.watchers:
                e = last.get(res_name(w["name"]))
                if e == "start" and w["status"] == "stopped" and False:
                    f.append({"sig": "start-event-but-stopped", "step": s.n, "msg": w["name"]})
                if e == "stop" and w["status"] == "active":
                    f.append({"sig": "stop-event-but-active", "step": s.n, "msg": w["name"]})
    return f


# ------------------------------------------------------------------------------------------------ C14

def _hook_outcomes(sc):
    return {w["name"]: (w.get("hooks") or {}) for w in sc["watchers"]}


def _parse_set_hook(v):
    """`"harness.simhooks.o_<letters>[,flag]"` as Watcher.set_opt reads it, or None when it is anything else"""
    if not isinstance(v, str):
        return None
    parts = v.split(",")
    name = parts[0]
    pre = "harness.simhooks.o_"
    if not name.startswith(pre) or not name[len(pre):] or any(c not in "tfr" for c in name[len(pre):]):
        return None
    ignore = False
    if len(parts) == 2:
        t = parts[1].lower().strip()
        if t in ("yes", "true", "on", "1"):
            ignore = True
        elif t in ("no", "false", "off", "0"):
            ignore = False
        else:
            return None
    return {"out": [{"t": "true", "f": "false", "r": "raise"}[c] for c in name[len(pre):]], "ignore": ignore}


def c14(sc, V, counters=None):
    f = []
    hooks = _hook_outcomes(sc)
    calls = {}
    replaced = set()          # (watcher, hook) a `set … hooks` request has touched: the scripted outcomes of the scenario's
    #                           configuration no longer say what that hook does (the model / code comparison still does)
    for s in V:
        if s.before.blocked:
            break
        failed_start = {}
        op = getattr(s, "op", None)
        if op and op[0] == "req" and isinstance(op[1], dict) and str(op[1].get("command", "")).lower() == "set":
            pr = op[1].get("properties")
            if isinstance(pr, dict) and isinstance(pr.get("name"), str) and isinstance(pr.get("options"), dict):
                tgt = [n for n in hooks if n.lower() == pr["name"].lower()]
                # refused (an error reply in this step) or unknowable (a cast message is never answered: thorough seed 0 had a
                # cast `set` with a bogus key that was taken for applied)
                refused = any(l[0] == "rep" and l[3] == "error" for l in s.lines) or op[1].get("msg_type") == "cast"
                for k_, v_ in pr["options"].items():
                    items = ([(k_.split(".")[-1], v_)] if k_.startswith("hooks.") else
                             list(v_.items()) if k_ == "hooks" and isinstance(v_, dict) else [])
                    for n in tgt:
                        for hn, hv in items:
                            spec = None if refused else _parse_set_hook(hv)
                            single = len(pr["options"]) == 1 and len(items) == 1 and op[1].get("msg_type") != "cast"
                            if refused and single:
                                # the one option of the request was refused: nothing of it may stick (hook and flag stay as they
                                # were) — the scripted outcomes known so far keep judging the hook
                                continue
                            if spec is None:
                                replaced.add((n, hn))          # refused part-way or not understood: outcomes unknown
                            else:
                                # installed: the scripted outcomes and the flag of the request are what C14 speaks about
                                # from now on (the call counter of the watcher object goes on)
                                hooks[n] = dict(hooks[n])
                                hooks[n][hn] = spec
                                replaced.discard((n, hn))
        for i, l in enumerate(s.lines):
            if l[0] == "ev" and l[2] in ("hook_success", "hook_failure"):
                wn = next((n for n in hooks if res_name(n) == l[1]), None)
                if wn is None:
                    continue
                k = calls.get((wn, l[4]), 0)
                calls[(wn, l[4])] = k + 1
                if l[4] not in hooks[wn] or (wn, l[4]) in replaced:
                    continue
                spec = hooks[wn][l[4]]
                outs = spec.get("out", ["true"])
                o = outs[k % len(outs)]
                if (o == "raise") != (l[2] == "hook_failure"):
                    f.append({"sig": "hook-event-wrong-kind", "step": s.n, "msg": "%s %s: outcome %s reported as %s" % (wn, l[4], o, l[2])})
                default_ign = l[4] in ("before_stop", "after_stop", "before_signal", "after_signal", "extended_stats")
                eff = True if o == "true" else False if o == "false" else (bool(spec.get("ignore")) or default_ign)
                if l[4] in START_HOOKS and not eff:
                    # only a *start*: the watcher was stopped (or is inside its start) when the hook ran; the same hooks
                    # also run for respawns / reload / incr on a running watcher, where nothing says the watcher stops
                    wbefore = s.before.w(wn)
                    started_here = any(m[0] == "ev" and m[1] == l[1] and m[2] == "start" for m in s.lines[:i])
                    stopped_here = any(m[0] == "ev" and m[1] == l[1] and m[2] == "stop" for m in s.lines[:i])
                    # … or the step is a `start` request for exactly this watcher (an active watcher that is short of workers is
                    # topped up by it: a refused spawn aborts that start like any other and the watcher is stopped)
                    named = False
                    if s.kind() == "req" and s.cmd() == "start" and isinstance(s.props(), dict):
                        nm_ = s.props().get("name")
                        named = isinstance(nm_, str) and nm_.lower() == wn.lower() and l[4] in ("before_spawn", "after_spawn") and \
                            any(r[3] == "ok" for r in s.of("rep"))
                    if wbefore is not None and (wbefore["status"] in ("stopped", "starting") or stopped_here or named) and not started_here:
                        failed_start[wn] = l[4]
                if l[4] == "before_reap" and not s.snap.blocked:
                    # before_reap gates nothing (its result is ignored): whatever it returned or raised, the entry is
                    # popped, the process waited for and the `reap` event of this watcher published before the hook is
                    # asked again (C14_reap_hooks_ungated, C09_reap_event_sequence)
                    nxt = next((m for m in s.lines[i + 1:] if m[0] == "ev" and m[1] == l[1] and
                                (m[2] == "reap" or (m[2] in ("hook_success", "hook_failure") and m[4] == "before_reap"))), None)
                    if nxt is None or nxt[2] != "reap":
                        f.append({"sig": "reap-gated-by-hook", "step": s.n,
                                  "msg": "%s: before_reap (%s) was called, no reap event followed" % (wn, o)})
                if l[4] == "before_signal":
                    nxt = s.lines[i + 1] if i + 1 < len(s.lines) else None
                    # "that signal": the one to the worker the hook was asked about — a following signal to a
                    # child (signal ... recursive / children) is a different delivery, not gated by the hook
                    wb = s.before.w(wn)
                    own = set(p[0] for p in wb["procs"]) if wb else set()
                    # sent, or attempted and refused by the kernel (EPERM): the hook did not hold it back either way
                    sent = nxt is not None and nxt[0] == "sig" and nxt[4] in ("", "!") and nxt[1] in own
                    if not eff and sent and nxt[2] != 9:
                        f.append({"sig": "vetoed-signal-sent", "step": s.n, "msg": "before_signal said no, signal %d sent to %d" % (nxt[2], nxt[1])})
                    if not eff and (not sent) and _sigkill_intended(s, i):
                        f.append({"sig": "sigkill-vetoed", "step": s.n, "msg": "SIGKILL suppressed by before_signal"})
        if s.snap.blocked:
            break
        # a failing start-phase hook leaves the watcher stopped once the operation has ended
        for wn, h in failed_start.items():
            s.failed_start = True
        s.failed = failed_start
    # evaluate start gating at the first quiescent point after the failing hook
    for s in V:
        for wn, h in getattr(s, "failed", {}).items():
            for x in V[s.n:]:
                if x.snap.blocked:
                    break
                if x.n > s.n and (x.kind() not in ("wake", "adv", "check") or False):
                    break          # another request interferes: do not judge
                w = x.snap.w(wn)
                if w is None:
                    break
                if refused_before(V, x.n, watcher_family(V, x.n, wn.replace(" ", "_"))):
                    break          # the aborting _stop failed: the daemon may not signal the worker (outside C14's quantifier)
                if x.snap.slot is None and (x.kind() != "check") and x.snap.quiescent() is not None:
                    if x.snap.slot is None and not any(sl for sl in []):
                        if w["status"] != "stopped" or w["procs"]:
                            if x.snap.quiescent():
                                f.append({"sig": "start-not-aborted", "step": x.n,
                                          "msg": "%s: hook %s failed but watcher is %s with %r" % (wn, h, w["status"], w["procs"])})
                        else:
                            # a worker that already got SIGKILL is dying (a later terminate() may have replaced the pending
                            # death in the kernel's bookkeeping; virtual time has simply not advanced yet)
                            alive = [p for p, (st, pp) in x.snap.kernel.items() if pp == 0 and st == "r" and
                                     _spawned_for(V, x.n, p) == wn.replace(" ", "_") and not _listed(x.snap, p) and
                                     not _sigkilled_before(V, x.n, p)]
                            if alive and x.snap.quiescent():
                                f.append({"sig": "aborted-start-left-worker", "step": x.n,
                                          "msg": "%s: hook %s failed, watcher stopped, but %r still alive" % (wn, h, alive)})
                        break
    if counters is not None:
        for (wn, h), n in counters.items():
            got = calls.get((wn, h), 0)
            if got != n and not any(x.snap.blocked for x in V):
                f.append({"sig": "hook-call-without-event", "step": len(V) - 1,
                          "msg": "%s %s called %d times, %d events" % (wn, h, n, got)})
    return f


def _after_spawn_failed(V, n, pid):
    """pid was adopted, its after_spawn hook said no: no spawn event follows its spawn line"""
    for x in V[:n + 1]:
        for i, l in enumerate(x.lines):
            if l[0] == "spawn" and l[1] == pid:
                nxt = x.lines[i + 1] if i + 1 < len(x.lines) else None
                return nxt is not None and nxt[0] == "ev" and nxt[2] in ("hook_success", "hook_failure") and nxt[4] == "after_spawn" \
                    and not any(m[0] == "ev" and m[2] == "spawn" and m[3] == pid for m in x.lines[i + 1:i + 3])
    return False


def _sigkill_intended(s, i):
    """the before_signal call at line i of step s belongs to a delivery of SIGKILL: a `signal` or `kill` request that names
    signal 9 (the escalation inside kill_process is recognised by its own oracle in c03)"""
    sg = s.props().get("signum") if s.kind() == "req" else None
    return s.cmd() in ("signal", "kill") and isinstance(sg, int) and not isinstance(sg, bool) and sg == 9


def _spawned_for(V, n, pid):
    for x in V[:n + 1]:
        for l in x.lines:
            if l[0] == "spawn" and l[1] == pid:
                return l[2]
    return None


def _listed(snap, pid):
    return any(p[0] == pid for w in snap.watchers for p in w["procs"])


# ------------------------------------------------------------------------------------------------ C19

def _start_not_exclusive(V):
    """the daemon's start sequence is an exclusive operation: while it is in flight (it sleeps between spawns / watchers) it
    holds the slot, so that the periodic check and other exclusive requests are refused and cannot interleave their own spawns"""
    out = []
    for s in V:
        if s.kind() == "start" and not s.snap.blocked and s.before.slot is None and s.snap.sleepers and \
                s.snap.slot != "arbiter_start_watchers" and not any(l[0] in ("conflict", "raised") for l in s.lines):
            out.append({"sig": "start-sequence-not-exclusive", "step": s.n,
                        "msg": "daemon start in flight (timers pending) but the exclusive slot is %s" % s.snap.slot})
    return out


def c19(sc, V):
    f = _start_not_exclusive(V)
    started_at = spawn_times(sc, V)
    for s in V:
        several = s.cmd() == "start" and isinstance(s.props().get("name"), str) and "*" in s.props()["name"] and \
            s.props().get("match", "glob") == "glob" and "[" not in s.props()["name"]
        if not (s.kind() == "start" or (s.cmd() in ("start", "restart") and ("name" not in s.props() or several) and
                                       (any(r[3] == "ok" for r in s.of("rep")) or
                                        (several and s.props().get("waiting") and s.snap.slot == "arbiter_start_watchers")))):
            continue
        if s.before.slot is not None or s.before.blocked:
            continue
        if s.cmd() == "restart":
            continue          # restart-all = daemon restart (stop everything, exit)
        # collect spawns until the slot is freed again; give up when something else interferes
        cfgs = {w["name"].replace(" ", "_"): w for w in s.before.watchers}
        prio = {}
        warm = {}
        auto = {}
        for w in sc["watchers"]:
            prio[w["name"].replace(" ", "_")] = w.get("priority", 0)
            warm[w["name"].replace(" ", "_")] = w.get("warmup_ms", 0)
            auto[w["name"].replace(" ", "_")] = w.get("autostart", True)
        if any(n not in prio for n in cfgs):
            continue          # watchers added at run time: configuration not known to the oracle
        seq = []
        clean = True
        for x in V[s.n:]:
            if x.n > s.n and x.kind() not in ("wake", "adv"):
                clean = False
                break
            if x.snap.blocked:
                clean = False
                break
            for l in x.lines:
                if l[0] == "spawn":
                    seq.append((l[2], started_at.get(l[1], x.snap.t), l[1]))
                if l[0] == "execfail":
                    clean = False
            if x.snap.slot is None:
                break
        if any(x.cmd() == "set" for x in V[:s.n]):
            continue
        order = [n for n in [w["name"].replace(" ", "_") for w in s.before.watchers]]
        expected = sorted(order, key=lambda n: -prio[n])
        blocks = []
        for n, t, pid in seq:
            if not blocks or blocks[-1][0] != n:
                blocks.append([n, []])
            blocks[-1][1].append(t)
        names_in = [b[0] for b in blocks]
        if len(set(names_in)) != len(names_in):
            f.append({"sig": "start-blocks-interleaved", "step": s.n, "msg": "spawn order %r" % names_in})
            continue
        exp_idx = {n: i for i, n in enumerate(expected)}
        if names_in != sorted(names_in, key=lambda n: exp_idx[n]):
            f.append({"sig": "priority-order-violated", "step": s.n, "msg": "started %r, priorities %r" % (names_in, prio)})
        for n, ts in blocks:
            if not auto[n] and s.kind() == "start":
                f.append({"sig": "autostart-off-started", "step": s.n, "msg": n})
            for a, b in zip(ts, ts[1:]):
                if b - a < warm[n]:
                    f.append({"sig": "warmup-not-respected", "step": s.n, "msg": "%s spawns %d ms apart, warmup %d" % (n, b - a, warm[n])})
        aw = sc.get("arb", {}).get("warmup_ms", 0)
        for (n1, t1), (n2, t2) in zip(blocks, blocks[1:]):
            if t2[0] - t1[-1] < aw:
                f.append({"sig": "global-warmup-not-respected", "step": s.n, "msg": "%s then %s only %d ms apart" % (n1, n2, t2[0] - t1[-1])})
    return f


# ------------------------------------------------------------------------------------------------ C01

def c01(sc, V):
    f = []
    nosig = unsignalable(sc, V)
    prev_conv = None
    for s in V:
        if s.snap.blocked:
            break
        a = s.snap
        for w in a.watchers:
            try:
                n = int(w["np"])
            except ValueError:
                f.append({"sig": "numprocesses-not-integer", "step": s.n, "msg": "%s numprocesses=%s" % (w["name"], w["np"])})
                continue
            cfg = next((c for c in sc["watchers"] if c["name"] == w["name"]), None)
            if n < 0:
                f.append({"sig": "numprocesses-negative", "step": s.n, "msg": "%s: %d" % (w["name"], n)})
            if cfg is not None and cfg.get("singleton") and n > 1:
                f.append({"sig": "singleton-above-one", "step": s.n, "msg": "%s: %d" % (w["name"], n)})
        # max_age: "a max_age expiry" is a change the fixpoint clause allows — but only a worker older than max_age expires;
        # a check that signals a younger worker of a watcher that has exactly its numprocesses workers disturbs a converged state
        if s.kind() == "check" and not s.before.blocked and not any(x.cmd() == "set" for x in V[:s.n]):
            for wb in s.before.watchers:
                cfgm = next((c for c in sc["watchers"] if c["name"] == wb["name"]), None)
                if not cfgm or not cfgm.get("max_age") or wb["status"] != "active":
                    continue
                try:
                    if len(wb["procs"]) != int(wb["np"]):
                        continue
                except ValueError:
                    continue
                # converged means: every listed worker is alive (a dead one is replaced by this check, and a spawn hook that
                # says no then stops the whole watcher, young workers included — thorough seed 0 of session 5); spawn hooks
                # are outside the configurations C01 quantifies over anyway
                if not all(alive(s.before.kernel.get(p[0], ("g", 0))[0]) for p in wb["procs"]):
                    continue
                if any(h in (cfgm.get("hooks") or {}) for h in ("before_spawn", "after_spawn")) or \
                        any(x.cmd() == "set" and "hooks" in json.dumps(x.op[1].get("properties", {})) for x in V[:s.n] if x.kind() == "req" and isinstance(x.op[1], dict)) or \
                        any(l[0] == "execfail" for l in s.lines):      # … as are exec failures
                    continue
                st_times = spawn_times(sc, V[:s.n + 1])
                for l in s.lines:
                    if l[0] == "sig" and l[2] != 0 and any(p[0] == l[1] for p in wb["procs"]) and l[1] in st_times and \
                            alive(s.before.kernel.get(l[1], ("g", 0))[0]):
                        if a.t - st_times[l[1]] <= cfgm["max_age"] * 1000:
                            f.append({"sig": "young-worker-expired", "step": s.n,
                                      "msg": "the check signalled worker %d of %s, %d ms old, max_age %d s, no surplus"
                                             % (l[1], wb["name"], a.t - st_times[l[1]], cfgm["max_age"])})
                            break
        calm_check = s.kind() == "check" and a.quiescent() and not a.stopping and \
            not any(l[0] in ("conflict", "raised") for l in s.lines) and not (s.n > 0 and V[s.n - 1].kind() == "fault")
        if calm_check:
            conv = True
            for w in a.watchers:
                cfg = next((c for c in sc["watchers"] if c["name"] == w["name"]), None)
                if cfg is None:
                    continue          # added at run time: its options (respawn, …) are not known to this oracle
                respawn = cfg.get("respawn", True) if cfg else True
                # on-demand watchers replace a dead worker only at the next connection (documented): not C01's claim
                if w["status"] != "active" or not respawn or (cfg or {}).get("max_age") or (cfg or {}).get("on_demand"):
                    if w["status"] == "active":
                        conv = False
                    continue
                live = [p for p in w["procs"] if alive(a.kernel.get(p[0], ("g", 0))[0])]
                if any(l[0] == "execfail" for l in s.lines) or _has_start_hooks(cfg):
                    conv = False
                    continue
                # a surplus worker the daemon may not signal cannot be removed: outside C01's quantifier
                if any(beyond_reach(V, s.n, a, p[0], nosig) for p in w["procs"]):
                    conv = False
                    continue
                if len(live) != int(w["np"]) or len(w["procs"]) != int(w["np"]):
                    f.append({"sig": "not-converged-after-calm-check", "step": s.n,
                              "msg": "%s: %d live / %d listed, numprocesses %s" % (w["name"], len(live), len(w["procs"]), w["np"])})
            # fixpoint: a second calm check right after a converged one does nothing
            if prev_conv is not None and prev_conv == s.n - 1 and s.before.kernel == a.kernel:
                if any(l[0] in ("spawn", "sig") for l in s.lines):
                    f.append({"sig": "converged-state-not-a-fixpoint", "step": s.n, "msg": "check disturbed a converged state: %r" % (s.lines[:3],)})
            prev_conv = s.n if conv and not any(l[0] in ("spawn", "sig") for l in s.lines) else None
        elif s.kind() not in ("adv",):
            prev_conv = None if s.kind() != "check" else prev_conv
        # freshness after a completed restart / reload (answered with waiting)
        if s.kind() == "req" and s.cmd() in ("restart", "reload") and s.props().get("waiting") and "name" in s.props():
            pass
    # freshness: find waiting replies of restart/reload
    req_at = {}
    for s in V:
        if s.kind() == "req" and s.cmd() in ("restart", "reload") and isinstance(s.props().get("name"), str) \
                and s.props().get("waiting") and s.op[1].get("msg_type") != "cast":
            from harness.sim import encj
            req_at[("c%d" % (s.op[2] if len(s.op) > 2 else 0), encj(s.op[1].get("id")))] = s
        for r in s.of("rep"):
            key = (r[1], r[2])
            q = req_at.get(key)
            if q is None or r[3] != "ok" or s.snap.blocked:
                continue
            del req_at[key]
            name = q.props()["name"].lower()
            wb = next((w for w in q.before.watchers if w["name"].lower() == name), None)
            wa = next((w for w in s.snap.watchers if w["name"].lower() == name), None)
            cfg = next((c for c in sc["watchers"] if c["name"].lower() == name), None)
            if wb is None or wa is None or cfg is None:
                continue
            if q.cmd() == "reload" and (cfg.get("send_hup") or any(x.cmd() == "set" for x in V[:q.n])):
                continue
            if q.cmd() == "reload" and q.props().get("graceful", True) and not q.props().get("sequential") \
                    and q.before.t == _last_spawn_time(V, q.n, wb):
                continue        # reload in the same clock tick as the previous spawn: stable sort keeps the old ones (named hypothesis)
            if wa["status"] != "active":
                continue
            # hooks that may veto a spawn are outside C01's quantifier too (a vetoed replacement leaves the old worker)
            if any(h in (cfg.get("hooks") or {}) for h in ("before_spawn", "after_spawn")):
                continue
            old = set(p[0] for p in wb["procs"])
            stale = [p[0] for p in wa["procs"] if p[0] in old and alive(s.snap.kernel.get(p[0], ("g", 0))[0])]
            # spawn failures (exec errors) are outside C01's quantifier: with them the old workers may have to stay
            if stale and not any(l[0] in ("raised", "execfail") for x in V[q.n:s.n + 1] for l in x.lines) and \
                    all(x.kind() in ("wake", "adv", "req") for x in V[q.n:s.n + 1]):
                f.append({"sig": "stale-worker-after-%s" % q.cmd(), "step": s.n,
                          "msg": "%s completed but workers %r were started before it" % (q.cmd(), stale)})
    return f


def _has_start_hooks(cfg):
    return bool(cfg) and any(h in (cfg.get("hooks") or {}) for h in START_HOOKS)


def _last_spawn_time(V, n, w):
    t = None
    pids = set(p[0] for p in w["procs"])
    for x in V[:n]:
        for l in x.lines:
            if l[0] == "spawn" and l[1] in pids:
                t = x.snap.t
    return t


# ------------------------------------------------------------------------------------------------ C08 (shutdown logic)

def c08(sc, V):
    f = []
    nosig = unsignalable(sc, V)
    signalled = None
    for s in V:
        if s.before.blocked:
            break
        if s.kind() == "sig" and s.op[1] == "quit" and signalled is None:
            signalled = (s.n, s.before.slot)
        if signalled is not None and s.snap.stopping:
            # the shutdown has been started: the signal was not lost (whether the shutdown can complete is judged below; since
            # fix 273f512 a failed arbiter restart may clear the flag of a shutdown that failed on an unsignalable worker)
            signalled = None
        if signalled is not None and not s.snap.blocked and s.snap.quiescent() and not s.snap.stopping:
            f.append({"sig": "termination-signal-lost" + ("-while-busy" if signalled[1] else ""), "step": s.n,
                      "msg": "SIGTERM/INT/QUIT arrived at step %d (exclusive slot then: %s); nothing is in flight any more and no "
                             "shutdown was started" % signalled})
            signalled = None
        if any(l[0] == "close" and l[1] == "ctrl" for l in s.lines) and not s.snap.blocked:
            a = s.snap
            if not any(l[0] == "close" and l[1] == "evpub" for l in s.lines):
                f.append({"sig": "evpub-not-closed", "step": s.n, "msg": "control socket closed, event socket not"})
            for w in a.watchers:
                if w["status"] != "stopped" or w["procs"]:
                    f.append({"sig": "shutdown-left-watcher-running", "step": s.n, "msg": "%s: %s %r" % (w["name"], w["status"], w["procs"])})
            listed_before = set()
            lb = set(q[0] for w in s.before.watchers for q in w["procs"])
            left = [p for p, (st, pp) in a.kernel.items() if pp == 0 and (st == "r" or (st == "z" and p in lb)) and
                    not _sigkilled_before(V, s.n, p) and not beyond_reach(V, s.n, a, p, nosig) and
                    _spawned_by_registered(V, s.n, p, a)]
            if left:
                f.append({"sig": "survivor-after-shutdown", "step": s.n, "msg": "daemon children %r left behind" % left})
    return f


def _spawned_by_registered(V, n, pid, snap):
    nm = _spawned_for(V, n, pid)
    return nm in [w["name"].replace(" ", "_") for w in snap.watchers]


ORACLES = {"C01": c01, "C02": c02, "C03": c03, "C04": c04, "C05": c05, "C06": c06, "C08": c08, "C09": c09,
           "C10": c10, "C11": c11, "C14": c14, "C15": c15, "C18": c18, "C19": c19}


def run_oracle(pid, sc, steps, counters=None):
    V = view(sc, steps)
    if pid == "C14":
        return c14(sc, V, counters)
    return ORACLES[pid](sc, V)
