"""Hooks that a scenario installs at run time with `set <watcher> hooks.<name> = "harness.simhooks.o_<letters>[,flag]"`.

`circus.util.resolve_name(dotted, reload=True)` imports this module, reloads it and takes the attribute: any name of the form
`o_<letters>` (letters over t / f / r) is a hook whose outcomes are those letters — t = returns True, f = returns False,
r = raises — cycled by the call counter of that hook on that watcher object (the counter a hook configured at start-up has used
so far goes on: the model's `hookCalls` belongs to the watcher object and is not reset by `set`).  The Lean side of the same
convention is `Circus.Core.simHookOuts`.  State lives outside this module (it is reloaded at every `set`)."""


def __getattr__(name):
    if not name.startswith("o_") or not name[2:] or any(c not in "tfr" for c in name[2:]):
        raise AttributeError(name)
    letters = name[2:]

    def hook(watcher=None, arbiter=None, hook_name=None, **kw):
        from harness import sim
        cur = sim.CURRENT
        if cur is not None and getattr(watcher, "_verif_cfg", False):
            store, key = cur.counters, (watcher.name, hook_name)
        else:
            store, key = watcher.__dict__.setdefault("_verif_hook_calls", {}), hook_name
        i = store.get(key, 0)
        store[key] = i + 1
        o = letters[i % len(letters)]
        if o == "r":
            raise RuntimeError("hook %s says no" % hook_name)
        return o == "t"
    hook.__name__ = name
    return hook
