"""Simulated kernel + harness-as-scheduler driving the REAL circus Arbiter / Watcher / Controller
in-process (DESIGN.md 4.1, 4.2).

A scenario is a JSON-able dict:
  {"arb": {"warmup_ms": 0},
   "watchers": [ {name, np, singleton, respawn, warmup_ms, graceful_ms, stop_signal, stop_children,
                  priority, autostart, max_retry, send_hup, on_demand, hooks: {hook: {"out": [..], "ignore": bool}}} ],
   "behav": [ {"term": ["obey", delay_ms] | ["ignore"], "kill_lat": ms, "kids": n, "exec_fail": bool,
               "eperm": bool, "kid_eperm": bool} ... ]   # per spawn attempt, cycled; eperm: the daemon may not signal the worker
                                                         # (it runs under another uid: os.kill raises EPERM), kid_eperm: nor its children
   "ops": [ ["start"] | ["req", {...}] | ["sig", "quit"|"reload"] | ["check"] | ["wake"] | ["adv", ms]
            | ["die", pid, status] | ["xkill", pid, sig] | ["fault", k, pid, status] ... ]}
The trace is a list of canonical text lines (see `Trace`), the same lines the Lean model prints.
"""
import asyncio
import errno as _errno
import json
import subprocess
import logging
import os
import signal
import psutil
import sys

T0 = 1000.0          # virtual epoch (seconds); now = T0 + now_ms / 1000
FIRST_PID = 100
CALL_LIMIT = 20000      # kernel calls within one atomic step
SPIN_LIMIT = 20000


class Blocked(BaseException):
    """the code under test spins for ever on time.sleep inside one atomic step"""


def enc(s):
    return ".".join(str(ord(c)) for c in s) if s else "-"


def wstat_exit(code):
    return (code & 0xFF) << 8


def wstat_sig(sig):
    return sig & 0x7F


class SimProc(object):
    def __init__(self, pid, ppid, behav):
        self.pid = pid
        self.ppid = ppid          # 0 = child of the daemon, else pid of the worker it is a child of, None = orphan
        self.state = "r"          # r running, z zombie, g gone
        self.status = None        # wait status once dead
        self.doom = None          # (deadline_ms, status)
        self.behav = behav


class Kernel(object):
    def __init__(self, behav):
        self.procs = {}
        self.next_pid = FIRST_PID
        self.now = 0              # ms
        self.calls = 0            # kernel calls in the current atomic step
        self.spins = 0
        self.slept = 0            # ms of blocking time.sleep in the current step
        self.behav = behav or [{}]
        self.attempt = 0
        self.blocked = False
        self.faults = []          # (k, pid, status): before kernel call #k of the next step
        self.armed = []
        self.log = []
        self.reasons = []         # reason texts of the error replies of the current step (not part of the compared trace)

    # -- bookkeeping
    def out(self, line):
        if not self.blocked:          # nothing after the point where the daemon hangs is observable
            self.log.append(line)

    def begin_step(self):
        self.calls = 0
        self.spins = 0
        self.slept = 0
        self.armed = self.faults
        self.faults = []

    def tick(self):
        """one kernel call boundary: armed faults fire, due deaths resolve"""
        self.calls += 1
        for f in list(self.armed):
            if f[0] <= self.calls:
                self.armed.remove(f)
                self.die(f[1], f[2])
        self.resolve()

    def resolve(self):
        for p in list(self.procs.values()):
            if p.state == "r" and p.doom is not None and p.doom[0] <= self.now:
                self._dead(p, p.doom[1])

    def _dead(self, p, status):
        p.doom = None
        p.status = status
        if p.ppid == 0:
            p.state = "z"
        else:
            p.state = "g"         # children of workers / orphans are reaped by their parent / init
        for c in self.procs.values():
            if c.ppid == p.pid:
                c.ppid = None     # reparented to init

    def die(self, pid, status):
        p = self.procs.get(pid)
        if p is not None and p.state == "r":
            self._dead(p, status)

    # -- system calls
    def spawn(self, info):
        self.tick()
        # a step that forks without end (a retry loop that lost its bound) is a daemon that hangs: nothing else runs
        if self.calls > CALL_LIMIT:
            self.blocked = True
            raise Blocked()
        b = self.behav[self.attempt % len(self.behav)]
        self.attempt += 1
        if b.get("exec_fail"):
            self.out("o execfail")
            # whatever the reason fork/exec fails for — a missing file, no permission, no more processes, no memory —
            # it is one failed attempt of the max_retry the watcher has
            # (the reason stays the same for a streak of failures: the pid counter does not move while fork fails)
            err = (_errno.EAGAIN, _errno.ENOENT, _errno.ENOMEM, _errno.EACCES)[self.next_pid % 4]
            raise OSError(err, os.strerror(err))
        pid = self.next_pid
        self.next_pid += 1
        self.procs[pid] = SimProc(pid, 0, b)
        for _ in range(b.get("kids", 0)):
            cp = self.next_pid
            self.next_pid += 1
            self.procs[cp] = SimProc(cp, pid, {"term": b.get("kid_term", ["obey", 0]), "kill_lat": 0,
                                               "eperm": bool(b.get("kid_eperm", False))})
        self.now += b.get("spawn_ms", 0)          # the fork/exec takes time (Process.started was read before it)
        return pid

    def kill(self, pid, sig, via="", daemon=False):
        """os.kill semantics; returns False when ESRCH.  `daemon`: the call is the daemon's own (not the outside world's): a
        process it is not permitted to signal (behaviour `eperm`: another uid) makes it raise EPERM, nothing is delivered —
        the permission check comes before everything else, also for a zombie"""
        self.tick()
        p = self.procs.get(pid)
        if p is None or p.state == "g":
            self.out("o sig %d %d g%s" % (pid, sig, via))
            return False
        if daemon and p.behav.get("eperm"):
            self.out("o sig %d %d %s%s!" % (pid, sig, p.state, via))
            raise PermissionError(_errno.EPERM, os.strerror(_errno.EPERM))
        self.out("o sig %d %d %s%s" % (pid, sig, p.state, via))
        if p.state == "r" and sig != 0:
            if sig == signal.SIGKILL:
                lat = p.behav.get("kill_lat", 0)
                self._doom(p, self.now + lat, wstat_sig(sig))
            elif sig in (signal.SIGHUP, signal.SIGUSR1, signal.SIGUSR2, signal.SIGWINCH, signal.SIGCHLD, signal.SIGCONT):
                if sig == signal.SIGCONT:
                    p.stopped = None
                pass                                  # workers handle / ignore these
            elif sig in (signal.SIGSTOP, signal.SIGTSTP, signal.SIGTTIN, signal.SIGTTOU):
                p.stopped = sig                       # stopped, not ended: reported to a waitpid(WUNTRACED) only
            else:
                t = p.behav.get("term", ["obey", 0])
                if t[0] == "obey":
                    self._doom(p, self.now + t[1], wstat_sig(sig))
            self.resolve()
        return True

    def _doom(self, p, deadline, status):
        if p.doom is None or deadline < p.doom[0]:
            p.doom = (deadline, status)

    # -- pid numbers as the daemon sees them.  The model (and everything the harness logs) numbers processes in spawn
    # order; with `desc` the daemon is shown numbers that DEcrease in spawn order (a pid counter that wrapped around):
    # code that takes "higher pid" for "younger process" then disagrees with the model.
    PID_TOP = 2000000
    desc = False

    def ext(self, p):
        if self.desc and isinstance(p, int) and not isinstance(p, bool) and p in self.procs:
            return self.PID_TOP - p
        return p

    def inn(self, q):
        if self.desc and isinstance(q, int) and not isinstance(q, bool) and (self.PID_TOP - q) in self.procs:
            return self.PID_TOP - q
        return q

    def waitpid(self, pid, flags=None):
        """waitpid(pid, WNOHANG) for pid > 0 or -1; returns (pid, status) / (0, 0) / raises ECHILD.  The daemon
        never asks for stopped children; a caller that does (WUNTRACED) is told about each stop once, as POSIX says"""
        self.tick()
        untraced = bool(flags is not None and flags & os.WUNTRACED)
        if pid == -1:
            kids = [p for p in self.procs.values() if p.ppid == 0 and p.state != "g"]
            if not kids:
                raise OSError(_errno.ECHILD, "No child processes")
            zs = sorted(p.pid for p in kids if p.state == "z" or
                        (untraced and p.state == "r" and getattr(p, "stopped", None)))
            if not zs:
                return 0, 0
            pid = zs[0]
        p = self.procs.get(pid)
        if p is None or p.ppid != 0 or p.state == "g":
            raise OSError(_errno.ECHILD, "No child processes")
        if p.state == "r":
            if untraced and getattr(p, "stopped", None):
                sig, p.stopped = p.stopped, None
                self.out("o waitstopped %d %d" % (pid, sig))
                return pid, (sig << 8) | 0x7f
            return 0, 0
        p.state = "g"
        self.out("o reap %d %d" % (pid, p.status))
        return pid, p.status

    def state_of(self, pid):
        self.tick()
        p = self.procs.get(pid)
        return "g" if p is None else p.state

    def children(self, pid, recursive):
        self.tick()
        p = self.procs.get(pid)
        if p is None or p.state == "g":
            return None
        if p.state == "z":
            return []
        out = []
        stack = [pid]
        while stack:
            q = stack.pop()
            for c in sorted(self.procs.values(), key=lambda c: c.pid):
                if c.ppid == q and c.state == "r":
                    out.append(c.pid)
                    if recursive:
                        stack.append(c.pid)
        return out

    def sleep(self, secs):
        ms = max(1, int(round(secs * 1000)))
        self.spins += 1
        if self.spins > SPIN_LIMIT:
            self.blocked = True
            raise Blocked()
        # nothing can wake up if no running child is doomed: short-cut an endless spin
        self.now += ms
        self.slept += ms
        self.tick()

    def snapshot(self):
        return ",".join("%d:%s:%s" % (p.pid, "k" if (p.state == "r" and p.doom is not None and p.doom[1] == 9) else p.state,
                                      "-" if p.ppid is None else p.ppid)
                        for p in sorted(self.procs.values(), key=lambda p: p.pid) if p.state != "g") or "-"


# ------------------------------------------------------------------------------------------------
# fakes handed to the real code

class _FakeChild(object):
    def __init__(self, k, pid):
        self.k = k
        self.ipid = pid
        self.pid = k.ext(pid)

    def send_signal(self, sig):
        import psutil
        if not _psutil_kill(self.k, self.ipid, sig, ""):
            raise psutil.NoSuchProcess(self.pid)


def _psutil_kill(k, pid, sig, via):
    """psutil.Process._send_signal: os.kill, PermissionError becomes psutil.AccessDenied (a psutil.Error, not an OSError)"""
    import psutil
    try:
        return k.kill(pid, sig, via=via, daemon=True)
    except PermissionError as err:
        raise psutil.AccessDenied(pid) from err


def make_popen(k):
    import psutil

    class FakePopen(object):
        """stands for psutil.Popen: Process API from psutil, poll/returncode from subprocess"""

        def __init__(self, args, cwd=None, shell=False, preexec_fn=None, env=None, close_fds=True,
                     executable=None, stdout=None, stderr=None):
            self.args = args
            self.ipid = k.spawn({"args": args})
            self.pid = k.ext(self.ipid)
            self.returncode = None
            # a watcher with stream options asks for pipes: real ones (the Redirector registers their descriptors with the
            # loop); nothing is ever written, the write ends live as long as this object
            self.stdout = self.stderr = None
            self._wends = []
            if not hasattr(k, "popens"):
                k.popens = []
            k.popens.append(self)
            if stdout == subprocess.PIPE:
                r, w = os.pipe()
                self.stdout = os.fdopen(r, "rb", 0)
                self._wends.append(w)
            if stderr == subprocess.PIPE:
                r, w = os.pipe()
                self.stderr = os.fdopen(r, "rb", 0)
                self._wends.append(w)
            name, wid = "?", "?"
            try:
                name = args[args.index("--name") + 1]
                wid = args[args.index("--wid") + 1]
            except (ValueError, IndexError, AttributeError):
                pass
            k.out("o spawn %d %s %s" % (self.ipid, enc(name), wid))

        def poll(self):
            if self.returncode is not None:
                return self.returncode
            try:
                pid, sts = k.waitpid(self.ipid)
            except OSError:
                self.returncode = 0                      # subprocess: ECHILD -> returncode 0
                return self.returncode
            if pid == self.ipid:
                if os.WIFSIGNALED(sts):
                    self.returncode = -os.WTERMSIG(sts)
                else:
                    self.returncode = os.WEXITSTATUS(sts)
            return self.returncode

        def send_signal(self, sig):
            if not _psutil_kill(k, self.ipid, sig, ""):
                raise psutil.NoSuchProcess(self.pid)

        def terminate(self):
            if not _psutil_kill(k, self.ipid, signal.SIGTERM, "t"):
                raise psutil.NoSuchProcess(self.pid)

        def status(self):
            st = k.state_of(self.ipid)
            if st == "g":
                raise psutil.NoSuchProcess(self.pid)
            return psutil.STATUS_ZOMBIE if st == "z" else psutil.STATUS_SLEEPING

        def is_running(self):
            return k.state_of(self.ipid) != "g"

        def children(self, recursive=False):
            c = k.children(self.ipid, recursive)
            if c is None:
                raise psutil.NoSuchProcess(self.pid)
            return [_FakeChild(k, p) for p in c]

        def wait(self, timeout=None):
            raise NotImplementedError

        def __del__(self):
            self.close_pipes()

        def close_pipes(self):
            for w in getattr(self, "_wends", ()):
                try:
                    os.close(w)
                except OSError:
                    pass
            self._wends = []
            for f in (getattr(self, "stdout", None), getattr(self, "stderr", None)):
                try:
                    if f is not None:
                        f.close()
                except (OSError, ValueError):
                    pass

    return FakePopen


class _FakeSelect(object):
    """stands for the `select` module in circus.arbiter: readiness of the managed sockets is scripted"""

    def __init__(self, sim):
        self._sim = sim

    def select(self, rlist, wlist, xlist, timeout=None):
        return ([999] if self._sim.sock_ready else [], [], [])


class _FakeOs(object):
    def __init__(self, k):
        self._k = k

    def __getattr__(self, name):
        return getattr(os, name)

    def waitpid(self, pid, flags):
        p, sts = self._k.waitpid(self._k.inn(pid) if pid != -1 else -1, flags)
        return self._k.ext(p), sts


class _FakeTime(object):
    def __init__(self, k):
        self._k = k

    def time(self):
        return T0 + self._k.now / 1000.0

    def sleep(self, s):
        self._k.sleep(s)


class FakePub(object):
    def __init__(self, k):
        self.k = k
        self.closed = False
        self.linger = 0

    def send_multipart(self, parts):
        topic = parts[0].decode()
        msg = json.loads(parts[1])
        # topic = watcher.<res_name>.<topic>
        _, rest = topic.split(".", 1)
        wname, t = rest.rsplit(".", 1)
        pid = msg.get("process_pid", "-")
        if hasattr(self.k, "inn"):
            pid = self.k.inn(pid)
        extra = "-"
        if t == "reap":
            extra = str(msg.get("exit_code"))
        elif t in ("hook_success", "hook_failure"):
            extra = msg.get("name")
        self.k.out("o ev %s %s %s %s" % (enc(wname), t, pid, extra))

    def close(self):
        if not self.closed:
            self.k.out("o close evpub")
        self.closed = True

    def bind(self, *a):
        pass


def _pids_back(k, resp):
    """a reply of the daemon with the pid numbers it was shown translated back (lists of pids are sorted by the daemon: sort again)"""
    def back(v):
        if isinstance(v, bool):
            return v
        if isinstance(v, int):
            return k.inn(v)
        if isinstance(v, str) and v.isdigit():
            return str(k.inn(int(v)))
        return v
    out = dict(resp)
    if isinstance(out.get("pids"), list):
        out["pids"] = [back(x) for x in out["pids"]]
    if "process" in out:
        out["process"] = back(out["process"])
    i = out.get("info")
    if isinstance(i, dict):
        if isinstance(i.get("started"), list):         # the pid lists of start / restart / reload (a process info has a float there)
            out["info"] = {kk: (sorted(back(x) for x in vv) if isinstance(vv, list) else vv) for kk, vv in i.items()}
        else:
            out["info"] = {back(kk): vv for kk, vv in i.items()}
    if isinstance(out.get("infos"), dict):
        out["infos"] = {n: ({back(kk): vv for kk, vv in d.items()} if isinstance(d, dict) else d) for n, d in out["infos"].items()}
    return out


class FakeStream(object):
    """stands for the ZMQStream of the ROUTER socket.  `send` only queues: the message goes out when the loop polls the
    socket in a later iteration, or at once through `flush()`.  The control socket has linger 0, so a message still queued
    when the stream is closed — possible only when the loop has been stopped in the iteration that queued it — is lost."""

    def __init__(self, k, body_of):
        self.k = k
        self.body_of = body_of
        self._cid = None
        self.closed = False
        self.queued = []             # observation lines of replies not yet on the wire
        self.loop_stopped = lambda: False

    def iteration_done(self):
        """the loop goes around once more: everything queued is sent (unless the loop has been stopped: no more polls)"""
        if not self.loop_stopped():
            self.queued = []

    def send(self, data, flags=0, **kw):
        import zmq
        if flags & zmq.SNDMORE:
            self._cid = data
            return
        if self.closed:
            raise IOError("stream is closed")
        resp = json.loads(data)
        if getattr(self.k, "desc", False):
            resp = _pids_back(self.k, resp)
        if resp.get("status") == "error" and not getattr(self.k, "blocked", False) and hasattr(self.k, "reasons"):
            self.k.reasons.append(str(resp.get("reason")))      # (the live kernel of harness/live.py keeps no such list)
        cid = self._cid.decode() if isinstance(self._cid, bytes) else str(self._cid)
        line = "o rep %s %s %s %s %s" % (cid, encj(resp.get("id")),
                                         resp.get("status"), resp.get("errno", "-") if resp.get("status") == "error" else "-",
                                         self.body_of(resp))
        self.k.out(line)
        self.queued.append(line)

    def flush(self, *a, **kw):
        self.queued = []

    def close(self):
        if not self.closed:
            for line in self.queued:
                # never reached the wire: the client gets no answer
                if line in self.k.log:
                    self.k.log.remove(line)
                self.k.out("o lost-reply " + line[len("o rep "):])
            self.queued = []
            self.k.out("o close ctrl")
        self.closed = True


def encj(v):
    """JSON value in the prefix code the model driver reads and prints"""
    if v is None:
        return "n"
    if v is True:
        return "t"
    if v is False:
        return "f"
    if isinstance(v, int):
        return "i%d" % v
    if isinstance(v, float):
        return "r%r" % v
    if isinstance(v, str):
        return "s" + enc(v)
    if isinstance(v, list):
        return " ".join(["a%d" % len(v)] + [encj(x) for x in v])
    if isinstance(v, dict):
        return " ".join(["o%d" % len(v)] + ["%s %s" % (enc(k), encj(x)) for k, x in v.items()])
    raise TypeError(v)


def _lst(l):
    return "[" + ",".join(str(x) for x in l) + "]"


# the watcher options the model's watcher record carries (lean/CircusModel/Core/Commands.lean `optionPairs`); every other
# option of the real watcher (cmd, env, uid, …) is left out of the compared body on both sides
OPT_MS = ("graceful_timeout", "warmup_delay")          # seconds (int or float) in circus, integer ms in the compared text
OPT_INT = ("max_age", "max_retry", "numprocesses", "priority", "stop_signal")
OPT_BOOL = ("on_demand", "respawn", "send_hup", "stop_children")
OPT_TRUTH = ("singleton",)                               # never type-checked by circus: compared by truthiness
GLOBAL_OPTS = ("endpoint", "stats_endpoint", "pubsub_endpoint", "check_delay", "multicast_endpoint")


def option_value_text(k, v):
    """canonical text of one option value (never a float); `?…` = a value of a type the model cannot hold"""
    if k in OPT_MS:
        if isinstance(v, (int, float)) and v == v and abs(v) < 1e9:
            return "%d" % int(round(float(v) * 1000))
        return "?%s" % type(v).__name__
    if k in OPT_TRUTH:
        return "true" if v else "false"
    if k in OPT_BOOL:
        return ("true" if v else "false") if isinstance(v, bool) else "?%s" % type(v).__name__
    if isinstance(v, bool) or not isinstance(v, int):
        return "?%s" % type(v).__name__
    return "%d" % v


def _options_text(opts):
    """`options=` body of options / get (watcher options by name, sorted) and of globaloptions (the names, sorted)"""
    if not isinstance(opts, dict):
        return "options=?"
    items = []
    for k in sorted(opts):
        if k in OPT_MS or k in OPT_INT or k in OPT_BOOL or k in OPT_TRUTH:
            items.append("%s:%s" % (k, option_value_text(k, opts[k])))
        elif k in GLOBAL_OPTS:
            items.append(k)
    return "options=" + ";".join(items)


def body_of(resp):
    """the part of an ok-reply that is compared (DESIGN 4.4): results of the modelled commands"""
    if resp.get("status") == "error":
        return "-"
    parts = []
    if "pids" in resp:
        parts.append("pids=" + _lst(resp["pids"]))
    if "numprocesses" in resp:
        parts.append("numprocesses=%s" % resp["numprocesses"])
    if "singleton" in resp:
        parts.append("singleton=%s" % ("true" if resp["singleton"] else "false"))
    if "numwatchers" in resp:
        parts.append("numwatchers=%s" % resp["numwatchers"])
    if "watchers" in resp:
        parts.append("watchers=" + ",".join(enc(n) for n in resp["watchers"]))
    if "infos" in resp and isinstance(resp["infos"], dict):
        # stats without a name: which watchers, and which processes of each
        parts.append("infos=" + ";".join("%s:%s" % (enc(n), _lst(list(i)) if isinstance(i, dict) else "?")
                                         for n, i in resp["infos"].items()))
    if "process" in resp and "info" in resp:
        return "procinfo=%s" % resp["process"]
    if "name" in resp and "info" in resp and isinstance(resp["info"], dict) and "started" not in resp["info"]:
        return "stats=%s:%s" % (enc(resp["name"]) if isinstance(resp["name"], str) else "?", _lst(list(resp["info"])))
    if "statuses" in resp:
        parts.append("statuses=" + ",".join("%s:%s" % (enc(n), st) for n, st in resp["statuses"].items()))
    if "options" in resp:
        parts.append(_options_text(resp["options"]))
    if "sockets" in resp:
        parts.append("sockets=" + (_lst([s.get("name") if isinstance(s, dict) else "?" for s in resp["sockets"]])
                                   if isinstance(resp["sockets"], list) else "?"))
    if "info" in resp:
        i = resp["info"]
        if i is None:
            parts.append("info:None")
        elif isinstance(i, dict) and "started" in i:
            if "stopped" in i:
                parts.append("info:stopped=%s;started=%s;kept=%s" % (_lst(i["stopped"]), _lst(i["started"]), _lst(i["kept"])))
            else:
                parts.append("info:started=%s;kept=%s" % (_lst(i["started"]), _lst(i["kept"])))
        else:
            parts.append("info:?")
    return ",".join(parts) or "-"


# ------------------------------------------------------------------------------------------------

def _hook(k, wname, hname, spec, counters):
    outs = spec.get("out", ["true"])

    def hook(**kw):
        i = counters.get((wname, hname), 0)
        counters[(wname, hname)] = i + 1
        o = outs[i % len(outs)]
        if o == "raise":
            raise RuntimeError("hook %s says no" % hname)
        return o == "true"
    return hook


_SIM_CLASSES = {}


CURRENT = None            # the Sim whose scenario is running (harness/simhooks.py reads its hook counters)


def simify_arbiter(arb):
    """The daemon as circusd runs it (it owns the loop: quit stops the loop, Arbiter.start's epilogue closes the sockets) —
    except inside Arbiter.start() itself, which takes its provided-loop branch so that the harness, not a blocking
    start_io_loop(), drives the loop.  Done by giving the instance a subclass whose `_provided_loop` answers by caller."""
    base = type(arb)
    if getattr(base, "_verif_sim", False):
        return
    if base not in _SIM_CLASSES:
        def _get(self):
            if sys._getframe(1).f_code.co_name != "start":
                return False
            # own-loop scenarios: the FIRST question Arbiter.start() asks (which way start_watchers is launched) gets the
            # answer circusd gets (no loop provided: `loop.add_future(self.start_watchers(), cb)`), the later ones
            # (block in start_io_loop? clean up in `finally`?) get the provided-loop answer so that the harness keeps the loop
            if self.__dict__.get("_verif_own_loop"):
                self.__dict__["_verif_own_loop"] = False
                return False
            return True

        def _set(self, v):
            pass
        _SIM_CLASSES[base] = type("Sim" + base.__name__, (base,), {"_provided_loop": property(_get, _set), "_verif_sim": True})
    arb.__dict__.pop("_provided_loop", None)
    arb.__class__ = _SIM_CLASSES[base]


class Sim(object):
    """one scenario on the real code"""

    def __init__(self, sc):
        self.sc = sc
        self.k = Kernel(sc.get("behav"))
        self.k.desc = bool(sc.get("pid_desc"))
        self.sleepers = []       # (deadline_ms, seq, future)
        self.seq = 0
        self.blocked = False
        self.errors = []
        self.raised = []
        self.sock_ready = False

    # -- patch points
    def _tornado_sleep(self, duration):
        from tornado.concurrent import Future
        f = Future()
        self.seq += 1
        self.sleepers.append((self.k.now + int(round(duration * 1000)), self.seq, f))
        return f

    def _call_later(self, delay, callback, *args, **kw):
        """IOLoop.call_later of the daemon's loop: a timer owned by the harness scheduler"""
        self.seq += 1
        self.sleepers.append((self.k.now + int(round(delay * 1000)), self.seq, _Timer(callback, args, kw)))

    def _loop_stop(self):
        """IOLoop.stop: Arbiter.start() would return and close the sockets"""
        self.stop_requested = True

    def setup(self):
        import circus.arbiter as A
        import circus.process as P
        import circus.watcher as W
        from tornado.ioloop import IOLoop
        self._saved = [(P, "Popen", P.Popen), (W, "os", W.os), (A, "os", A.os), (W, "time", W.time),
                       (A, "time", A.time), (P, "time", P.time), (W, "tornado_sleep", W.tornado_sleep),
                       (A, "tornado_sleep", A.tornado_sleep), (A, "select", A.select), (W, "randint", W.randint)]
        A.select = _FakeSelect(self)
        # psutil figures of a process (memory, cpu, …) are outside the model: one look at the process table, NoSuchProcess
        # once the process is gone
        kern = self.k

        def get_info(process=None, interval=0, with_childs=False):
            if kern.state_of(kern.inn(process.pid)) == "g":
                raise psutil.NoSuchProcess(process.pid)
            return {"pid": process.pid}
        self._saved.append((P, "get_info", P.get_info))
        P.get_info = get_info
        # `dstats` asks psutil about the daemon itself (here: the harness process, with a real 10 ms cpu_percent sleep):
        # figures outside the model, replaced by a constant record
        import circus.commands.dstats as D
        self._saved.append((D, "get_info", D.get_info))
        D.get_info = lambda process=None, interval=0, with_childs=False: {"pid": 0, "children": []}
        # the jitter added to max_age is a parameter of the model, fixed to the least value the code asks for
        # (`randint(0, max_age_variance)`: nothing is added) — a worker is never expired before max_age
        W.randint = lambda a, b: a
        P.Popen = make_popen(self.k)
        W.os = _FakeOs(self.k)
        A.os = _FakeOs(self.k)
        W.time = _FakeTime(self.k)
        A.time = _FakeTime(self.k)
        P.time = _FakeTime(self.k)
        W.tornado_sleep = self._tornado_sleep
        A.tornado_sleep = self._tornado_sleep
        # tornado logs "Multiple exceptions in yield list" (every failure of a gen.multi after the first) as an error
        self._app_log = logging.getLogger("tornado.application")
        self._saved_app_log = (self._app_log.level, self._app_log.propagate)
        self._app_log.propagate = False
        self._app_log.setLevel(logging.CRITICAL)
        lg = logging.getLogger("circus")
        self._saved_log = (lg.level, lg.propagate)
        self._log_handler = _Capture(self.errors)
        lg.addHandler(self._log_handler)
        lg.setLevel(logging.ERROR)
        lg.propagate = False
        self.aloop = asyncio.new_event_loop()
        asyncio.set_event_loop(self.aloop)
        self.aloop.set_exception_handler(self._on_exc)
        self.loop = IOLoop.current()
        counters = {}
        ws = []
        for w in self.sc["watchers"]:
            ws.append(self.make_watcher(w, counters))
            ws[-1]._verif_cfg = True          # a watcher of the configuration: its hook counters are in `counters`
        self.counters = counters
        global CURRENT
        CURRENT = self
        a = self.sc.get("arb", {})
        self.arb = A.Arbiter(ws, "ipc:///dev/shm/verif-none-ctl", "ipc:///dev/shm/verif-none-pub",
                             check_delay=-1, loop=self.loop, warmup_delay=a.get("warmup_ms", 0) / 1000.0,
                             endpoint_owner=a.get("owner"))
        simify_arbiter(self.arb)
        self.stop_requested = False
        self.loop.call_later = self._call_later
        self.loop.stop = self._loop_stop
        self.pub = FakePub(self.k)
        self.arb.evpub_socket = self.pub
        # what Arbiter.initialize does, minus zmq
        for w in self.arb.iter_watchers():
            self.arb._watchers_names[w.name.lower()] = w
            w.initialize(self.pub, self.arb.sockets, self.arb)
        self.stream = FakeStream(self.k, body_of)
        self.arb.ctrl.stream = self.stream
        self.arb.ctrl.started = True          # so that Controller.stop() closes the stream as in the daemon
        self.arb.ctrl.caller = None
        self.arb.ctrl.ctrl_socket = _Closable()


    def make_watcher(self, w, counters):
        import circus.watcher as W
        hooks = {}
        for hname, spec in (w.get("hooks") or {}).items():
            hooks[hname] = (_hook(self.k, w["name"], hname, spec, counters), bool(spec.get("ignore")))
        return W.Watcher(
            w["name"], "worker --name %s --wid $(circus.wid)" % w["name"].replace(" ", "_"),
            numprocesses=w.get("np", 1), warmup_delay=w.get("warmup_ms", 0) / 1000.0,
            graceful_timeout=w.get("graceful_ms", 300) / 1000.0, stop_signal=w.get("stop_signal", 15),
            stop_children=w.get("stop_children", False), priority=w.get("priority", 0),
            singleton=w.get("singleton", False), respawn=w.get("respawn", True),
            autostart=w.get("autostart", True), max_retry=w.get("max_retry", 5),
            send_hup=w.get("send_hup", False), on_demand=w.get("on_demand", False),
            max_age=w.get("max_age", 0), max_age_variance=w.get("max_age_variance", 0), hooks=hooks or None, loop=self.loop)

    def teardown(self):
        for mod, name, val in self._saved:
            setattr(mod, name, val)
        self._app_log.setLevel(self._saved_app_log[0])
        self._app_log.propagate = self._saved_app_log[1]
        logging.getLogger("circus").removeHandler(self._log_handler)
        logging.getLogger("circus").setLevel(self._saved_log[0])
        logging.getLogger("circus").propagate = self._saved_log[1]
        try:
            self.arb.ctrl.sys_hdl.stop()
        except Exception:
            pass
        for _, _, f in self.sleepers:
            f.cancel()
        for name in ("call_later", "stop"):
            try:
                delattr(self.loop, name)
            except AttributeError:
                pass
        try:
            self.settle()
        except BaseException:
            pass
        # descriptors the scenario opened: worker pipes of watchers with stream options, their stream objects
        for w in list(getattr(getattr(self, "arb", None), "watchers", None) or []):
            red = getattr(w, "stream_redirector", None)
            try:
                if red is not None:
                    red.stop()
            except Exception:
                pass
            for ch in ("stdout_stream", "stderr_stream"):
                so = getattr(w, ch, None)
                try:
                    if so is not None and hasattr(so, "close"):
                        so.close()
                except Exception:
                    pass
        for p in getattr(self.k, "popens", []):
            p.close_pipes()
        self.aloop.close()
        asyncio.set_event_loop(None)

    def _on_exc(self, loop, ctx):
        e = ctx.get("exception")
        if isinstance(e, Blocked):
            self.blocked = True
            return
        if "never retrieved" in str(ctx.get("message")):
            # a failed future nobody asked about (a coroutine called without `yield`: the kill_process that spawn_process
            # starts for an after_spawn-rejected worker, the _start_watchers that manage_watchers starts on a socket event):
            # asyncio logs it when the future is freed — at once when only reference counts hold it, whenever the cycle
            # collector runs when it sits in a cycle (spawn_process keeps that future in a local: future -> exception ->
            # traceback -> frames -> future).  A log line whose moment depends on the collector is not behaviour.
            return
        name = type(e).__name__ if e is not None else "error"
        self.raised.append(name)
        self.k.out("o raised %s" % name)

    def settle(self):
        for _ in range(10000):
            st = getattr(getattr(self, "arb", None), "ctrl", None)
            st = getattr(st, "stream", None)
            if isinstance(st, FakeStream):
                st.loop_stopped = lambda: self.stop_requested
                st.iteration_done()
            self.aloop.call_soon(self.aloop.stop)
            try:
                self.aloop.run_forever()
            except Blocked:
                self.blocked = True
                return
            if not self.aloop._ready:
                return
        raise RuntimeError("event loop does not settle")

    # -- ops
    def apply(self, op):
        k = self.k
        kind = op[0]
        k.begin_step()
        try:
            if kind == "start":
                # Arbiter.start(): start_watchers as a coroutine on the provided loop
                # the real Arbiter.start(), in its provided-loop form (no blocking start_io_loop), with zmq set-up stubbed
                from circus.exc import ConflictError
                simify_arbiter(self.arb)
                if self.sc.get("own_loop"):
                    self.arb.__dict__["_verif_own_loop"] = True
                self.arb.initialize = lambda: None
                self.arb.ctrl.start = lambda: None
                # own-loop call site: `loop.add_future(self.start_watchers(), cb)` — circusd passes no `cb`, so an exception of
                # start_watchers is never asked for and asyncio logs it whenever the collector finds the future; the
                # harness passes the documented `cb` as its observer (what `_watch` is for the provided-loop call site)
                f = self.arb.start(cb=self._watch_done)
                if f.done() and isinstance(f.exception(), ConflictError):
                    k.out("o conflict")
                    k.reasons.append(str(f.exception()))
                else:
                    self._watch(f)
            elif kind in ("req", "raw"):
                msg = op[1]
                if kind == "req" and getattr(k, "desc", False) and isinstance(msg, dict) and isinstance(msg.get("properties"), dict):
                    pr = dict(msg["properties"])
                    for key in ("pid", "childpid", "process"):
                        v = pr.get(key)
                        if isinstance(v, bool):
                            continue
                        if isinstance(v, int):
                            pr[key] = k.ext(v)
                        elif isinstance(v, str) and v.strip().lstrip("+").isdigit() and int(v) in k.procs:
                            pr[key] = v.replace(v.strip().lstrip("+"), str(k.ext(int(v))))
                    msg = dict(msg, properties=pr)
                raw = json.dumps(msg).encode() if kind == "req" else bytes(op[1])
                try:
                    self.arb.ctrl.handle_message([("c%d" % (op[2] if len(op) > 2 else 0)).encode(), raw])
                except Blocked:
                    raise
                except Exception as e:              # escaped from the recv handler: the loop logs it, nobody is answered
                    k.out("o raised %s" % type(e).__name__)
            elif kind == "xreq":
                # a request for a registered command whose execute() raises an exception of the named class
                # (classes outside Exception included): dispatch has to turn it into one error reply
                import builtins
                import circus.exc
                cls = getattr(circus.exc, op[3], None) or getattr(builtins, op[3])
                msg = op[1]
                cmd = self.arb.ctrl.commands[str(msg.get("command")).lower()]

                def boom(*a, **kw):
                    raise cls("boom")
                cmd.execute = boom
                try:
                    self.arb.ctrl.handle_message([("c%d" % op[2]).encode(), json.dumps(msg).encode()])
                except Blocked:
                    raise
                except BaseException as e:          # escaped from dispatch: the loop would die or log it
                    k.out("o raised %s" % type(e).__name__)
                finally:
                    del cmd.execute
            elif kind == "sig":
                # what the SysHandler does when the signal arrives
                if op[1] == "quit":
                    self.arb.ctrl.sys_hdl.quit()
                else:
                    self.arb.ctrl.sys_hdl.reload()
            elif kind == "check":
                from circus.exc import ConflictError
                try:
                    f = self.arb.manage_watchers()
                    self._watch(f)
                except ConflictError as e:
                    k.out("o conflict")
                    k.reasons.append(str(e))
            elif kind == "wake":
                if self.sleepers:
                    self.sleepers.sort(key=lambda s: (s[0], s[1]))
                    d, _, f = self.sleepers.pop(0)
                    if d > k.now:
                        k.now = d
                    k.resolve()
                    if isinstance(f, _Timer):
                        self.aloop.call_soon(f.fire)
                    elif not f.done():
                        f.set_result(None)
                else:
                    k.out("o nosleeper")
            elif kind == "adv":
                lim = min([s[0] for s in self.sleepers] + [k.now + op[1]])
                k.now = max(k.now, min(k.now + op[1], lim))
                k.resolve()
            elif kind == "die":
                k.die(op[1], op[2])
            elif kind == "xkill":
                k.kill(op[1], op[2], via="x")
            elif kind == "fault":
                k.faults.append((op[1], op[2], op[3]))
            elif kind == "sockev":
                self.sock_ready = bool(op[1])      # a connection is waiting on a managed socket (select reports it)
            elif kind == "poke":
                # unit-level probe: force a watcher's status (possibly an unreachable state)
                w = self.arb._watchers_names.get(op[1].lower())
                if w is None:
                    k.out("o raised NoWatcher")
                else:
                    w._status = op[2]
                return                              # no loop run: nothing was scheduled
            elif kind == "call":
                # unit-level probe: call one watcher method directly (coroutines get an exception watch)
                w = self.arb._watchers_names.get(op[1].lower())
                if w is None:
                    k.out("o raised NoWatcher")
                else:
                    fn = op[2]
                    try:
                        if fn == "manage":
                            self._watch(w.manage_processes())
                        elif fn == "start":
                            self._watch(w._start())
                        elif fn == "stop":
                            self._watch(w._stop())
                        elif fn == "spawns":
                            self._watch(w.spawn_processes())
                        elif fn == "kills":
                            self._watch(w.kill_processes())
                        elif fn == "reaps":
                            w.reap_processes()
                        elif fn == "spawn1":
                            w.spawn_process()
                    except Blocked:
                        raise
                    except Exception as e:          # a synchronous method raised: the loop would log it
                        k.out("o raised %s" % type(e).__name__)
            else:
                raise ValueError("unknown op %r" % (op,))
            self.settle()
            if self.stop_requested:
                # the loop has been stopped: Arbiter.start() returns and its `finally` closes everything
                self.stop_requested = False
                self.arb.stop_controller_and_close_sockets()
                self.settle()
        except Blocked:
            self.blocked = True
        if k.blocked:                 # a bare `except:` in the code under test may have swallowed it
            self.blocked = True
        if self.blocked:
            k.log.append("o blocked")

    def _watch_done(self, fut):
        e = fut.exception()
        if e is not None:
            if isinstance(e, Blocked):
                self.blocked = True
            else:
                self.k.out("o raised %s" % type(e).__name__)

    def _watch(self, f):
        if f is not None and hasattr(f, "add_done_callback"):
            f.add_done_callback(self._watch_done)

    def snapshot(self):
        arb = self.arb
        ws = []
        for w in arb.watchers:
            inn = getattr(self.k, "inn", lambda x: x)          # (the live kernel of harness/live.py shows real pids as they are)
            procs = ",".join("%d.%s.%d" % (inn(p.pid), p.wid, 1 if p.stopping else 0) for p in w.processes.values()) or "-"
            np_ = w.numprocesses
            ws.append("%s:%s:%s:%s" % (enc(w.name), w._status, np_, procs))
        names = ",".join(enc(n) for n in sorted(arb._watchers_names)) or "-"
        sl = ",".join(str(d - self.k.now) for d, _, _ in sorted(self.sleepers, key=lambda s: (s[0], s[1]))) or "-"
        flags = "%d%d" % (1 if arb._stopping else 0, 1 if arb._restarting else 0)
        return "s %s %s | %s | %s | %s | %s | t=%d" % (arb._exclusive_running_command or "-", flags, " ".join(ws) or "-",
                                                     names, sl, self.k.snapshot(), self.k.now)

    def options_digest(self):
        """for the oracles only (not compared with the model): per registered watcher, a digest of ALL its option values as the
        real `Watcher.options()` reports them (cmd, env, uid, … included) — `name:digest` in list order"""
        import hashlib
        out = []
        for w in self.arb.watchers:
            try:
                txt = json.dumps([[k, v] for k, v in w.options()], sort_keys=True, default=repr)
            except Exception as e:                      # options() itself raised: that is a state of its own
                txt = "raised %s" % type(e).__name__
            out.append("%s:%s" % (enc(w.name), hashlib.sha1(txt.encode()).hexdigest()[:10]))
        return " ".join(out) or "-"

    def step_record(self, op):
        return {"op": op, "lines": list(self.k.log), "snap": self.snapshot() if not self.blocked else "s blocked",
                "slept": self.k.slept, "opts": self.options_digest() if not self.blocked else "-",
                "reasons": list(self.k.reasons)}

    def run(self):
        """returns list of steps: {"op":…, "lines":[…], "snap": "…", "slept": ms, "opts": "…"}"""
        steps = []
        self.setup()
        try:
            for op in self.sc["ops"]:
                self.k.log = []
                self.k.reasons = []
                self.apply(op)
                steps.append(self.step_record(op))
                if self.blocked:
                    break
        finally:
            self.teardown()
        return steps


class _Timer(object):
    def __init__(self, cb, args, kw):
        self.cb, self.args, self.kw = cb, args, kw

    def fire(self):
        self.cb(*self.args, **self.kw)

    def cancel(self):
        pass

    def done(self):
        return False


class _Closable(object):
    def close(self):
        pass


class _Capture(logging.Handler):
    def __init__(self, sink):
        logging.Handler.__init__(self, level=logging.ERROR)
        self.sink = sink

    def emit(self, rec):
        try:
            self.sink.append(rec.getMessage()[:200])
        except Exception:
            pass


def run_scenario(sc):
    return Sim(sc).run()


if __name__ == "__main__":
    sc = json.load(open(sys.argv[1])) if len(sys.argv) > 1 else {
        "watchers": [{"name": "w1", "np": 2, "graceful_ms": 300}],
        "behav": [{"term": ["ignore"]}, {"term": ["obey", 50]}],
        "ops": [["start"], ["wake"], ["wake"], ["wake"], ["req", {"command": "stop", "id": "x1", "properties": {"waiting": True}}],
                ["wake"], ["wake"], ["wake"], ["wake"], ["wake"], ["wake"], ["wake"]]}
    for st in run_scenario(sc):
        print(">>", st["op"])
        for l in st["lines"]:
            print("   ", l)
        print("   ", st["snap"])
