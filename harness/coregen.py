"""Scenario generator for the core state machine (DESIGN.md 4.5).

Scenarios are generated *adaptively*: the next op is chosen looking at the state of the real
code driven so far (live pids, pending sleepers, watcher names), so that most requests are
meaningful; a scenario is nevertheless just data (config + op list) and replays exactly on the
implementation and on the model."""
import random

from harness import sim

NAMES = ["a", "B", "c c", "Éd", "w3", "Straße"]
GRACE = [0, 100, 200, 300, 500]            # ms; the float loop `waited += 0.1` makes ceil(ms/100) polls for these
WARM = [0, 0, 100, 300]
SIGS = [15, 2, 3, 10]
HOOK_NAMES = ["before_start", "after_start", "before_spawn", "after_spawn", "before_stop", "after_stop",
              "before_signal", "after_signal", "before_reap", "after_reap"]


def float_polls(gt_s):
    """number of 0.1 s polls the pinned float arithmetic of kill_process performs"""
    waited, n = 0, 0
    while waited < gt_s:
        waited += 0.1
        n += 1
    return n


assert all(float_polls(g / 1000.0) == (g + 99) // 100 for g in GRACE + [2000, 30000])


def case_variant(rng, name):
    return "".join(c.upper() if rng.random() < 0.5 else c.lower() for c in name)


def gen_watcher(rng, name, profile):
    w = {"name": name, "np": rng.choice([0, 1, 1, 2, 2, 3, 4]), "warmup_ms": rng.choice(WARM),
         "graceful_ms": rng.choice(GRACE), "stop_signal": rng.choice(SIGS), "priority": rng.choice([0, 0, 1, 2, -1]),
         "respawn": rng.random() < 0.85, "autostart": rng.random() < 0.9,
         "stop_children": rng.random() < 0.25, "max_retry": rng.choice([1, 2, 5]),
         "send_hup": rng.random() < 0.1, "singleton": False}
    if rng.random() < 0.12:
        w["singleton"] = True
        w["np"] = rng.choice([0, 1])
    if profile.get("hooks") or rng.random() < 0.25:
        hooks = {}
        for h in rng.sample(HOOK_NAMES, rng.choice([1, 1, 2, 3])):
            outs = [rng.choice(["true", "true", "false", "raise"]) for _ in range(rng.choice([1, 1, 2, 3]))]
            hooks[h] = {"out": outs, "ignore": rng.random() < 0.4}
        w["hooks"] = hooks
    if rng.random() < profile.get("max_age", 0.06):
        w["max_age"] = 1
        w["max_age_variance"] = rng.choice([0, 1, 2, 30])
    if rng.random() < profile.get("on_demand", 0.12):
        w["on_demand"] = True
    return w


def gen_behav(rng, profile):
    out = []
    for _ in range(rng.choice([1, 2, 3, 5])):
        b = {}
        r = rng.random()
        if r < 0.35 + profile.get("stubborn", 0):
            b["term"] = ["ignore"]
        else:
            b["term"] = ["obey", rng.choice([0, 0, 1, 50, 100, 150, 250, 300, 400])]
        b["kill_lat"] = rng.choice([0, 0, 1, 2])
        if rng.random() < 0.2:
            b["kids"] = rng.choice([1, 2])
            b["kid_term"] = rng.choice([["obey", 0], ["ignore"]])
        if rng.random() < profile.get("exec_fail", 0.08):
            b["exec_fail"] = True
        # a fork/exec always takes time: two workers of one watcher never share their `Process.started` (with ties the
        # surplus sort of manage_processes would keep dict order — the live cross-check showed a real kernel never ties)
        b["spawn_ms"] = rng.choice([20, 50, 150, 400]) if rng.random() < profile.get("slow_spawn", 0.15) else rng.choice([1, 1, 2, 5])
        out.append(b)
    # a worker the daemon may not signal (it runs under another uid: os.kill raises EPERM, psutil.AccessDenied), or
    # one whose children it may not signal: rare by default (profile knob `eperm` = share of the scenarios that have one)
    if rng.random() < profile.get("eperm", 0.04):
        for b in rng.sample(out, rng.choice([1, 1, len(out)])):
            if b.get("kids") and rng.random() < 0.5:
                b["kid_eperm"] = True
                if rng.random() < 0.3:
                    b["eperm"] = True
            else:
                b["eperm"] = True
    return out


def gen_config(rng, profile=None):
    profile = profile or {}
    nw = rng.choice([1, 1, 2, 2, 3])
    names = rng.sample(NAMES, nw)
    return {"arb": {"warmup_ms": rng.choice([0, 0, 100, 1000])},
            "watchers": [gen_watcher(rng, n, profile) for n in names],
            "behav": gen_behav(rng, profile)}


class View(object):
    """what the generator may look at"""

    def __init__(self, s):
        arb = s.arb
        self.names = [w.name for w in arb.watchers]
        inn = getattr(s.k, "inn", lambda x: x)
        self.pids = {w.name: [inn(p) for p in w.processes.keys()] for w in arb.watchers}
        self.all_pids = [p for l in self.pids.values() for p in l]
        self.kernel_live = [p.pid for p in s.k.procs.values() if p.state == "r"]
        self.kids = [p.pid for p in s.k.procs.values() if p.state == "r" and p.ppid not in (0, None)]
        self.kid_parent = {p.pid: p.ppid for p in s.k.procs.values() if p.state == "r" and p.ppid not in (0, None)}
        self.sleepers = len(s.sleepers)
        self.next_pid = s.k.next_pid
        self.slot = arb._exclusive_running_command
        self.stopping = arb._stopping
        self.any_on_demand = any(getattr(w, "on_demand", False) for w in arb.watchers)
        self._owner = arb.endpoint_owner if getattr(arb, "endpoint_owner_mode", False) else None

    def owner(self):
        return self._owner


def some_name(rng, v, bogus=0.1):
    if not v.names or rng.random() < bogus:
        return rng.choice(["nosuch", "", "Z", 5, None])
    n = rng.choice(v.names)
    return case_variant(rng, n) if rng.random() < 0.5 else n


OPT_CARRIED = list(sim.OPT_MS + sim.OPT_INT + sim.OPT_BOOL + sim.OPT_TRUTH)      # option names the model's watcher record carries
OPT_OTHER = ["working_dir", "uid", "gid", "shell", "shell_args", "env", "cmd", "args", "executable", "use_sockets", "copy_env",
             "stdout_stream_conf", "stderr_stream_conf", "max_age_variance", "close_child_stdin", "close_child_stdout",
             "close_child_stderr"]                                                # option names of the real watcher only
NOT_OPTS = ["nosuch", "autostart", "hooks", "name", "NUMPROCESSES", "numprocesses ", "", "n", 5, None, True, 1.5,
            ["numprocesses"], {"numprocesses": 1}]


def some_keys(rng):
    """the `keys` of a `get` request: option names (carried by the model or not, repeated or not), with an item that is no
    option name now and then; an empty list; or a value of the wrong type (string, object, number, null)"""
    r = rng.random()
    if r < 0.7:
        keys = [rng.choice(OPT_CARRIED) if rng.random() < 0.75 else rng.choice(OPT_OTHER) for _ in range(rng.choice([1, 1, 2, 3, 5]))]
        if rng.random() < 0.2:
            keys.insert(rng.randint(0, len(keys)), rng.choice(NOT_OPTS))
        return keys
    if r < 0.78:
        return []
    return rng.choice(["numprocesses", "", "x", None, 5, 0, True, False, 1.5, {"numprocesses": 1}, {"nosuch": 1, "cmd": 2}, {},
                       {"cmd": None, "numprocesses": None}])


def some_pid(rng, v, name=None):
    r = rng.random()
    own = v.pids.get(name, []) if name in v.pids else v.all_pids
    if own and r < 0.6:
        return rng.choice(own)
    if v.all_pids and r < 0.75:
        return rng.choice(v.all_pids)
    if v.kids and r < 0.85:
        return rng.choice(v.kids)
    return rng.choice([0, 1, 99, v.next_pid, v.next_pid + 3, "abc", -1, None, 0])


def resolve_name(v, n):
    if isinstance(n, str):
        for x in v.names:
            if x.lower() == n.lower():
                return x
    return None


def gen_request(rng, v, rid, profile):
    """a JSON request (dict)"""
    r = rng.random()
    waiting = rng.random() < 0.5
    props = {}
    p = profile.get("req", {})

    def base(cmd):
        m = {"command": case_variant(rng, cmd) if rng.random() < 0.1 else cmd, "id": rid, "properties": props}
        if rng.random() < 0.04:
            m["msg_type"] = "cast"
        if rng.random() < 0.06 and not props.get("waiting"):
            # any JSON value is an id, the falsy ones included; the reply has to carry it back as it came
            m["id"] = rng.choice([0, "", False, [], {}, None, 7, True, [0], {"a": None}])
        return m
    cum = 0.0

    def pick(weight):
        nonlocal cum
        cum += weight
        return r < cum
    if pick(p.get("ssr", 0.26)):
        cmd = rng.choice(["start", "stop", "restart", "stop", "start"])
        if rng.random() < 0.75:
            props["name"] = some_name(rng, v)
            if rng.random() < 0.5:
                props["match"] = rng.choice(["simple", "simple", "glob", "bogus"])
            elif rng.random() < 0.15 and isinstance(props["name"], str):
                props["name"] = rng.choice(["*", "?", props["name"][:1] + "*"])
        if waiting:
            props["waiting"] = True
        return base(cmd)
    if pick(p.get("reload", 0.07)):
        if rng.random() < 0.8:
            props["name"] = some_name(rng, v)
        if rng.random() < 0.4:
            props["graceful"] = rng.random() < 0.6
        if rng.random() < 0.4:
            props["sequential"] = rng.random() < 0.7
        if waiting:
            props["waiting"] = True
        return base("reload")
    if pick(p.get("incr", 0.12)):
        props["name"] = some_name(rng, v)
        if rng.random() < 0.6:
            props["nb"] = rng.choice([1, 1, 2, 3, -1, 0, 1.5, "2", None, True])
        if waiting:
            props["waiting"] = True
        return base(rng.choice(["incr", "decr"]))
    if pick(p.get("set", 0.08)):
        props["name"] = some_name(rng, v)
        opts = {}
        for _ in range(rng.choice([1, 1, 2, 3])):
            k = rng.choice(["numprocesses", "numprocesses", "graceful_timeout", "warmup_delay", "stop_signal",
                            "stop_children", "send_hup", "uid", "bogus_key", "respawn", "max_retry", "cmd", "cmd"] +
                           # profiles whose oracles do not read max_age from the configuration also change it at run time
                           (["max_age", "singleton"] if profile.get("set_extra") else []))
            opts[k] = {"numprocesses": rng.choice([0, 1, 2, 3, 5, -2, "3", 2.5, True]),
                       "graceful_timeout": rng.choice([0, 0.1, 0.3, 0.5, 2, "x"]),
                       "warmup_delay": rng.choice([0, 0.1, 0.3, None]),
                       "stop_signal": rng.choice([15, 2, 9, 0, 100, "TERM", True]),
                       "stop_children": rng.choice([True, False, "yes"]),
                       "send_hup": rng.choice([True, False, 1]),
                       "uid": rng.choice([0, "root", "nosuchuser-xyz", 987654, 1.5]),
                       "bogus_key": 1, "respawn": rng.choice([True, False, "no"]),
                       "max_retry": rng.choice([1, 3, "x"]), "cmd": "worker --name %s --wid $(circus.wid)" % "x",
                       # max_age: seconds a worker may live (0 = for ever); `singleton` passes validation with any value and
                       # is then ignored by Watcher.set_opt (as respawn and max_retry are): `options` shows it unchanged
                       "max_age": rng.choice([0, 0, 1, 2, 5, True, "1", 1.5]),
                       "singleton": rng.choice([True, False, 1, "yes"])}[k]
        if rng.random() < profile.get("set_np", 0.1):
            # a plain `set numprocesses`, boundary values included (negative, zero, above a singleton's limit, not an integer)
            opts = {"numprocesses": rng.choice([-2, -1, 0, 0, 1, 2, 3, 5, "3", 2.5, True])}
        # (only in profiles whose oracles follow hooks installed at run time: C14, C11, C06, C03, and the profile-less bulk comparison)
        if rng.random() < profile.get("set_hooks", 0.0):
            # a hook installed (or replaced) at run time: "dotted.name[,flag]"; by key `hooks.<name>` or through the `hooks` dict
            hn = rng.choice(HOOK_NAMES + ["before_start", "before_spawn", "after_spawn", "bogus_hook"])
            outs = "".join(rng.choice("ttfr") for _ in range(rng.choice([1, 1, 2, 3])))
            val = rng.choice(["harness.simhooks.o_%s" % outs] * 6 + ["harness.simhooks.nosuch", "nosuchmodule.fn", 5, None,
                                                                     "harness.simhooks.o_"])
            if isinstance(val, str) and rng.random() < 0.6:
                val += "," + rng.choice(["true", "true", "True", "1", "on", "yes", " true ", "false", "0", "no", "off", "maybe", "",
                                         "true,x"])
            if rng.random() < 0.5:
                opts["hooks." + hn] = val
            else:
                opts["hooks"] = {hn: val} if rng.random() < 0.9 else rng.choice([{}, {hn: val, "after_stop": val}, "x"])
        if "cmd" in opts:
            n = resolve_name(v, props["name"])
            opts["cmd"] = "worker --name %s --wid $(circus.wid)" % (n or "x").replace(" ", "_")
        props["options"] = opts if rng.random() < 0.95 else rng.choice([[], "x", None])
        if waiting:
            props["waiting"] = True
        return base("set")
    if pick(p.get("kill", 0.10)):
        props["name"] = some_name(rng, v)
        if rng.random() < 0.7:
            props["pid"] = some_pid(rng, v, resolve_name(v, props["name"]))
        if rng.random() < 0.5:
            props["signum"] = rng.choice([15, 2, 9, 10, 0, 65, -3, "bogus", 1.5, None])
        if rng.random() < 0.5:
            props["graceful_timeout"] = rng.choice([0, 0.1, 0.3, 2, 0.5, None])
        if waiting:
            props["waiting"] = True
        return base("kill")
    if pick(p.get("signal", 0.08)):
        props["name"] = some_name(rng, v)
        props["signum"] = rng.choice([15, 2, 1, 9, 10, 0, 99, "bogus", 2.5, 19, 19, 18, 20])
        if rng.random() < 0.15:
            del props["signum"]
        if rng.random() < 0.6:
            props["pid"] = some_pid(rng, v, resolve_name(v, props["name"]))
        rr = rng.random()
        if rr < 0.15:
            props["children"] = True
        elif rr < 0.3:
            props["recursive"] = True
        elif rr < 0.4:
            props["childpid"] = some_pid(rng, v)
            if v.kid_parent and rng.random() < 0.7:
                # a worker together with one of its own children: only that child is addressed
                kid = rng.choice(sorted(v.kid_parent))
                props["pid"], props["childpid"] = v.kid_parent[kid], kid
                owner = next((n for n, ps in v.pids.items() if props["pid"] in ps), None)
                if owner is not None and rng.random() < 0.9:
                    props["name"] = owner
        return base("signal")
    if pick(p.get("rm", 0.04)):
        props["name"] = some_name(rng, v)
        if rng.random() < 0.3:
            props["nostop"] = True
        if waiting:
            props["waiting"] = True
        return base("rm")
    if pick(p.get("add", 0.05)):
        n = rng.choice(NAMES + ["", "new", 7, " a", "B ", " new", "w3 "])
        if isinstance(n, str) and rng.random() < 0.3:
            n = case_variant(rng, n)
        props["name"] = n
        props["cmd"] = "worker --name %s --wid $(circus.wid)" % (n.replace(" ", "_") if isinstance(n, str) and n else "x")
        if rng.random() < 0.6:
            props["start"] = True
        if rng.random() < 0.6:
            o = {}
            for _ in range(rng.choice([1, 2])):
                k = rng.choice(["numprocesses", "singleton", "graceful_timeout", "warmup_delay", "respawn", "bogus", "stop_signal"])
                o[k] = {"numprocesses": rng.choice([0, 1, 2, 3, "2"]), "singleton": rng.choice([True, False, 1]),
                        "graceful_timeout": rng.choice([0, 0.1, 0.3]), "warmup_delay": rng.choice([0, 0.1]),
                        "respawn": rng.choice([True, False]), "bogus": 1, "stop_signal": rng.choice([15, 2, "x"])}[k]
            props["options"] = o
        owner = v.owner() if hasattr(v, "owner") else None
        if owner is not None:
            # endpoint-owner mode: the uid of the request has to be the owner (given, missing, another user, a number)
            r = rng.random()
            if r < 0.5:
                props.setdefault("options", {})["uid"] = owner
            elif r < 0.8:
                props.setdefault("options", {})["uid"] = rng.choice(["nobody", 0, "Root", ""])
        if rng.random() < 0.1:
            del props["cmd"]
        return base("add")
    if pick(p.get("quit", 0.015)):
        if waiting:
            props["waiting"] = True
        return base("quit")
    if pick(p.get("ro", 0.14)):
        cmd = rng.choice(["status", "list", "numprocesses", "numwatchers", "status", "list", "options", "options", "options",
                          "get", "get", "get", "globaloptions", "listen", "stats", "stats", "dstats", "listsockets"])
        if cmd in ("status", "list", "numprocesses", "stats") and rng.random() < 0.6:
            props["name"] = some_name(rng, v)
            if cmd == "stats" and rng.random() < 0.4:
                p_ = some_pid(rng, v, resolve_name(v, props["name"]))
                props["process"] = p_ if isinstance(p_, int) and not isinstance(p_, bool) else 5
        if cmd == "options":
            props["name"] = some_name(rng, v, bogus=0.25)
            if rng.random() < 0.06:
                del props["name"]
        if cmd == "get":
            props["name"] = some_name(rng, v, bogus=0.2)
            props["keys"] = some_keys(rng)
            if rng.random() < 0.08:
                del props[rng.choice(["name", "keys"])]
        if cmd == "globaloptions" and rng.random() < 0.65:
            props["option"] = rng.choice(list(sim.GLOBAL_OPTS) + ["check_delay", "nosuch", "CHECK_DELAY", "", 0, 5, None,
                                                                  ["check_delay"], {"a": 1}, True, False, 1.5, 0.0, [], {}])
        if cmd in ("dstats", "listsockets") and rng.random() < 0.25:
            props[rng.choice(["name", "keys", "x"])] = some_name(rng, v)      # properties these commands do not look at
        return base(cmd)
    # malformed at the message level
    bad = rng.choice([
        {"command": "nosuchcmd", "id": rid},
        {"command": None, "id": rid},
        {"command": 5, "id": rid, "properties": {}},
        {"id": rid},
        {"command": "stop", "id": rid, "properties": rng.choice([5, [1], "x", None])},
        # `"properties": null` is not an object: refused for every command, the ones without mandatory properties included
        {"command": rng.choice(["stop", "start", "restart", "reload", "quit", "numwatchers", "list", "incr"]), "id": rid,
         "properties": None},
        {"command": rng.choice(["stop", "restart", "reload", "quit"]), "id": rid, "properties": rng.choice([None, [], 0, False])},
        {"command": "status", "id": {"k": [rid]}, "properties": {}},
        {"command": "list", "properties": {}},
        {"command": "numwatchers", "id": rid, "msg_type": rng.choice(["cast", "dealer", 5])},
    ])
    return bad


RAW_FRAMES = [b"", b"  ", b"{", b"[1,2]", b"5", b"null", b'"s"', b"\xff\xfe", b'{"command": "list"',
              b"nope", b"[" * 50 + b"]" * 50, b'{"command":"status","id":1e999}', b"true"]


XRAISE_CLASSES = ["ValueError", "KeyError", "TypeError", "RuntimeError", "AttributeError", "StopIteration", "MessageError",
                  "ConflictError", "OSError", "FileNotFoundError", "PermissionError", "SystemExit", "KeyboardInterrupt",
                  "GeneratorExit", "BaseException", "Exception", "AlreadyExist", "ArgumentError"]


def gen_op(rng, v, rid, profile):
    w = profile.get("ops", {})
    r = rng.random()
    cum = 0.0
    for kind, weight in (("wake", w.get("wake", 0.36)), ("check", w.get("check", 0.12)), ("adv", w.get("adv", 0.05)),
                         ("die", w.get("die", 0.08)), ("xkill", w.get("xkill", 0.04)), ("fault", w.get("fault", 0.03)),
                         ("raw", w.get("raw", 0.02)), ("sig", w.get("sig", 0.012)),
                         ("sockev", w.get("sockev", 0.03 if v.any_on_demand else 0.0)),
                         ("unit", profile.get("unit_ops", 0.0) if v.names else 0.0)):
        cum += weight
        if r < cum:
            break
    else:
        kind = "req"
    if kind == "wake":
        return ["wake"]
    if kind == "check":
        return ["check"]
    if kind == "adv":
        return ["adv", rng.choice([1, 10, 50, 100, 150, 1000])]
    if kind in ("die", "xkill", "fault"):
        live = [p for p in v.kernel_live]
        if not live:
            return ["check"]
        pid = rng.choice(live)
        if kind == "die":
            st = sim.wstat_exit(rng.choice([0, 1, 2, 3, 127, 255])) if rng.random() < 0.6 else \
                sim.wstat_sig(rng.choice([9, 15, 11, 6, 2]))
            return ["die", pid, st]
        if kind == "xkill":
            return ["xkill", pid, rng.choice([9, 9, 15, 2, 1])]
        return ["fault", rng.randint(1, 12), pid, sim.wstat_sig(9) if rng.random() < 0.5 else sim.wstat_exit(rng.choice([0, 3]))]
    if kind == "raw":
        if rng.random() < 0.3:
            # a registered command whose execute() raises: every class has to end as one error reply
            msg = {"command": rng.choice(["numwatchers", "list", "NumWatchers", "status"]), "id": rid, "properties": {}}
            if rng.random() < 0.15:
                msg["msg_type"] = "cast"
            if rng.random() < 0.1:
                del msg["id"]
            return ["xreq", msg, rng.randint(0, 2), rng.choice(XRAISE_CLASSES)]
        return ["raw", list(rng.choice(RAW_FRAMES)), rng.randint(0, 2)]
    if kind == "sig":
        return ["sig", rng.choice(["quit", "reload", "reload"])]
    if kind == "sockev":
        return ["sockev", 1 if rng.random() < 0.7 else 0]
    if kind == "unit":
        n = rng.choice(v.names)
        if rng.random() < 0.3:
            n = case_variant(rng, n)
        if rng.random() < 0.4:
            return ["poke", n, rng.choice(["stopped", "stopped", "starting", "active", "stopping"])]
        return ["call", n, rng.choice(["manage", "start", "stop", "spawns", "kills", "reaps", "spawn1", "spawn1", "manage"])]
    return ["req", gen_request(rng, v, rid, profile), rng.randint(0, 2)]


def _w(name, **kw):
    w = {"name": name, "np": 1, "warmup_ms": 0, "graceful_ms": 100, "stop_signal": 15, "priority": 0, "respawn": True,
         "autostart": True, "stop_children": False, "max_retry": 2, "send_hup": False, "singleton": False}
    w.update(kw)
    return w


def _req(cmd, rid, **props):
    return ["req", {"command": cmd, "id": rid, "properties": props}, 0]


def recipe_on_demand_stop(rng):
    """an on-demand watcher whose socket-triggered start (detached, paced by warmup) is overtaken by a stop"""
    sc = {"arb": {"warmup_ms": 0}, "behav": [{"term": ["obey", rng.choice([0, 0, 50])], "kill_lat": 0, "spawn_ms": 1}],
          "watchers": [_w("a", np=rng.choice([2, 3, 4]), warmup_ms=rng.choice([100, 300]), graceful_ms=rng.choice([0, 100]),
                          on_demand=True)]}
    if rng.random() < 0.4:
        sc["watchers"].append(_w("B", np=1, priority=rng.choice([-1, 1])))
    pre = [["start"], ["wake"], ["wake"], ["sockev", 1], ["check"]]
    if rng.random() < 0.7:
        pre.append(["sockev", 0])
    pre += [["wake"]] * rng.choice([0, 0, 1])
    pre.append(_req(rng.choice(["stop", "stop", "restart"]), "q1", name="a", waiting=rng.random() < 0.5))
    pre += [["wake"]] * rng.choice([2, 4, 6])
    return sc, pre


def recipe_untracked_zombies(rng):
    """workers that the daemon no longer tracks (rm --nostop) die: the arbiter's waitpid(-1) loop has to collect them all"""
    n = rng.choice([2, 3, 4])
    sc = {"arb": {"warmup_ms": 0}, "behav": [{"term": ["obey", 0], "kill_lat": 0, "spawn_ms": 1}],
          "watchers": [_w("a", np=n), _w("B", np=rng.choice([0, 1]), priority=-1)]}
    pre = [["start"]] + [["wake"]] * 4 + [_req("rm", "q1", name="a", nostop=True)]
    pre += [(lambda i: (lambda v: ["die", 100 + i, rng.choice([0, 256, 9])]))(i) for i in range(n)]
    pre += [["check"], ["check"]]
    return sc, pre


def recipe_topup_start(rng):
    """several watchers started together while a running one is short of workers"""
    sc = {"arb": {"warmup_ms": rng.choice([0, 100])}, "behav": [{"term": ["obey", 0], "kill_lat": 0, "spawn_ms": 1}],
          "watchers": [_w("a", np=rng.choice([2, 3]), priority=2, warmup_ms=rng.choice([100, 300]), respawn=False),
                       _w("B", np=rng.choice([1, 2]), priority=0, warmup_ms=100)]}
    pre = [["start"]] + [["wake"]] * 8 + [_req("stop", "q1", name="B", waiting=True)] + [["wake"]] * 3
    pre += [lambda v: ["die", (v.pids.get("a") or [100])[0], 0]]
    if rng.random() < 0.5:
        pre += [lambda v: ["die", (v.pids.get("a") or [100, 101])[-1], 9]]
    pre += [["check"]]        # respawn is off: the dead workers are reaped and not replaced, "a" is short of workers
    pre += [_req("start", "q2", name="*", waiting=rng.random() < 0.5)] + [["wake"]] * 8
    return sc, pre


def recipe_signal_veto(rng):
    """a before_signal hook that says no, and requests that name a signal — SIGKILL included, which no hook may hold back"""
    outs = rng.choice([["false"], ["false", "true"], ["raise"], ["false", "false", "true"]])
    sc = {"arb": {"warmup_ms": 0}, "behav": [{"term": rng.choice([["obey", 0], ["ignore"]]), "kill_lat": rng.choice([0, 1]), "spawn_ms": 1}],
          "watchers": [_w("a", np=rng.choice([1, 2]), graceful_ms=rng.choice([100, 300]),
                          hooks={"before_signal": {"out": outs, "ignore": rng.random() < 0.3}})]}
    pre = [["start"]] + [["wake"]] * 4
    for i in range(rng.choice([1, 2, 3])):
        sg = rng.choice([9, 9, 15, 2, 10])
        if rng.random() < 0.6:
            props = {"name": "a", "signum": sg}
            if rng.random() < 0.5:
                pre.append((lambda pr: (lambda v: ["req", {"command": "signal", "id": "qs", "properties":
                                                         dict(pr, pid=(v.pids.get("a") or [100])[0])}, 0]))(props))
            else:
                pre.append(_req("signal", "qs%d" % i, **props))
        else:
            pre.append(_req("kill", "qk%d" % i, name="a", signum=sg, waiting=rng.random() < 0.5))
        pre += [["wake"]] * rng.choice([1, 3])
    pre += [["check"], ["wake"]]
    return sc, pre


def recipe_reap_veto(rng):
    """before_reap / after_reap hooks that say no or raise, and workers that die: the hooks gate nothing — a dead worker is
    popped, waited for and announced whatever they answer"""
    hooks = {"before_reap": {"out": rng.choice([["false"], ["false", "true"], ["raise"], ["raise", "false"]]),
                             "ignore": rng.random() < 0.3}}
    if rng.random() < 0.6:
        hooks["after_reap"] = {"out": rng.choice([["false"], ["raise"], ["true", "raise"]]), "ignore": rng.random() < 0.3}
    sc = {"arb": {"warmup_ms": 0}, "behav": [{"term": ["obey", 0], "kill_lat": 0, "spawn_ms": 1}],
          "watchers": [_w("a", np=rng.choice([1, 2, 3]), respawn=rng.random() < 0.6, hooks=hooks)]}
    if rng.random() < 0.3:
        sc["watchers"].append(_w("B", np=1, priority=rng.choice([-1, 1])))
    st = rng.choice([sim.wstat_exit(0), sim.wstat_exit(3), sim.wstat_sig(9)])
    pre = [["start"]] + [["wake"]] * 6
    pre.append(lambda v: ["die", (v.pids.get("a") or [100])[0], st])
    pre += [["check"]] + [["wake"]] * 4 + [["check"], ["wake"]]
    if rng.random() < 0.5:
        pre += [_req("stop", "qs", name="a", waiting=rng.random() < 0.5)] + [["wake"]] * 4
    return sc, pre


def recipe_singleton_set(rng):
    """a singleton watcher and requests that try to give it more than one process"""
    sc = {"arb": {"warmup_ms": 0}, "behav": [{"term": ["obey", 0], "kill_lat": 0, "spawn_ms": 1}],
          "watchers": [_w("a", np=1, singleton=True), _w("B", np=rng.choice([1, 2]), priority=-1)]}
    pre = [["start"]] + [["wake"]] * 5
    if rng.random() < 0.4:
        pre += [_req("stop", "q0", name="a", waiting=True), ["wake"], ["wake"]]
    opts = rng.choice([{"numprocesses": 3}, {"numprocesses": 2, "graceful_timeout": 0.1}, {"warmup_delay": 0, "numprocesses": 5}])
    pre += [_req("set", "q1", name="a", options=opts), ["wake"], ["check"], ["wake"], ["wake"]]
    pre += [_req(rng.choice(["incr", "decr"]), "q2", name="a", nb=rng.choice([1, 2])), ["wake"], ["check"], ["wake"]]
    return sc, pre


def recipe_set_hook(rng):
    """a hook installed, then replaced, at run time (`set <w> hooks.<name> = "dotted.name[,flag]"`), with outcomes that say no
    or raise, with and without the ignore-failure flag — and then the operations that call it"""
    first = {"before_spawn": {"out": rng.choice([["true"], ["raise"], ["true", "raise"]]), "ignore": rng.random() < 0.4}} \
        if rng.random() < 0.5 else None
    sc = {"arb": {"warmup_ms": 0}, "behav": [{"term": ["obey", 0], "kill_lat": 0, "spawn_ms": 1}],
          "watchers": [_w("a", np=rng.choice([1, 2]), respawn=rng.random() < 0.8, **({"hooks": first} if first else {}))]}
    pre = [["start"]] + [["wake"]] * 4
    hn = rng.choice(["before_spawn", "before_spawn", "after_spawn", "before_start", "after_start", "before_signal", "after_stop"])

    def val(flag):
        outs = rng.choice(["r", "r", "rt", "f", "tr", "rrt"])
        return "harness.simhooks.o_%s%s" % (outs, flag)
    flags = [rng.choice([",true", ",1", ",on", ", yes "]), rng.choice(["", ",false", ",0", ""])]
    if rng.random() < 0.3:
        flags.reverse()
    for i, fl in enumerate(flags):
        key = ("hooks." + hn) if rng.random() < 0.6 else "hooks"
        opts = {key: val(fl)} if key != "hooks" else {"hooks": {hn: val(fl)}}
        pre += [_req("set", "h%d" % i, name="a", options=opts, waiting=True), ["wake"]]
        if rng.random() < 0.35:
            # a replacement that is REFUSED (the name does not resolve, or the flag is no boolean word) with the opposite flag:
            # nothing of it may stick — neither the hook nor its flag
            other = ",true" if fl in ("", ",false", ",0") else ""
            bad = rng.choice(["nosuchmodule.fn" + other, "harness.simhooks.nosuch" + other, "harness.simhooks.o_t,maybe"])
            pre += [_req("set", "b%d" % i, name="a", options=({"hooks." + hn: bad} if rng.random() < 0.6 else {"hooks": {hn: bad}}),
                         waiting=True), ["wake"]]
        trig = rng.choice(["incr", "restart", "die", "stopstart"])
        if trig == "incr":
            pre += [_req("incr", "i%d" % i, name="a", waiting=True), ["wake"], ["wake"]]
        elif trig == "restart":
            pre += [_req("restart", "r%d" % i, name="a", waiting=True)] + [["wake"]] * 4
        elif trig == "die":
            pre += [lambda v: (["die", v.pids.get("a", [0])[0], 256] if v.pids.get("a") else ["check"]), ["check"], ["wake"], ["wake"]]
        else:
            pre += [_req("stop", "s%d" % i, name="a", waiting=True), ["wake"], ["wake"], _req("start", "t%d" % i, name="a", waiting=True),
                    ["wake"], ["wake"]]
        if i == 0 and rng.random() < 0.5:
            break
    return sc, pre


def recipe_pattern_subset(rng):
    """start / stop / restart addressed by a glob pattern that matches only some of the watchers, while a watcher
    outside the pattern has been stopped on purpose (or is running): the request must leave it alone and treat the
    matched ones in priority order"""
    prios = rng.choice([[0, 0, 0], [2, 1, 3], [1, 1, 5], [9, 5, 1]])
    sc = {"arb": {"warmup_ms": rng.choice([0, 0, 100])}, "behav": [{"term": ["obey", 0], "kill_lat": 0, "spawn_ms": 1}],
          "watchers": [_w("web1", np=rng.choice([1, 2]), priority=prios[0]), _w("web2", np=1, priority=prios[1]),
                       _w("db", np=rng.choice([1, 2]), priority=prios[2])]}
    pre = [["start"]] + [["wake"]] * 8
    if rng.random() < 0.8:
        pre += [_req("stop", "q1", name="db", waiting=True)] + [["wake"]] * 2
    if rng.random() < 0.3:
        pre += [_req("stop", "q2", name="web2", waiting=True)] + [["wake"]] * 2
    pat = rng.choice(["web*", "web?", "w*", "web*", "*b?", "d*"])
    cmd = rng.choice(["restart", "restart", "restart", "start", "stop"])
    pre += [_req(cmd, "q3", name=pat, match="glob", waiting=rng.random() < 0.6)] + [["wake"]] * 8 + [["check"], ["wake"]]
    return sc, pre


def recipe_children_vanish(rng):
    """a stop_children watcher whose worker has several children; one child disappears between the moment the
    children are listed and the moment it is signalled (death armed before the k-th kernel call of the step): the
    remaining children still have to get the signal"""
    sc = {"arb": {"warmup_ms": 0}, "behav": [{"term": rng.choice([["obey", 50], ["obey", 200], ["ignore"]]), "kill_lat": 0,
                                              "spawn_ms": 1, "kids": rng.choice([2, 3, 3])}],
          "watchers": [dict(_w("a", np=1, graceful_ms=rng.choice([300, 500])), stop_children=True)]}
    pre = [["start"]] + [["wake"]] * 3

    def fault(v):
        kids = sorted(v.kids)
        if not kids:
            return ["check"]
        victim = kids[0] if rng.random() < 0.7 else rng.choice(kids)
        return ["fault", rng.randint(2, 9), victim, sim.wstat_sig(9)]
    pre.append(fault)
    r = rng.random()
    if r < 0.5:
        pre.append(_req("stop", "q1", name="a", waiting=rng.random() < 0.5))
    elif r < 0.75:
        pre.append(lambda v: ["req", {"command": "kill", "id": "q1", "properties":
                                      {"name": "a", "pid": (v.pids.get("a") or [100])[0], "signum": rng.choice([2, 15])}}, 0])
    else:
        pre.append(lambda v: ["req", {"command": "signal", "id": "q1", "properties":
                                      {"name": "a", "pid": (v.pids.get("a") or [100])[0], "signum": rng.choice([2, 15, 10]),
                                       "children": True}}, 0])
    pre += [["wake"]] * 4
    return sc, pre


def recipe_stopped_worker(rng):
    """a worker is suspended with SIGSTOP / SIGTSTP (and perhaps continued): it is neither dead nor gone, the periodic
    checks must keep it listed and must not replace it"""
    sc = {"arb": {"warmup_ms": 0}, "behav": [{"term": ["obey", 0], "kill_lat": 0, "spawn_ms": 1}],
          "watchers": [_w("a", np=rng.choice([1, 2])), _w("B", np=1)]}
    pre = [["start"]] + [["wake"]] * 5
    sg = rng.choice([19, 19, 20])
    if rng.random() < 0.5:
        pre.append(_req("signal", "q1", name="a", signum=sg))
    else:
        pre.append(lambda v: ["req", {"command": "signal", "id": "q1", "properties":
                                      {"name": "a", "pid": (v.pids.get("a") or [100])[0], "signum": sg}}, 0])
    pre += [["check"], ["wake"], ["check"], ["wake"]]
    if rng.random() < 0.5:
        pre += [_req("signal", "q2", name="a", signum=18), ["check"]]
    pre += [_req(rng.choice(["list", "numprocesses", "status"]), "q3", name="a"), ["check"], ["wake"]]
    return sc, pre


def recipe_sequential_reload_death(rng):
    """a sequential reload replaces the workers one after the other; a worker that is still waiting for its turn dies (or
    is killed from outside) in the meantime: when its turn comes it is a zombie — its death still has to be announced"""
    sc = {"arb": {"warmup_ms": 0}, "behav": [{"term": rng.choice([["obey", 150], ["obey", 250], ["ignore"]]), "kill_lat": 0, "spawn_ms": 1}],
          "watchers": [_w("a", np=rng.choice([2, 3]), graceful_ms=rng.choice([300, 500]), warmup_ms=rng.choice([0, 100]))]}
    pre = [["start"]] + [["wake"]] * 4
    pre.append(_req("reload", "q1", name="a", sequential=True, waiting=rng.random() < 0.5))
    pre += [["wake"]] * rng.choice([0, 1])
    st = rng.choice([sim.wstat_exit(0), sim.wstat_exit(3), sim.wstat_sig(9), sim.wstat_sig(11)])
    pre.append(lambda v: ["die", (v.pids.get("a") or [100, 101])[-1 if rng.random() < 0.7 else 1 % max(1, len(v.pids.get("a") or [1]))], st]
               if len(v.pids.get("a") or []) > 1 else ["wake"])
    pre += [["wake"]] * 10 + [["check"], ["wake"], ["check"]]
    return sc, pre


def recipe_options_observe(rng):
    """`options` / `get` asked before and after accepted and refused `set` requests, and while a long stop (a worker that
    ignores the stop signal) holds the exclusive slot: what `set` stored is read back, a refusal leaves it as it was, and
    the read-only requests are answered at once whatever is in flight"""
    stubborn = rng.random() < 0.6
    sc = {"arb": {"warmup_ms": 0}, "behav": [{"term": ["ignore"] if stubborn else ["obey", 150], "kill_lat": 0, "spawn_ms": 1}],
          "watchers": [_w("a", np=rng.choice([1, 2]), graceful_ms=rng.choice([300, 500])),
                       _w("B", np=1, priority=-1, singleton=rng.random() < 0.3)]}
    goods = [{"graceful_timeout": 0.5}, {"warmup_delay": 0.1, "stop_signal": 2}, {"send_hup": True},
             {"stop_children": True, "numprocesses": 2}, {"respawn": False, "max_retry": 3}, {"graceful_timeout": 0.2, "numprocesses": 1}]
    bads = [{"numprocesses": "x"}, {"graceful_timeout": 0.3, "warmup_delay": None}, {"stop_signal": 100}, {"bogus": 1},
            {"uid": "nosuchuser-xyz"}, {"send_hup": 1, "numprocesses": 3}, {"stop_children": "yes"}]
    good, good2, bad = rng.choice(goods), rng.choice(goods), rng.choice(bads)
    pre = [["start"]] + [["wake"]] * 4
    pre += [_req("options", "o0", name=rng.choice(["a", "A"]))]
    pre += [_req("set", "s1", name="a", options=good), ["wake"], _req("options", "o1", name="a")]
    pre += [_req("set", "s2", name="a", options=bad), _req("get", "g1", name="a", keys=sorted(set(list(good) + list(bad) + ["numprocesses"])
                                                                                              & set(OPT_CARRIED)))]
    pre += [_req(rng.choice(["stop", "stop", "restart"]), "q1", name="a", waiting=True)]
    pre += [_req("options", "o2", name="a"), _req("set", "s3", name=rng.choice(["a", "B"]), options=good2),
            _req("get", "g2", name="A", keys=rng.choice([["graceful_timeout", "numprocesses"], ["nosuch"], "numprocesses", None])),
            ["wake"], _req("options", "o3", name="B"), _req("incr", "i1", name="B"), _req("options", "o4", name="b")]
    pre += [["wake"]] * rng.choice([1, 3, 6]) + [_req("options", "o5", name="a")]
    return sc, pre


def recipe_unsignalable_stop(rng):
    """an operation that FAILS part-way: one watcher has a worker the daemon is not permitted to signal (another uid: os.kill
    raises EPERM, psutil.AccessDenied, which no except clause of the stop path catches), another one a worker that needs its
    whole grace period.  A stop / restart / quit / rm / reload / decr of the first fails at once while the operation is still
    busy with the second; then come requests that must be refused while it is busy and accepted once it has ended"""
    slow = rng.choice([["ignore"], ["ignore"], ["obey", 150], ["obey", 0]])
    g = rng.choice([200, 300, 500])
    # spawn order = descending priority: beta takes behaviour 0, alpha behaviour 1
    pa, pb = rng.choice([(0, 1), (0, 1), (0, 2), (-1, 0)])
    sc = {"arb": {"warmup_ms": 0},
          "behav": [{"term": slow, "kill_lat": 0, "spawn_ms": 1}, {"term": rng.choice([["obey", 0], ["ignore"]]), "kill_lat": 0,
                                                                   "spawn_ms": 1, "eperm": True}],
          "watchers": [_w("alpha", np=1, priority=pa, graceful_ms=rng.choice([100, 200])), _w("beta", np=1, priority=pb, graceful_ms=g)]}
    if rng.random() < 0.25:
        sc["watchers"].append(_w("c c", np=rng.choice([0, 1]), priority=rng.choice([-2, 3]), graceful_ms=100))
        sc["behav"].append({"term": ["obey", 0], "kill_lat": 0, "spawn_ms": 1})
    if rng.random() < 0.15:
        sc["watchers"][0]["hooks"] = {"before_signal": {"out": rng.choice([["false"], ["false", "true"]]), "ignore": False}}
    pre = [["start"]] + [["wake"]] * 6
    w1 = rng.random() < 0.6
    r = rng.random()
    if r < 0.3:
        first = _req("stop", "q1", waiting=w1) if rng.random() < 0.6 else _req("stop", "q1", name="*", waiting=w1)
    elif r < 0.5:
        first = _req("quit", "q1", waiting=w1)
    elif r < 0.65:
        first = _req("restart", "q1", waiting=w1) if rng.random() < 0.5 else _req("restart", "q1", name=rng.choice(["*", "?????*", "*a"]), waiting=w1)
    elif r < 0.8:
        first = _req(rng.choice(["stop", "restart", "rm", "reload"]), "q1", name="alpha", waiting=w1)
    elif r < 0.9:
        first = ["sig", "quit"]
    else:
        first = _req("kill", "q1", name="alpha", waiting=w1)
    pre.append(first)
    for i in range(rng.choice([1, 2, 3])):
        pre += [["wake"]] * rng.choice([0, 1, 1, 2])
        probe = rng.choice([_req("incr", "p%d" % i, name="beta"), _req("start", "p%d" % i, name="beta", waiting=rng.random() < 0.5),
                            ["check"], _req("stop", "p%d" % i, name="alpha", waiting=True), _req("decr", "p%d" % i, name="beta"),
                            _req("numprocesses", "p%d" % i, name="beta"), _req("set", "p%d" % i, name="beta", options={"numprocesses": 2})])
        pre.append(probe)
    pre += [["wake"]] * rng.choice([3, 5, 8])
    pre.append(rng.choice([_req("incr", "z1", name="beta", waiting=True), _req("quit", "z1"), ["sig", "quit"], ["check"],
                           _req("stop", "z1", name="alpha", waiting=True), _req("start", "z1", waiting=True)]))
    pre += [["wake"]] * rng.choice([2, 4])
    return sc, pre


RECIPES = {"unsignalable_stop": recipe_unsignalable_stop, "options_observe": recipe_options_observe, "sequential_reload_death": recipe_sequential_reload_death, "stopped_worker": recipe_stopped_worker, "children_vanish": recipe_children_vanish, "pattern_subset": recipe_pattern_subset, "signal_veto": recipe_signal_veto, "singleton_set": recipe_singleton_set, "on_demand_stop": recipe_on_demand_stop, "untracked_zombies": recipe_untracked_zombies,
           "topup_start": recipe_topup_start, "reap_veto": recipe_reap_veto, "set_hook": recipe_set_hook}


def gen_scenario(rng, nops=None, profile=None):
    """returns (scenario, impl steps) — the implementation is run while generating"""
    profile = {"set_hooks": 0.12} if profile is None else profile
    scripted = []
    sc = None
    for name, p in (profile.get("recipes") or {}).items():
        if rng.random() < p:
            sc, scripted = RECIPES[name](rng)
            break
    if sc is None:
        sc = gen_config(rng, profile)
    # which of the two call sites of start_watchers in Arbiter.start() the scenario goes through (circusd: own loop)
    sc["own_loop"] = rng.random() < 0.5
    # the pid numbers the daemon is shown: in spawn order (as the model numbers them), or decreasing in spawn order
    sc["pid_desc"] = rng.random() < profile.get("pid_desc", 0.3)
    # endpoint-owner mode (an ipc:// control endpoint with endpoint_owner set): `add` must carry the owner's uid
    if rng.random() < profile.get("owner", 0.1):
        sc.setdefault("arb", {})["owner"] = "root"
    sc["ops"] = []
    nops = nops or rng.choice([6, 10, 16, 24, 40])
    nops = max(nops, len(scripted) + 4) if scripted else nops
    s = sim.Sim(sc)
    steps = []
    s.setup()
    try:
        first = ["start"] if rng.random() < profile.get("start_first", 0.85) else None
        for i in range(nops):
            if s.blocked:
                break
            v = View(s)
            if i < len(scripted):
                op = scripted[i](v) if callable(scripted[i]) else scripted[i]
            else:
                op = first if (i == 0 and first) else gen_op(rng, v, "r%d" % i, profile)
            sc["ops"].append(op)
            s.k.log = []
            s.k.reasons = []
            s.apply(op)
            steps.append(s.step_record(op))
            if "o close ctrl" in s.k.log:
                break                      # the daemon has shut down: nothing after this is meaningful
    finally:
        s.teardown()
    return sc, steps
