"""Framework shared by all property checks (DESIGN.md 2.3, 7).

One run of a check =
  1. proof obligations: incremental `lake build`, `#print axioms` audit of every theorem in the
     property's Props file(s), grep for forbidden constructs;
  2. correspondence: corpus + generated cases through the real circus code (imported from
     /repo's working tree) and through the Lean model's executable definitions (native driver
     built from the same Lean sources the theorems are about), canonical observations diffed;
  3. property oracle on the *implementation's* observations of every case (failing-input search);
  4. when 1 or 2 is broken and 3 found nothing: widened search with fresh seeds.
Exit codes: 0 held, 1 violation (a `VIOLATION property=… replay=…` line is printed),
2 infrastructure trouble (no VIOLATION line).
"""
import fcntl
import hashlib
import importlib
import json
import os
import random
import re
import subprocess
import sys
import time
import traceback

VERIF = os.path.dirname(os.path.dirname(os.path.abspath(__file__)))
LEAN = os.path.join(VERIF, "lean")
REPO = os.environ.get("VERIF_REPO", "/repo")
DRIVER = os.path.join(LEAN, ".lake", "build", "bin", "circusdrv")
ALLOWED_AXIOMS = {"propext", "Classical.choice", "Quot.sound"}
FORBIDDEN = re.compile(
    r"\bsorry\b|\badmit\b|^\s*axiom\s|native_decide|bv_decide|implemented_by|\bunsafe\s|maxHeartbeats\s+0")

TRUSTED_BASE = [
    "Lean 4.33.0 kernel (thorough tier re-checks the .olean files with leanchecker)",
    "axioms: only propext, Classical.choice, Quot.sound are accepted by the audit; no native_decide, "
    "bv_decide, sorry or own axioms",
    "hand-written Lean model /verif/lean/CircusModel; tied to /repo only by this run's correspondence "
    "check (differential testing of the model's executable definitions against the real code)",
    "the correspondence harness /verif/harness (generators, simulated kernel, canonicaliser)",
    "Lean compiler + C toolchain for the native model driver circusdrv (executes the same definitions "
    "the theorems are stated about)",
]


class Infra(Exception):
    """infrastructure trouble: exit 2, never a violation"""


def log(*a):
    print(*a, file=sys.stderr, flush=True)


# --------------------------------------------------------------------------- lean side

def _lock():
    f = open(os.path.join(LEAN, ".build.lock"), "w")
    fcntl.flock(f, fcntl.LOCK_EX)
    return f


def lean_build(clean=False, files=None):
    """incremental lake build of the model, the driver and the proof modules this property's obligations live in
    (their imports come with them).  A proof of another property that no longer checks does not fail this one.
    Returns (ok, output)."""
    lk = _lock()
    try:
        if clean:
            subprocess.run(["rm", "-rf", os.path.join(LEAN, ".lake", "build")], check=False)
        targets = []
        if files:
            targets = ["CircusModel", "circusdrv"] + [f[:-5].replace("/", ".") for f in files if f.endswith(".lean")]
        p = subprocess.run(["lake", "build"] + targets, cwd=LEAN, stdout=subprocess.PIPE,
                           stderr=subprocess.STDOUT, text=True, timeout=1800)
        return p.returncode == 0, p.stdout
    finally:
        lk.close()


_THM = re.compile(r"^\s*(?:private\s+|protected\s+)?theorem\s+([A-Za-z_][\w'.]*)", re.M)
_NS = re.compile(r"^\s*namespace\s+([\w.]+)", re.M)


def theorems_in(relpath):
    """fully qualified names of the theorems declared in a Lean file (one namespace at a time)."""
    src = open(os.path.join(LEAN, relpath)).read()
    src_nc = re.sub(r"/-.*?-/", "", src, flags=re.S)
    src_nc = re.sub(r"--.*", "", src_nc)
    out = []
    ns = []
    for line in src_nc.splitlines():
        m = re.match(r"\s*namespace\s+([\w.]+)", line)
        if m:
            ns.append(m.group(1))
            continue
        m = re.match(r"\s*end\s+([\w.]+)\s*$", line)
        if m and ns and ns[-1] == m.group(1):
            ns.pop()
            continue
        m = re.match(r"\s*(?:@\[[^\]]*\]\s*)?(?:private\s+|protected\s+)?theorem\s+([A-Za-z_][\w'.]*)", line)
        if m:
            out.append(".".join(ns + [m.group(1)]))
    return out


def forbidden_hits():
    hits = []
    for root, _, files in os.walk(LEAN):
        if ".lake" in root:
            continue
        for fn in files:
            if not fn.endswith(".lean"):
                continue
            path = os.path.join(root, fn)
            src = open(path).read()
            src_nc = re.sub(r"/-.*?-/", lambda m: "\n" * m.group(0).count("\n"), src, flags=re.S)
            for i, line in enumerate(src_nc.splitlines(), 1):
                line = re.sub(r"--.*", "", line)
                if FORBIDDEN.search(line):
                    hits.append("%s:%d: %s" % (os.path.relpath(path, LEAN), i, line.strip()))
    return hits


def axiom_audit(prop_id, files):
    """#print axioms for every theorem of the given Props/Lemmas files.
    Returns dict name -> list of axioms (or None when lean reported an error for it)."""
    names = []
    mods = []
    for f in files:
        mods.append(f[:-5].replace("/", "."))
        names += theorems_in(f)
    audit_dir = os.path.join(LEAN, ".lake", "audit")
    os.makedirs(audit_dir, exist_ok=True)
    path = os.path.join(audit_dir, "Audit_%s_%d.lean" % (prop_id, os.getpid()))
    with open(path, "w") as fh:
        for m in mods:
            fh.write("import %s\n" % m)
        for n in names:
            fh.write("#print axioms %s\n" % n)
    p = subprocess.run(["lake", "env", "lean", path], cwd=LEAN, stdout=subprocess.PIPE,
                       stderr=subprocess.STDOUT, text=True, timeout=900)
    os.unlink(path)
    res = {n: None for n in names}
    txt = p.stdout.replace("\n  ", " ")
    for m in re.finditer(r"'([^']+)' depends on axioms: \[([^\]]*)\]", txt):
        res[m.group(1)] = [a.strip() for a in m.group(2).split(",") if a.strip()]
    for m in re.finditer(r"'([^']+)' does not depend on any axioms", txt):
        res[m.group(1)] = []
    return res, p.stdout


def leanchecker(mods):
    p = subprocess.run(["lake", "env", "leanchecker"] + mods, cwd=LEAN, stdout=subprocess.PIPE,
                       stderr=subprocess.STDOUT, text=True, timeout=3600)
    return p.returncode == 0, p.stdout[-2000:]


def run_model(lines):
    """pipe request lines through the native model driver; one answer line per request."""
    if not lines:
        return []
    if not os.path.exists(DRIVER):
        raise Infra("model driver not built: %s" % DRIVER)
    data = "\n".join(lines) + "\n"
    p = subprocess.run([DRIVER], input=data, stdout=subprocess.PIPE, stderr=subprocess.PIPE,
                       text=True, timeout=1800)
    if p.returncode != 0:
        raise Infra("model driver failed: %s" % p.stderr[-500:])
    out = p.stdout.split("\n")
    if out and out[-1] == "":
        out.pop()
    if len(out) != len(lines):
        raise Infra("model driver answered %d lines for %d requests" % (len(out), len(lines)))
    return out


# --------------------------------------------------------------------------- encoding helpers

def enc_cps(s):
    if isinstance(s, str):
        s = [ord(c) for c in s]
    return ".".join(str(c) for c in s) if s else "-"


def enc_opt(s):
    return "~" if s is None else enc_cps(s)


def dec_cps(t):
    return [] if t == "-" else [int(x) for x in t.split(".")]


def dec_opt(t):
    return None if t == "~" else dec_cps(t)


def dec_str(t):
    return "".join(chr(c) for c in dec_cps(t))


# --------------------------------------------------------------------------- known findings

def load_known(prop_id):
    path = os.path.join(VERIF, "known_findings.json")
    if not os.path.exists(path):
        return []
    data = json.load(open(path))
    return [e for e in data.get("findings", []) if prop_id in e.get("properties", [])
            and e.get("state") == "open"]


# --------------------------------------------------------------------------- the check

def case_hash(obj):
    return hashlib.sha1(json.dumps(obj, sort_keys=True, default=str).encode()).hexdigest()[:12]


def write_replay(prop_id, payload):
    d = os.path.join(os.environ.get("VERIF_OUT", VERIF), "replays")
    os.makedirs(d, exist_ok=True)
    path = os.path.join(d, "%s-%s.json" % (prop_id, case_hash(payload)))
    with open(path, "w") as fh:
        json.dump(payload, fh, indent=1, sort_keys=True, default=str)
    return os.path.relpath(path, os.environ.get("VERIF_OUT", VERIF))


def write_evidence(prop_id, ev):
    d = os.path.join(os.environ.get("VERIF_OUT", VERIF), "evidence")      # VERIF_OUT: runs against seeded changes
    os.makedirs(d, exist_ok=True)
    with open(os.path.join(d, "%s.json" % prop_id), "w") as fh:
        json.dump(ev, fh, indent=1, sort_keys=True, default=str)


def load_prop(prop_id):
    mod = importlib.import_module("harness.props.%s" % prop_id.lower())
    if hasattr(mod, "MODULE"):
        return mod.MODULE
    if hasattr(mod, "PARTS"):
        return Parts([importlib.import_module(n) if isinstance(n, str) else n for n in mod.PARTS])
    return mod


def _safe_impl(mod, case):
    try:
        return mod.impl_run(case)
    except Infra:
        raise
    except Exception as e:  # the implementation (or the harness around it) blew up: an observation
        return {"harness_exception": "%s: %s" % (type(e).__name__, e),
                "tb": traceback.format_exc()[-1500:]}


class Parts(object):
    """A property decided by several model layers: every case is tagged with its part and
    routed to that part's functions; theorem files are the union."""

    def __init__(self, parts):
        self.parts = parts
        self.LEAN_PROPS = sum((list(p.LEAN_PROPS) for p in parts), [])
        self.LEAN_LEMMAS = sum((list(getattr(p, "LEAN_LEMMAS", [])) for p in parts), [])
        self.RULE = " || ".join("%s: %s" % (p.__name__.split(".")[-1], getattr(p, "RULE", "")) for p in parts)
        self.ASSUMPTIONS = sum((list(getattr(p, "ASSUMPTIONS", [])) for p in parts), [])
        self.TRUSTED_EXTRA = sum((list(getattr(p, "TRUSTED_EXTRA", [])) for p in parts), [])

    def _p(self, case):
        return self.parts[case.get("_part", 0)]      # replay files written before a property had parts: first part

    def shrink(self, case, failure):
        p = self._p(case)
        if not hasattr(p, "shrink"):
            return case
        out = p.shrink(case, failure)
        if "_part" in case:
            out = dict(out, _part=case["_part"])
        return out

    def corpus(self):
        return [dict(c, _part=i) for i, p in enumerate(self.parts) for c in (p.corpus() if hasattr(p, "corpus") else [])]

    def generate(self, rng, tier):
        return [dict(c, _part=i) for i, p in enumerate(self.parts) for c in p.generate(rng, tier)]

    def impl_run(self, case):
        return self._p(case).impl_run(case)

    def impl_view(self, case, obs):
        p = self._p(case)
        return p.impl_view(case, obs) if hasattr(p, "impl_view") else obs

    def model_line(self, case):
        return self._p(case).model_line(case)

    def model_parse(self, case, line):
        return self._p(case).model_parse(case, line)

    def oracle(self, case, obs):
        return self._p(case).oracle(case, obs)

    def no_model(self, case):
        return bool(getattr(self._p(case), "NO_MODEL", False))

    def views_equal(self, case, mv, iv):
        p = self._p(case)
        return p.views_equal(case, mv, iv) if hasattr(p, "views_equal") else mv == iv

    def first_diff(self, case, mv, iv):
        p = self._p(case)
        return p.first_diff(case, mv, iv) if hasattr(p, "first_diff") else None

    def nontrivial(self, case, obs):
        return self._p(case).nontrivial(case, obs)

    def stats(self, cases, impl):
        out = {}
        for i, p in enumerate(self.parts):
            if hasattr(p, "stats"):
                sel = [(c, o) for c, o in zip(cases, impl) if c["_part"] == i]
                out[p.__name__.split(".")[-1]] = p.stats([c for c, _ in sel], [o for _, o in sel])
                out[p.__name__.split(".")[-1]]["cases"] = len(sel)
        return out


def _no_model(mod, case):
    f = getattr(mod, "no_model", None)
    return bool(f(case)) if f is not None else bool(getattr(mod, "NO_MODEL", False))


def evaluate(mod, cases):
    """run impl + model + oracle on a list of cases (parts with NO_MODEL — the live cross-check of the simulated kernel —
    have no Lean side: only their oracle judges)"""
    impl = [_safe_impl(mod, c) for c in cases]
    has = [i for i, c in enumerate(cases) if not _no_model(mod, c)]
    raw = run_model([mod.model_line(cases[i]) for i in has])
    model = [None] * len(cases)
    for i, r in zip(has, raw):
        model[i] = mod.model_parse(cases[i], r)
    hasset = set(has)
    mism = []
    fails = []
    for i, c in enumerate(cases):
        if i in hasset:
            io = mod.impl_view(c, impl[i]) if hasattr(mod, "impl_view") else impl[i]
            same = mod.views_equal(c, model[i], io) if hasattr(mod, "views_equal") else (io == model[i])
            if not same:
                mism.append(i)
        for f in mod.oracle(c, impl[i]):
            fails.append((i, f))
    return impl, model, mism, fails


_POOL_MOD = None


def explore(mod, cases):
    """impl + model + oracle on a list of cases, reduced to what the verdict and the evidence need"""
    impl, model, mism, fails = evaluate(mod, cases)
    nontriv = set()
    for c, o in zip(cases, impl):
        try:
            if mod.nontrivial(c, o):
                nontriv.add(case_hash(c))
        except Exception:
            pass
    view = (lambda c, o: mod.impl_view(c, o)) if hasattr(mod, "impl_view") else (lambda c, o: o)
    samples = [{"case": cases[j], "impl": view(cases[j], impl[j]), "model": model[j]}
               for j in range(max(0, len(cases) - 3), len(cases))]
    # keep one failure per cause signature and case (bounded), all counts
    kept, seen = [], {}
    for i, f in fails:
        n = seen.get(f.get("sig"), 0)
        if n < 3:
            kept.append((cases[i], f))
        seen[f.get("sig")] = n + 1
    return {"n": len(cases), "n_mism": len(mism), "n_fails": len(fails),
            "mism": [(cases[i], model[i], view(cases[i], impl[i])) for i in mism[:2]],
            "fails": kept, "nontriv": nontriv, "samples": samples,
            "stats": mod.stats(cases, impl) if hasattr(mod, "stats") else {}}


def _explore_chunk(args):
    seed, tier, k = args
    mod = _POOL_MOD
    rng = random.Random(seed * 1000003 + 17 + 104729 * k)
    return explore(mod, mod.generate(rng, tier))


def merge_stats(a, b):
    if isinstance(a, dict) and isinstance(b, dict):
        out = dict(a)
        for k, v in b.items():
            out[k] = merge_stats(a[k], v) if k in a else v
        return out
    if isinstance(a, bool) or isinstance(b, bool):
        return a or b
    if isinstance(a, (int, float)) and isinstance(b, (int, float)):
        return a + b
    return a


def merge_results(a, b):
    return {"n": a["n"] + b["n"], "n_mism": a["n_mism"] + b["n_mism"], "n_fails": a["n_fails"] + b["n_fails"],
            "mism": (a["mism"] + b["mism"])[:4], "fails": a["fails"] + b["fails"],
            "nontriv": a["nontriv"] | b["nontriv"], "samples": a["samples"],
            "stats": merge_stats(a["stats"], b["stats"])}


def run_check(prop_id, tier, seed, replay=None):
    t0 = time.time()
    mod = load_prop(prop_id)
    sys.path.insert(0, REPO)
    import circus  # noqa
    if not os.path.abspath(circus.__file__).startswith(os.path.abspath(REPO) + os.sep):
        raise Infra("circus imported from %s, not from %s" % (circus.__file__, REPO))

    if replay:
        return run_replay(mod, prop_id, replay)

    # 1. proof obligations
    files = list(mod.LEAN_PROPS) + list(getattr(mod, "LEAN_LEMMAS", []))
    ok, out = lean_build(clean=(tier == "thorough" and os.environ.get("VERIF_CLEAN_BUILD") == "1"), files=files)
    build_note = ""
    if not ok:
        build_note = out[-3000:]
    audit, audit_out = ({}, "")
    if ok:
        audit, audit_out = axiom_audit(prop_id, files)
    bad_axioms = {n: a for n, a in audit.items() if a is None or not set(a) <= ALLOWED_AXIOMS}
    hits = forbidden_hits()
    obligations = len(audit) if audit else sum(len(theorems_in(f)) for f in files)
    discharged = sum(1 for n, a in audit.items() if a is not None and set(a) <= ALLOWED_AXIOMS)
    proof_ok = ok and not bad_axioms and not hits and obligations > 0
    checker_note = None
    if proof_ok and tier == "thorough":
        mods = [f[:-5].replace("/", ".") for f in mod.LEAN_PROPS]
        cok, cout = leanchecker(mods)
        checker_note = "leanchecker %s: %s" % (" ".join(mods), "ok" if cok else cout)
        if not cok:
            proof_ok = False

    # 2. + 3. correspondence and oracle
    corpus = mod.corpus() if hasattr(mod, "corpus") else []
    jobs = int(os.environ.get("VERIF_JOBS", "0") or 0) or (min(14, os.cpu_count() or 1) if tier == "thorough" else 1)
    res = explore(mod, corpus + mod.generate(random.Random(seed * 1000003 + 17), tier))
    if jobs > 1:
        global _POOL_MOD
        _POOL_MOD = mod
        import multiprocessing
        ctx = multiprocessing.get_context("fork")
        with ctx.Pool(jobs - 1) as pool:
            for r in pool.imap_unordered(_explore_chunk, [(seed, tier, k) for k in range(1, jobs)]):
                res = merge_results(res, r)
    n_cases, mism, fails = res["n"], res["mism"], res["fails"]

    known = load_known(prop_id)
    known_hit = {}
    unlisted = []
    for case, f in fails:
        k = next((e for e in known if e["signature"] == f.get("sig")), None)
        if k:
            known_hit.setdefault(k["id"], (k, case, f))
        else:
            unlisted.append((case, f))

    status = 0
    lines_out = []
    widened = 0
    if unlisted:
        case0, f = unlisted[0]
        shr = getattr(mod, "shrink", None)
        case = case0
        if shr:
            try:
                case = shr(case0, f)
            except Exception:
                case = case0
        path = write_replay(prop_id, {"property": prop_id, "kind": "failing-input", "seed": seed,
                                      "case": case, "failure": f,
                                      "impl_obs": _safe_impl(mod, case),
                                      "how": "./check %s --replay <this file>" % prop_id})
        lines_out.append("VIOLATION property=%s replay=%s" % (prop_id, path))
        status = 1
    elif mism or not proof_ok:
        # 4. widened failing-input search on the implementation
        found = None
        for k in range(1, 6 if tier == "quick" else 16):
            r2 = random.Random(seed * 1000003 + 17 + 7919 * k)
            extra = mod.generate(r2, "quick")
            widened += len(extra)
            for c in extra:
                o = _safe_impl(mod, c)
                fs = [f for f in mod.oracle(c, o)
                      if not any(e["signature"] == f.get("sig") for e in known)]
                if fs:
                    found = (c, o, fs[0])
                    break
            if found:
                break
        if found:
            c, o, f = found
            path = write_replay(prop_id, {"property": prop_id, "kind": "failing-input", "seed": seed,
                                          "case": c, "failure": f, "impl_obs": o})
            lines_out.append("VIOLATION property=%s replay=%s" % (prop_id, path))
        else:
            payload = {"property": prop_id, "kind": "not-shown", "seed": seed}
            if not proof_ok:
                payload["broken_proof_obligations"] = {
                    "lake_build_ok": ok, "build_output_tail": build_note,
                    "theorems_with_unaccepted_axioms_or_errors": bad_axioms,
                    "forbidden_constructs": hits, "leanchecker": checker_note}
            if mism:
                case, mview, iview = mism[0]
                if hasattr(mod, "first_diff"):
                    try:
                        payload["first_difference"] = mod.first_diff(case, mview, iview)
                    except Exception:
                        pass
                payload["broken_correspondence"] = {
                    "stream": "%s model vs implementation" % prop_id,
                    "theorems_no_longer_tied_to_the_code": sum((theorems_in(f) for f in mod.LEAN_PROPS), []),
                    "mismatching_cases": res["n_mism"], "first_case": case,
                    "impl_obs": iview, "model_obs": mview}
            path = write_replay(prop_id, payload)
            lines_out.append("VIOLATION property=%s replay=%s no-failing-input-found" % (prop_id, path))
        status = 1
    for kid, (k, case, f) in sorted(known_hit.items()):
        lines_out.append("KNOWN-FINDING: property=%s %s [%s]" % (prop_id, k["what"], kid))

    nontriv = res["nontriv"]
    samples = res["samples"][:3]
    stats = res["stats"]
    ev = {
        "property_id": prop_id, "tier": tier, "seed": seed, "level": "proof",
        "coverage": {
            "obligations": obligations, "discharged": discharged,
            "checker_cmd": "cd /verif/lean && lake build && lake env lean <generated #print axioms file for %s>%s"
                           % (", ".join(files), "; lake env leanchecker" if tier == "thorough" else ""),
            "trusted_base": TRUSTED_BASE + list(getattr(mod, "TRUSTED_EXTRA", [])),
            "theorems": {n: a for n, a in audit.items()},
            "leanchecker": checker_note,
            "evaluations": n_cases + widened,
            "parallel_jobs": jobs,
            "distinct_nontrivial": len(nontriv),
            "rule": getattr(mod, "RULE", ""),
            "traces_validated_against_impl": n_cases - res["n_mism"],
            "correspondence_mismatches": res["n_mism"],
            "oracle_failures": res["n_fails"],
            "known_findings_reconfirmed": sorted(known_hit),
            "corpus_cases": len(corpus),
            "samples": samples,
            "distribution": stats,
            "exhaustive": False,
        },
        "assumptions": list(getattr(mod, "ASSUMPTIONS", [])),
        "wall_s": round(time.time() - t0, 2),
        "violations": 1 if status else 0,
    }
    write_evidence(prop_id, ev)
    for l in lines_out:
        print(l)
    log("%s tier=%s seed=%d: %d cases, %d mismatches, %d oracle failures (%d known), obligations %d/%d, %.1fs"
        % (prop_id, tier, seed, n_cases, res["n_mism"], res["n_fails"], len(known_hit), discharged, obligations,
           time.time() - t0))
    return status


def run_replay(mod, prop_id, path):
    if not os.path.isabs(path):
        path = os.path.join(VERIF, path)
    payload = json.load(open(path))
    if payload.get("kind") != "failing-input":
        log("replay file names a broken proof obligation / correspondence, no input to replay:")
        log(json.dumps({k: v for k, v in payload.items() if k.startswith("broken")}, indent=1)[:4000])
        return 1
    case = payload["case"]
    o = _safe_impl(mod, case)
    fs = mod.oracle(case, o)
    if fs:
        known = load_known(prop_id)
        for f in fs:
            if any(e["signature"] == f.get("sig") for e in known):
                print("KNOWN-FINDING: property=%s %s" % (prop_id, f.get("msg")))
            else:
                print("VIOLATION property=%s replay=%s" % (prop_id, os.path.relpath(path, VERIF)))
                log(json.dumps(f, indent=1, default=str))
                return 1
        return 0
    log("replay does not fail on the current tree")
    return 0


def main(argv):
    import argparse
    ap = argparse.ArgumentParser()
    ap.add_argument("prop")
    ap.add_argument("--tier", default=os.environ.get("VERIF_TIER", "quick"), choices=["quick", "thorough"])
    ap.add_argument("--replay")
    a = ap.parse_args(argv)
    seed = int(os.environ.get("VERIF_SEED", "0") or 0)
    # a check that hangs is an infrastructure failure (exit 2), never a verdict
    limit = int(os.environ.get("VERIF_TIMEOUT", "0") or 0) or (900 if a.tier == "quick" else 5400)

    def _alarm(signum, frame):
        log("INFRASTRUCTURE: check exceeded %d s" % limit)
        os._exit(2)
    import signal as _signal
    _signal.signal(_signal.SIGALRM, _alarm)
    _signal.alarm(limit)
    try:
        return run_check(a.prop.upper(), a.tier, seed, a.replay)
    except Infra as e:
        log("INFRASTRUCTURE: %s" % e)
        return 2
    except subprocess.TimeoutExpired as e:
        log("INFRASTRUCTURE: timeout %s" % e)
        return 2
    except Exception:
        # a crash of the machinery itself is never a verdict about circus
        import traceback
        log("INFRASTRUCTURE: the check crashed\n" + traceback.format_exc())
        return 2
