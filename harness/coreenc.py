"""Encoding of core scenarios into the model driver's line format (lean/CircusModel/Drv/Core.lean)."""
import json

from harness.sim import enc, encj

HOOKS = ["before_start", "after_start", "before_spawn", "after_spawn", "before_stop", "after_stop",
         "before_signal", "after_signal", "before_reap", "after_reap"]


def b(x):
    return "1" if x else "0"


def opt(x):
    return "~" if x is None else str(x)


def enc_watcher(w):
    hooks = w.get("hooks") or {}
    t = [enc(w["name"]), str(w.get("np", 1)), b(w.get("singleton", False)), b(w.get("respawn", True)),
         str(w.get("warmup_ms", 0)), str(w.get("graceful_ms", 300)), str(w.get("stop_signal", 15)),
         b(w.get("stop_children", False)), str(w.get("priority", 0)), b(w.get("autostart", True)),
         str(w.get("max_retry", 5)), b(w.get("send_hup", False)), str(w.get("max_age", 0)), b(w.get("on_demand", False)),
         str(len(hooks))]
    for name, spec in hooks.items():
        outs = spec.get("out", ["true"])
        t += [name, b(spec.get("ignore")), str(len(outs))] + list(outs)
    return t


def enc_behav(bh):
    term = bh.get("term", ["obey", 0])
    kt = bh.get("kid_term", ["obey", 0])
    return [opt(term[1] if term[0] == "obey" else None), str(bh.get("kill_lat", 0)), str(bh.get("kids", 0)),
            opt(kt[1] if kt[0] == "obey" else None), b(bh.get("exec_fail", False)), str(bh.get("spawn_ms", 0)),
            b(bh.get("eperm", False)), b(bh.get("kid_eperm", False))]


def parse_raw(raw):
    """what json.loads makes of a raw frame after .strip(): (ok, value)"""
    raw = bytes(raw).strip()
    if not raw:
        return False, None
    try:
        return True, json.loads(raw)
    except (ValueError, RecursionError):
        return False, None


def enc_op(op):
    k = op[0]
    if k == "req":
        return ["req", "c%d" % (op[2] if len(op) > 2 else 0), encj(json.loads(json.dumps(op[1])))]
    if k == "raw":
        ok, v = parse_raw(op[1])
        cid = "c%d" % (op[2] if len(op) > 2 else 0)
        return ["req", cid, encj(v)] if ok else ["reqbad", cid]
    if k == "xreq":
        return ["xreq", "c%d" % op[2], encj(json.loads(json.dumps(op[1]))), op[3]]
    if k == "sig":
        return ["sig", op[1]]
    if k in ("start", "check", "wake"):
        return [k]
    if k == "adv":
        return ["adv", str(op[1])]
    if k in ("die", "xkill"):
        return [k, str(op[1]), str(op[2])]
    if k == "fault":
        return ["fault", str(op[1]), str(op[2]), str(op[3])]
    if k == "sockev":
        return ["sockev", b(op[1])]
    if k == "poke":
        return ["poke", enc(op[1]), op[2]]
    if k == "call":
        return ["call", enc(op[1]), op[2]]
    raise ValueError(op)


def enc_scenario(sc):
    owner = sc.get("arb", {}).get("owner")
    t = ["core", "A", str(sc.get("arb", {}).get("warmup_ms", 0)), enc(owner) if owner else "-", "W", str(len(sc["watchers"]))]
    for w in sc["watchers"]:
        t += enc_watcher(w)
    bh = sc.get("behav") or [{}]
    t += ["B", str(len(bh))]
    for x in bh:
        t += enc_behav(x)
    t += ["O", str(len(sc["ops"]))]
    for o in sc["ops"]:
        t += enc_op(o)
    return " ".join(t)


def parse_model(line):
    """model answer -> list of steps {lines, snap}"""
    if line == "bad-op":
        return None
    steps = []
    for part in line.split(" ## "):
        ls = part.split(";;")
        steps.append({"lines": ls[:-1], "snap": ls[-1]})
    return steps


def impl_steps_view(steps):
    return [{"lines": st["lines"], "snap": st["snap"]} for st in steps]


def line_matches(m, i):
    """a model line may leave reply fields unspecified with `*`"""
    if m == i:
        return True
    if m.startswith("o rep ") and i.startswith("o rep "):
        mt, it = m.split(" "), i.split(" ")
        # o rep cid <id tokens…> status errno body : compare from the right
        if len(mt) < 6 or len(it) < 6:
            return False
        if mt[:-3] != it[:-3]:
            return False
        return all(a == "*" or a == b_ for a, b_ in zip(mt[-3:], it[-3:]))
    return False


def steps_match(model, impl):
    if model is None or len(model) != len(impl):
        return False
    for ms, is_ in zip(model, impl):
        if ms["snap"] != is_["snap"] or len(ms["lines"]) != len(is_["lines"]):
            return False
        if not all(line_matches(a, b_) for a, b_ in zip(ms["lines"], is_["lines"])):
            return False
    return True


def first_diff(model, impl):
    if model is None:
        return {"model": "bad-op"}
    for n, (ms, is_) in enumerate(zip(model, impl)):
        if len(ms["lines"]) != len(is_["lines"]) or ms["snap"] != is_["snap"] or \
                not all(line_matches(a, b_) for a, b_ in zip(ms["lines"], is_["lines"])):
            return {"step": n, "model": ms, "impl": is_}
    if len(model) != len(impl):
        return {"step": min(len(model), len(impl)), "model_steps": len(model), "impl_steps": len(impl)}
    return None
