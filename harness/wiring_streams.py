"""Recording stream classes for the C17 wiring check (harness/props/c17_wiring.py).

They are named by dotted path in the `class` key of a watcher's stream configuration, so the real
`circus.stream.get_stream` resolves and instantiates them (`resolve_name(..., reload=True)` RE-LOADS this
module on every `set`: the registry below therefore lives in the module dict, which a reload keeps).

Every instance records the keyword arguments it was built with, every `close()` / `open()` call and every
datamap it was called with.  Three capability profiles, because the watcher asks `hasattr(stream, 'close')`
and `hasattr(stream, 'open')`:

    Rec      close + open   (like FileStream)
    RecC     close only     (like QueueStream / StdoutStream)
    RecBare  neither        (a plain callable)
    RecFile  close + open   (stands for circus.stream.FileStream, which get_stream uses for a conf with
                             `filename` and no `class`)
    Given*   pre-built objects handed in under the `stream` key (not registered: they are not built by get_stream)
"""
if "REGISTRY" not in globals():
    REGISTRY = []           # every instance ever built, in construction order (survives reload)


def reset():
    del REGISTRY[:]


class _Base(object):
    kind = "?"

    given = None

    def __init__(self, **kwargs):
        self.kwargs = dict(kwargs)
        self.closed = False
        self.closes = 0
        self.opens = 0
        self.chunks = []
        self.closed_when_called = 0      # deliveries that arrived while the stream was closed
        self._register()

    def _register(self):
        REGISTRY.append(self)

    def __call__(self, data):
        if self.closed:
            self.closed_when_called += 1
        self.chunks.append(dict(data))


class Rec(_Base):
    kind = "Rec"

    def close(self):
        self.closes += 1
        self.closed = True

    def open(self):
        self.opens += 1
        self.closed = False


class RecC(_Base):
    kind = "RecC"

    def close(self):
        self.closes += 1
        self.closed = True


class RecBare(_Base):
    kind = "RecBare"


class RecFile(Rec):
    kind = "File"


class _Given(object):
    def __init__(self, v):
        super(_Given, self).__init__()
        self.given = v

    def _register(self):
        pass


class GivenRec(_Given, Rec):
    pass


class GivenRecC(_Given, RecC):
    pass


class GivenRecBare(_Given, RecBare):
    pass
