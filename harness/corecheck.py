"""Shared check module for the properties decided on the core state machine
(C01–C06, C08–C11, C14, C15, C18, C19): scenario generation biased per property,
implementation run on the simulated kernel, model line, per-property oracle."""
import random

from harness import coreenc, coregen, coreprops, sim

PROFILES = {
    "C01": {"recipes": {"singleton_set": 0.04}, "set_np": 0.5, "max_age": 0.12, "ops": {"die": 0.14, "xkill": 0.06, "check": 0.2, "wake": 0.3},
            "req": {"incr": 0.3, "set": 0.12, "ssr": 0.15, "reload": 0.15, "kill": 0.05, "signal": 0.02, "rm": 0.01, "add": 0.02, "quit": 0.0, "ro": 0.05}},
    "C02": {"eperm": 0.06, "stubborn": 0.2, "on_demand": 0.3, "recipes": {"unsignalable_stop": 0.03, "on_demand_stop": 0.12, "pattern_subset": 0.05}, "ops": {"die": 0.1, "fault": 0.08, "check": 0.15, "sockev": 0.05},
            "req": {"ssr": 0.4, "reload": 0.05, "incr": 0.1, "set": 0.12, "kill": 0.07, "signal": 0.03, "rm": 0.08, "add": 0.03, "quit": 0.02, "ro": 0.03}},
    "C03": {"eperm": 0.06, "stubborn": 0.25, "max_age": 0.15, "set_hooks": 0.1, "recipes": {"children_vanish": 0.06}, "ops": {"wake": 0.5, "die": 0.06, "adv": 0.08},
            "req": {"ssr": 0.3, "reload": 0.12, "incr": 0.15, "set": 0.08, "kill": 0.22, "signal": 0.02, "rm": 0.03, "add": 0.01, "quit": 0.01, "ro": 0.02}},
    "C04": {"eperm": 0.06, "exec_fail": 0.2, "hooks": True, "max_age": 0.15, "stubborn": 0.15, "recipes": {"unsignalable_stop": 0.03, "untracked_zombies": 0.08, "on_demand_stop": 0.05, "stopped_worker": 0.04, "sequential_reload_death": 0.03, "reap_veto": 0.05}, "ops": {"die": 0.1, "fault": 0.08, "check": 0.2},
            "req": {"ssr": 0.3, "reload": 0.1, "incr": 0.15, "set": 0.05, "kill": 0.08, "signal": 0.02, "rm": 0.05, "add": 0.05, "quit": 0.0, "ro": 0.15}},
    "C05": {"eperm": 0.08, "stubborn": 0.3, "recipes": {"unsignalable_stop": 0.04, "on_demand_stop": 0.05, "options_observe": 0.05}, "ops": {"wake": 0.4, "check": 0.1},
            "req": {"ssr": 0.28, "reload": 0.12, "incr": 0.08, "set": 0.05, "kill": 0.18, "signal": 0.03, "rm": 0.04, "add": 0.02, "quit": 0.01, "ro": 0.16}},
    "C06": {"eperm": 0.12, "recipes": {"unsignalable_stop": 0.05}, "set_hooks": 0.1, "ops": {"raw": 0.1, "wake": 0.3}, "req": {}},
    "C08": {"eperm": 0.10, "recipes": {"unsignalable_stop": 0.05}, "stubborn": 0.2, "ops": {"sig": 0.06, "wake": 0.4}, "req": {"quit": 0.08}},
    "C09": {"max_age": 0.12, "recipes": {"untracked_zombies": 0.06, "sequential_reload_death": 0.05, "reap_veto": 0.04}, "ops": {"die": 0.15, "xkill": 0.08, "check": 0.18},
            "req": {"incr": 0.25, "set": 0.1, "reload": 0.15, "ssr": 0.2, "kill": 0.08, "signal": 0.02, "rm": 0.02, "add": 0.02, "quit": 0.0, "ro": 0.05}},
    "C10": {"eperm": 0.15, "recipes": {"unsignalable_stop": 0.10}, "hooks": True, "exec_fail": 0.15, "ops": {"wake": 0.25, "check": 0.1}, "req": {}},
    # (with the default weights of the other commands the cumulated weights passed 1 before `ro` and the malformed messages
    # were reached: C11 never sent a read-only request — every weight is spelled out now)
    "C11": {"recipes": {"singleton_set": 0.04, "options_observe": 0.08}, "ops": {"wake": 0.25}, "set_extra": True, "owner": 0.3, "set_hooks": 0.12,
            "req": {"ssr": 0.16, "reload": 0.05, "incr": 0.08, "set": 0.2, "kill": 0.1, "signal": 0.1, "rm": 0.03, "add": 0.1, "quit": 0.01,
                    "ro": 0.13}},
    "C14": {"recipes": {"signal_veto": 0.05, "reap_veto": 0.05, "set_hook": 0.08}, "hooks": True, "stubborn": 0.2, "ops": {"wake": 0.45}, "set_hooks": 0.8,
            "req": {"ssr": 0.41, "reload": 0.08, "incr": 0.08, "set": 0.06, "kill": 0.12, "signal": 0.12, "rm": 0.02, "add": 0.02, "quit": 0.0, "ro": 0.02}},
    "C15": {"ops": {"wake": 0.3}, "req": {"add": 0.22, "rm": 0.15, "ssr": 0.25, "ro": 0.25, "incr": 0.03, "set": 0.02, "kill": 0.02, "signal": 0.02, "reload": 0.02, "quit": 0.0}},
    "C18": {"eperm": 0.08, "recipes": {"signal_veto": 0.03, "children_vanish": 0.04}, "ops": {"wake": 0.3}, "req": {"signal": 0.4, "kill": 0.3, "ssr": 0.1, "incr": 0.03, "set": 0.02, "rm": 0.02, "add": 0.03, "reload": 0.02, "quit": 0.0, "ro": 0.03}},
    "C19": {"start_first": 1.0, "recipes": {"topup_start": 0.15, "pattern_subset": 0.08}, "ops": {"wake": 0.75, "adv": 0.08, "die": 0.08, "check": 0.0, "xkill": 0.02, "fault": 0.03, "raw": 0.0, "sig": 0.0},
            "req": {"ro": 0.9, "ssr": 0.1, "reload": 0, "incr": 0, "set": 0, "kill": 0, "signal": 0, "rm": 0, "add": 0, "quit": 0}},
}

TRUSTED_EXTRA = [
    "simulated kernel harness/sim.py: fake psutil.Popen / os.waitpid / time / tornado_sleep patched into the real circus "
    "modules at run time; the real Arbiter, Watcher, Process, Controller and command classes run unmodified",
]
ASSUMPTIONS = [
    "kernel contract = harness/sim.py (process table, reaping, signal effects resolve when virtual time reaches their deadline, "
    "SIGKILL latency parameter, exec failure script; a worker — or its children — under another uid: the daemon's own os.kill is "
    "refused with EPERM, which psutil reports as AccessDenied, while signals of the outside world still arrive); real kernel "
    "scheduling is not modelled; SIGSTOP / SIGTSTP / SIGTTIN / SIGTTOU "
    "suspend a worker without ending it and are reported only to a waitpid that asks for them (WUNTRACED) — the daemon never does; "
    "a suspended worker still acts on later signals as a running one would (job-control state is not modelled further)",
    "every successful fork/exec takes at least 1 ms of virtual time, so the workers of one watcher have distinct Process.started "
    "values as on a real kernel (found by the live cross-check docs/LIVE.md D1: with ties the surplus sort would keep dict order)",
    "the random jitter of max_age (`randint(0, max_age_variance)`) is fixed to the least value the code asks for",
    "one external stimulus per atomic step, then the event loop runs to quiescence; timers fire in (deadline, creation) order",
    "graceful_timeout values are those for which the float loop `waited += 0.1` makes ceil(T/100ms) polls (checked by the generator)",
    "reply bodies of `options` / `get` are compared on the options the model's watcher record carries (numprocesses, warmup_delay, "
    "graceful_timeout, stop_signal, stop_children, priority, respawn, max_retry, max_age, singleton, on_demand, send_hup; times in "
    "integer ms, `singleton` by truthiness), the other options of the real watcher (cmd, env, uid, …) are left out on both sides; "
    "watchers added with options that are no constructor parameter (`retry_in`, dotted keys: they become extra option names, and "
    "`get` on them raises AttributeError) and negative max_age are outside the domain; `dstats` gets constant figures (no psutil)",
    "watcher names over ASCII + Latin-1; glob patterns over * and ?; regex matching, on_demand sockets, stream redirection and "
    "reloadconfig are outside this layer",
]


def make(prop_id, lean_props, lean_lemmas=(), n_quick=900, n_thorough=6000, extra_corpus=()):
    class Mod(object):
        pass
    m = Mod()
    m.__name__ = "harness.props.%s" % prop_id.lower()
    m.LEAN_PROPS = list(lean_props)
    m.LEAN_LEMMAS = list(lean_lemmas)
    m.TRUSTED_EXTRA = TRUSTED_EXTRA
    m.ASSUMPTIONS = ASSUMPTIONS
    m.RULE = ("scenario = watcher configs (numprocesses, singleton, respawn, warmup, graceful_timeout, stop_signal, "
              "stop_children, priority, autostart, max_retry, hooks with scripted outcomes) + worker behaviours (obey after d ms | "
              "ignore, SIGKILL latency, children, exec failure, not signalable by the daemon: EPERM) + op list (requests of all modelled commands valid and corrupted, raw "
              "frames, periodic check, timer wake, time advance, worker death, outside kill, death before the k-th kernel call), "
              "generated adaptively against the running implementation with a %s-specific op/command mix; one scenario in seven also "
              "contains unit-level probes (a watcher status forced to any value, a single watcher method called directly: "
              "manage_processes, _start, _stop, spawn_processes, spawn_process, kill_processes, reap_processes) which only the "
              "model/code comparison judges; non-trivial = "
              "at least 3 kernel-visible effects (spawn/signal/reap) and one request; distinct by content hash" % prop_id)

    def generate(rng, tier):
        n = n_quick if tier == "quick" else n_thorough
        out = []
        prof = PROFILES.get(prop_id, {})
        for _ in range(n):
            # one scenario in seven is a *unit-level* one: besides the stimuli it forces watcher statuses (unreachable
            # states) and calls single watcher methods directly; only the model/code comparison judges those
            p = dict(prof, unit_ops=0.2) if rng.random() < 0.14 else prof
            sc, _steps = coregen.gen_scenario(rng, profile=p)
            out.append(sc)
        return out

    def corpus():
        import json
        import os
        d = os.path.join(os.path.dirname(os.path.dirname(os.path.abspath(__file__))), "corpus", prop_id)
        out = list(extra_corpus)
        if os.path.isdir(d):
            for fn in sorted(os.listdir(d)):
                if fn.endswith(".json"):
                    out.append(json.load(open(os.path.join(d, fn)))["scenario"])
        return out

    def impl_run(sc):
        s = sim.Sim(sc)
        steps = s.run()
        return {"steps": [{"op": st["op"], "lines": st["lines"], "snap": st["snap"], "slept": st["slept"], "opts": st.get("opts"),
                           "reasons": st.get("reasons", [])} for st in steps],
                "hook_calls": [[w, h, n] for (w, h), n in sorted(s.counters.items())]}

    def impl_view(sc, obs):
        if "steps" not in obs:
            return obs
        return [{"lines": st["lines"], "snap": st["snap"]} for st in obs["steps"]]

    def model_line(sc):
        return coreenc.enc_scenario(sc)

    def model_parse(sc, line):
        return coreenc.parse_model(line)

    def oracle(sc, obs):
        if "steps" not in obs:
            return [{"sig": "harness-exception", "msg": obs.get("harness_exception"), "tb": obs.get("tb")}]
        if any(op[0] in ("poke", "call") for op in sc["ops"]):
            return []                     # unit-level scenario: states no history reaches — the properties do not speak of them
        counters = {(w, h): n for w, h, n in obs.get("hook_calls", [])}
        fs = coreprops.run_oracle(prop_id, sc, obs["steps"], counters)
        return fs[:4]

    def nontrivial(sc, obs):
        if "steps" not in obs:
            return False
        eff = sum(1 for st in obs["steps"] for l in st["lines"] if l.startswith(("o spawn", "o sig", "o reap")))
        return eff >= 3 and any(st["op"][0] == "req" for st in obs["steps"])

    def stats(cases, impl):
        import collections
        ops = collections.Counter()
        cmds = collections.Counter()
        errnos = collections.Counter()
        slots = collections.Counter()
        lines = collections.Counter()
        for sc, o in zip(cases, impl):
            for st in o.get("steps", []):
                ops[st["op"][0]] += 1
                if st["op"][0] == "req" and isinstance(st["op"][1], dict):
                    cmds[str(st["op"][1].get("command")).lower()] += 1
                for l in st["lines"]:
                    t = l.split(" ")
                    lines[t[1]] += 1
                    if t[1] == "rep":
                        errnos["%s/%s" % (t[-3], t[-2])] += 1
                sl = st["snap"].split(" ")
                if len(sl) > 1:
                    slots[sl[1]] += 1
        return {"ops": dict(ops), "commands": dict(cmds.most_common(30)), "reply_status_errno": dict(errnos),
                "slot_at_snapshots": dict(slots), "observation_kinds": dict(lines)}

    class Matcher(list):
        pass

    m.generate, m.corpus, m.impl_run, m.impl_view = generate, corpus, impl_run, impl_view
    m.model_line, m.model_parse, m.oracle, m.nontrivial, m.stats = model_line, model_parse, oracle, nontrivial, stats
    m.views_equal = lambda sc, mv, iv: coreenc.steps_match(mv, iv)
    m.first_diff = lambda sc, mv, iv: coreenc.first_diff(mv, iv)
    return m
