"""Worker process of the live cross-check (harness/live.py, docs/LIVE.md).

    python live_worker.py --name N --wid W --behav JSON --ready FD

Implements one `behav` entry of a core scenario (harness/coregen.py) with a REAL process:
  term: ["obey", delay_ms]  SIGTERM / SIGINT / SIGQUIT: after delay_ms the process dies *by that signal* (wait status = signal)
        ["ignore"]          those signals are ignored; only SIGKILL ends the process
  kids / kid_term           fork `kids` children first, each obeying / ignoring the same signals (["obey", d] | ["ignore"])
  SIGHUP, SIGUSR1, SIGUSR2, SIGWINCH, SIGCONT are ignored (the simulated kernel's workers do the same)
  SIGRTMIN+k (k = 0..7)     exit(k): how the harness makes a worker exit by itself with a chosen code (`die` op)
When every handler is in place (and every kid has reported the same) one line per process is written to the --ready
descriptor ("K <pid>" per kid, "R <pid>" for the worker); the harness does not let the daemon go on before that.
Dead-man timer: SIGALRM (default action) ends the process LIFETIME seconds after its start whatever happens.
"""
import json
import os
import signal
import sys
import time

LIFETIME = 15
STOPPERS = (signal.SIGTERM, signal.SIGINT, signal.SIGQUIT)
IGNORED = (signal.SIGHUP, signal.SIGUSR1, signal.SIGUSR2, signal.SIGWINCH, signal.SIGCONT)


def arm(term):
    try:
        import resource
        resource.setrlimit(resource.RLIMIT_CORE, (0, 0))      # SIGQUIT's default action must not write a core file
    except Exception:
        pass
    signal.alarm(LIFETIME)
    for s in IGNORED:
        signal.signal(s, signal.SIG_IGN)
    for k in range(8):
        signal.signal(signal.SIGRTMIN + k, lambda signum, frame, k=k: os._exit(k))
    state = {"dying": False}
    if term and term[0] == "obey":
        delay = (term[1] if len(term) > 1 else 0) / 1000.0

        def obey(signum, frame):
            if state["dying"]:
                return
            state["dying"] = True
            if delay > 0:
                end = time.monotonic() + delay
                while True:
                    left = end - time.monotonic()
                    if left <= 0:
                        break
                    time.sleep(left)
            signal.signal(signum, signal.SIG_DFL)
            os.kill(os.getpid(), signum)
            time.sleep(5)                                      # not reached: the signal is pending and unblocked
            os._exit(120)
        for s in STOPPERS:
            signal.signal(s, obey)
    else:
        for s in STOPPERS:
            signal.signal(s, signal.SIG_IGN)


def idle():
    while True:
        signal.pause()


def main(argv):
    opt = {}
    i = 0
    while i + 1 < len(argv):
        if argv[i].startswith("--"):
            opt[argv[i][2:]] = argv[i + 1]
            i += 2
        else:
            i += 1
    b = json.loads(opt.get("behav", "{}"))
    ready = int(opt.get("ready", "-1"))

    def say(text):
        if ready >= 0:
            try:
                os.write(ready, text.encode())
            except OSError:
                pass

    signal.signal(signal.SIGCHLD, signal.SIG_IGN)              # dead kids are reaped by the kernel (sim: they are just gone)
    for _ in range(int(b.get("kids", 0))):
        pid = os.fork()
        if pid == 0:
            arm(b.get("kid_term", ["obey", 0]))
            say("K %d\n" % os.getpid())
            if ready >= 0:
                os.close(ready)
            idle()
            os._exit(0)
    arm(b.get("term", ["obey", 0]))
    say("R %d\n" % os.getpid())
    if ready >= 0:
        os.close(ready)
    idle()


if __name__ == "__main__":
    main(sys.argv[1:])
