"""C18 is decided on two layers: confinement of signal/kill requests on the core state machine and
the designation language (to_signum, harness/props/c18_designation.py)."""
from harness.corecheck import make
from harness.props import c18_designation
PARTS = [make("C18", ["CircusProofs/Props/C18.lean"],
              ["CircusProofs/Core/Pres.lean", "CircusProofs/Core/Generic.lean", "CircusProofs/Props/C02.lean",
               "CircusProofs/Props/C14.lean"]),
         c18_designation]
