from harness.corecheck import make
MODULE = make("C11", ["CircusProofs/Props/C11.lean"], ["CircusProofs/Lemmas/Core.lean"])
