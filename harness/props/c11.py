from harness.corecheck import make
MODULE = make("C11", ["CircusProofs/Props/C11.lean"],
              ["CircusProofs/Core/Pres.lean", "CircusProofs/Core/Generic.lean", "CircusProofs/Core/SlotFree.lean",
               "CircusProofs/Core/SlotInv.lean", "CircusProofs/Props/C10.lean", "CircusProofs/Props/C15.lean", "CircusProofs/Core/OptionsCmd.lean"])
