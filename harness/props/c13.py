"""C13 — each worker runs exactly the configured command line, environment and directory.

Correspondence (real code vs Lean model, per case kind):
  gnu    circus.util.replace_gnu_args                       vs Circus.GnuArgs.replaceGnuArgs
  split  shlex.split (CPython, as circus configures it)      vs Circus.Shlex.split
  quote  shlex.quote / ' '.join / shlex.split                vs Circus.Shlex.quote / joinSp / split
  fmt    circus.process.Process(..., spawn=False).format_args vs Circus.FormatArgs.formatArgs
  spawn  real circus.watcher.Watcher(...).spawn_process() -> real Process.spawn with
         circus.process.Popen replaced by a recorder        vs Circus.FormatArgs.spawnProcess
  hist   real Watcher, histories of spawn / death / numprocesses changes (wids)
                                                             vs Circus.FormatArgs.traceOps / runOps

Oracle: the property restated over what the implementation produced.  Texts that are subject to
substitution are generated as a sequence of *segments* (literal text, reference to a known
variable, reference to an unknown variable, hand-written partial / nested patterns), each
carrying what the property says must come out of it; segments are built so that no pattern can
straddle a segment boundary (see `_Text`).  The expectation never uses the model.
"""
import os
import shlex
import sys
import types

from harness.core import enc_cps, dec_cps

LEAN_PROPS = ["CircusProofs/Props/C13.lean", "CircusProofs/Props/C13Core.lean"]
LEAN_LEMMAS = ["CircusProofs/Lemmas/Argv.lean", "CircusProofs/Core/WidInv.lean"]
RULE = ("cases = six kinds (gnu, split, quote, fmt, spawn, hist). cmd/args/shell_args are concatenations of "
        "segments: literals over an alphabet with spaces, tabs, both quote kinds, backslashes, '$', '(' and ')'; "
        "references in both syntaxes $(circus.X) / ((circus.X)) with random letter case to wid, env.<key>, "
        "working_dir, shell, sockets.<name>; unknown references; partial and nested patterns "
        "('$(circus.', '((circus.wid)', '$((circus.wid)))', '$(circus.$(circus.wid))', ...); args as None, string "
        "or list; shell on/off with shell_args; env None / {} / dict, with and without copy_env / copy_path over a "
        "generated os.environ; use_sockets on/off; histories of spawn / die / set-numprocesses. Plus a few thousand "
        "random strings over adversarial alphabets for the regex scanner and the shlex automaton. All drawn from "
        "VERIF_SEED. non-trivial = a substitution happened, quoting mattered, or a wid was reused; distinct by "
        "content hash")
ASSUMPTIONS = [
    "ASCII: \\w, re.I and str.lower are modelled for code points < 128 (Python also accepts Unicode word characters "
    "in keys and lets U+017F/U+0131/U+212A match s/i/k under re.I); generated texts are ASCII",
    "str(value) of option values, os.environ, os.pathsep.join(sys.path) and the resolved working_dir are parameters "
    "handed to the model",
    "only prefix='circus' of replace_gnu_args; IS_WINDOWS is false",
    "the deprecated $WID branch of format_args only warns and assigns self.cmd; it does not change the result of the call",
    "uid/gid/rlimits/preexec_fn, virtualenv and hooks are outside C13; Popen is a recorder (no process is created)",
    "shlex.split / shlex.quote of CPython 3.12 are the definition of 'shell quoting rules' (the model of them is "
    "diffed against the library on every run)",
    "wid histories are driven on a real Watcher by calling spawn_process and removing entries of Watcher.processes; "
    "the invariant over the full watcher state machine (manage/reap/kill coroutines) belongs to the Watcher layer",
]

_LIT = "ab xyz019_-./=:,@%+"          # no 'c'/'C': "circus." can only come from reference segments
_LIT_HARD = " \t'\"\\$()"
_TERM = "$=+/:,@% "                   # not in [\w.\-] and not ')'
_KEYCH = "abwidENV019_.-"


# --------------------------------------------------------------------------- text generation

def _rcase(rng, s):
    return "".join(ch.upper() if rng.random() < 0.5 else ch.lower() for ch in s)


def _ref(rng, key):
    key = _rcase(rng, "circus." + key)
    return ("$(%s)" if rng.random() < 0.5 else "((%s))") % key


class _Text(object):
    """A generated text with the text the property requires after substitution.

    Invariants that make the per-segment expectation sound: (1) "circus." occurs only inside
    reference/pattern segments and is preceded by at least two characters of the same segment,
    so a match cannot start in a neighbouring segment; (2) a complete reference ends with its
    own closing text; (3) an incomplete pattern ends with a terminator that is neither in
    [\\w.\\-] nor ')', so the following segment cannot complete it."""

    def __init__(self):
        self.text = ""
        self.exp = ""
        self.kinds = set()

    def add(self, text, exp, kind):
        self.text += text
        self.exp += exp
        self.kinds.add(kind)


def _word(rng, hard):
    n = rng.choice([1, 1, 2, 3, 5])
    alph = _LIT + (_LIT_HARD if hard else "")
    w = "".join(rng.choice(alph) for _ in range(n))
    if rng.random() < 0.06:
        # `#` is an ordinary character for `shlex.split(s)` (comments are off): at the start of a word, inside one, alone
        w = rng.choice(["#" + w, w + "#" + w, "#", w + "#"])
    return w


def _quoted_word(rng):
    """a well-formed shell word using quotes / escapes"""
    w = _word(rng, False)
    r = rng.random()
    if r < 0.3:
        return "'" + w + rng.choice(["", " ", "\"", "$", "\\"]) + "'"
    if r < 0.6:
        return '"' + w + rng.choice(["", " ", "'", "\\\"", "\\\\", "\\a", "$"]) + '"'
    if r < 0.8:
        return w + "\\" + rng.choice(" '\"\\a$")
    return w + "''" + rng.choice(["", "b"])


def gen_text(rng, ctx, nseg=None, spaced=True):
    """ctx: wid, env (dict), known (dict key -> expected str)"""
    t = _Text()
    n = nseg if nseg is not None else rng.choice([1, 2, 3, 4, 6])
    wid = str(ctx["wid"])
    known = ctx["known"]
    for i in range(n):
        r = rng.random()
        if r < 0.28:
            w = _quoted_word(rng) if rng.random() < 0.6 else _word(rng, rng.random() < 0.25)
            t.add(w, w, "lit")
        elif r < 0.45:
            t.add(_ref(rng, "wid"), wid, "wid")
        elif r < 0.60 and known:
            k = rng.choice(sorted(known))
            t.add(_ref(rng, k), known[k], "known")
        elif r < 0.75:
            k = rng.choice(["nope", "env.zzz", "wid2", "w.i-d", "widx", "env", "-", ".", "0", "env.", "sockets.none",
                            "".join(rng.choice(_KEYCH) for _ in range(rng.randint(1, 6)))])
            if k.lower() in known or k.lower() == "wid" or k.lower().startswith("circus") or \
                    (k.lower() == "env" and not ctx.get("bare_env_ok", True)):
                k = "nope"
            ref = _ref(rng, k)
            t.add(ref, ref, "unknown")
        else:
            term = rng.choice(_TERM)
            w1 = _ref(rng, "wid")
            c = _rcase(rng, "circus")
            pats = [
                ("$(" + c + "." + term, None),
                ("((" + c + ".wid)" + term, None),
                ("$(" + c + ".wid" + term, None),
                ("((" + c + ".wid" + term, None),
                ("$(" + c + ".)", None),
                ("((" + c + ".))", None),
                ("$( " + c + ".wid)", None),
                ("$(" + c + ".wid )", None),
                ("$(" + c + " wid)", None),
                ("$(" + c + "wid)", None),
                ("${" + c + ".wid}", None),
                ("$" + c + ".wid" + term, None),
                ("=(" + c + ".wid)" + term, None),
                ("((" + c + ".wid)(" + term, None),
                ("$WID", None),
                ("$" + w1 + ")" if w1[0] == "(" else "$" + w1, "$" + wid + (")" if w1[0] == "(" else "")),
                ("(" + w1 + ")", "(" + wid + ")"),
                (w1 + ")", wid + ")"),
                (w1 + w1, wid + wid),
                ("$(" + c + "." + w1 + ")", "$(" + c + "." + wid + ")"),
                ("((" + c + ".w" + w1 + "))", "((" + c + ".w" + wid + "))"),
                ("$(" + c + ".wid" + w1, "$(" + c + ".wid" + wid),
            ]
            p, e = rng.choice(pats)
            t.add(p, p if e is None else e, "pattern")
        if spaced and i + 1 < n and rng.random() < 0.7:
            sp = rng.choice([" ", " ", "  ", "\t"])
            t.add(sp, sp, "lit")
    return t


def _tj(t):
    return {"text": t.text, "exp": t.exp, "kinds": sorted(t.kinds)}


def _gen_env(rng, allow_none=True):
    r = rng.random()
    if allow_none and r < 0.15:
        return None
    if r < 0.25:
        return {}
    env = {}
    for _ in range(rng.randint(1, 4)):
        k = rng.choice(["A", "b", "Home", "X_1", "lang", "Q", "K-2", "my.var"])
        if k.lower() in (x.lower() for x in env):
            continue
        env[k] = rng.choice(["v", "x y", "", "/usr/bin", "a'b", "1 \"2\"", "$HOME", "tab\there"])
    return env


def _gen_args(rng, ctx, allow_none=True):
    r = rng.random()
    if allow_none and r < 0.15:
        return None, None
    if r < 0.55:
        t = gen_text(rng, ctx)
        return t.text, _tj(t)
    items = [gen_text(rng, ctx, nseg=rng.choice([1, 1, 2, 3])) for _ in range(rng.randint(0, 4))]
    if rng.random() < 0.2:
        items.append(gen_text(rng, ctx, nseg=0))           # an empty list element
    return [t.text for t in items], [_tj(t) for t in items]


def _known(env, cwd, shell, sockets=None):
    known = {"working_dir": cwd, "shell": str(shell)}
    for k, v in (env or {}).items():
        known["env." + k.lower()] = v
    for k, v in (sockets or {}).items():
        known["sockets." + k.lower()] = str(v)
    return known


def gen_fmt(rng):
    wid = rng.choice([1, 1, 2, 3, 7, 10, 12, 305])
    env = _gen_env(rng)
    cwd = rng.choice(["/tmp", "/", "/var/my dir", "/opt/a'b"])
    shell = rng.random() < 0.35
    sockets = rng.choice([None, None, {"web": 7}, {"Web": 11, "s2": 4}])
    ctx = {"wid": wid, "known": _known(env, cwd, shell, sockets)}
    cmd = gen_text(rng, ctx)
    if not cmd.text.strip():
        cmd.add("prog", "prog", "lit")
    args, args_j = _gen_args(rng, ctx)
    shell_args, shell_args_j = (None, None)
    if rng.random() < 0.4:
        shell_args, shell_args_j = _gen_args(rng, ctx)
    return {"kind": "fmt", "wid": wid, "cmd": cmd.text, "cmd_j": _tj(cmd), "args": args, "args_j": args_j,
            "shell": shell, "env": env, "cwd": cwd, "sockets": sockets,
            "shell_args": shell_args, "shell_args_j": shell_args_j, "np": rng.choice([1, 3])}


def gen_spawn(rng):
    env = _gen_env(rng)
    copy_env = rng.random() < 0.5
    copy_path = copy_env and rng.random() < 0.3
    environ = {}
    for _ in range(rng.randint(0, 4)):
        environ[rng.choice(["PATH", "HOME", "A", "b", "LANG", "Zed"])] = rng.choice(["/bin:/usr/bin", "/root", "o", "", "x y"])
    if copy_env and env and any(k.lower() == e.lower() and k != e for k in environ for e in env):
        environ = {k: v for k, v in environ.items() if k.lower() not in [e.lower() for e in env]}
    if any(a.lower() == b.lower() and a != b for a in environ for b in environ):
        environ = {}
    cwd = rng.choice(["/tmp", "/", "/var/my dir", "/opt/a'b"])
    shell = rng.random() < 0.3
    np_ = rng.choice([1, 2, 3, 5])
    used = sorted(rng.sample(range(1, 2 * np_ + 2), rng.randint(0, min(2 * np_, 4))))
    if rng.random() < 0.7 and len(used) >= 2 * np_:
        used = used[:-1]
    free = [w for w in range(1, 2 * np_ + 1) if w not in used]
    wid = free[0] if free else 0
    eff = None
    if copy_env:
        eff = dict(environ)
        eff.update(env or {})
    else:
        eff = env
    sockets = rng.choice([None, None, {"web": 7}, {"Web": 11, "s2": 4}])
    # with no env at all Watcher.spawn_process formats cmd with env=None, so a bare $(circus.env) is "None" there
    ctx = {"wid": wid, "known": _known(eff, cwd, shell, sockets), "bare_env_ok": eff is not None}
    cmd = gen_text(rng, ctx)
    if not cmd.text.strip():
        cmd.add("prog", "prog", "lit")
    args, args_j = _gen_args(rng, ctx)
    shell_args, shell_args_j = (None, None)
    if rng.random() < 0.4:
        shell_args, shell_args_j = _gen_args(rng, ctx)
    return {"kind": "spawn", "cmd": cmd.text, "cmd_j": _tj(cmd), "args": args, "args_j": args_j,
            "shell": shell, "shell_args": shell_args, "shell_args_j": shell_args_j, "cwd": cwd,
            "env": env, "copy_env": copy_env, "copy_path": copy_path, "environ": environ,
            "use_sockets": rng.random() < 0.5, "np": np_, "used": used, "sockets": sockets,
            "pipe_out": rng.random() < 0.5, "pipe_err": rng.random() < 0.5,
            "executable": rng.choice([None, None, "/bin/true"]), "exp_wid": wid,
            "neighbours": rng.choice([0, 1, 2, 2])}


def gen_gnu(rng):
    wid = rng.choice([1, 2, 10, 99])
    env = _gen_env(rng, allow_none=False)
    ctx = {"wid": wid, "known": _known(env, "/w d", True)}
    t = gen_text(rng, ctx)
    opts = [["wid", wid], ["shell", True], ["env", env], ["working_dir", "/w d"], ["uid", None]]
    rng.shuffle(opts)
    opts = [[_rcase(rng, k), v] for k, v in opts]          # keyword names are lower-cased by the code
    return {"kind": "gnu", "data": t.text, "data_j": _tj(t), "opts": opts}


def gen_gnu_random(rng):
    """adversarial alphabet for the scanner; no expectation, pure model-vs-re diff"""
    toks = ["$(", "((", ")", "))", "circus.", "CIRCUS.", "Circus", "wid", "WID", "env.a", "ENV.A", ".", "-", "_",
            "$", "(", " ", "x", "circus", "k", "K", "circus.circus.wid", "0"]
    def piece():
        if rng.random() < 0.35:
            key = "".join(rng.choice(["wid", "WID", "env.a", "Env.A", "k", "K", "circus.wid", "x-y", ".", "-", "_", "zz", "env"])
                          for _ in range(rng.choice([1, 1, 1, 2])))
            o, c = rng.choice([("$(", ")"), ("((", "))"), ("$(", "))"), ("((", ")"), ("$((", ")))")])
            return o + _rcase(rng, "circus.") + key + c
        return rng.choice(toks)
    s = "".join(piece() for _ in range(rng.randint(0, 7)))
    opts = []
    for k, v in [("wid", 7), ("Wid", "W"), ("k", "v$(circus.wid)"), ("env", {"A": "ea", "a": "eb"}), ("ENV.A", "top"),
                 ("circus.wid", "cw"), ("env", {}), ("x-y", None), ("K", 1.5)]:
        if rng.random() < 0.4 and k not in [o[0] for o in opts]:
            opts.append([k, v])
    rng.shuffle(opts)
    return {"kind": "gnu", "data": s, "data_j": None, "opts": opts}


def gen_split_random(rng):
    if rng.random() < 0.5:
        return {"kind": "split", "s": rng.choice(["", " ", "\t"]).join(
            (_quoted_word(rng) if rng.random() < 0.7 else _word(rng, True)) for _ in range(rng.randint(0, 5)))}
    alph = rng.choice([" \t\n\r'\"\\ab$#", " '\"\\a", "ab c'\"\\\n"])
    return {"kind": "split", "s": "".join(rng.choice(alph) for _ in range(rng.randint(0, 10)))}


def gen_quote(rng):
    alph = " \t\n'\"\\ab$_@%+=:,./-*~!`(){}[]<>|&;#?^"
    xs = ["".join(rng.choice(alph) for _ in range(rng.choice([0, 1, 1, 2, 3, 5, 8]))) for _ in range(rng.randint(0, 5))]
    return {"kind": "quote", "xs": xs, "live": rng.random() < 0.07}


def gen_hist(rng):
    np_ = rng.choice([0, 1, 1, 2, 3, 4])
    ops = []
    live = 0
    for _ in range(rng.randint(1, 14)):
        r = rng.random()
        if r < 0.55:
            ops.append(["s"])
            live += 1
        elif r < 0.9:
            ops.append(["d", rng.randint(0, max(0, live))])
            live = max(0, live - 1)
        else:
            ops.append(["n", rng.choice([0, 1, 2, 3, 5])])
    # the same watcher object spawns every generation: its cmd / args templates carry $(circus.wid) — as a string or
    # as a list — and every worker must get its *own* id in them (the templates are not consumed by the first spawn)
    style = rng.choice(["list", "list", "str", "cmd", "envcmd", "envcmd"])
    if style == "envcmd":
        # the environment the references are expanded from changes between generations (`set <w> env …`)
        for _ in range(rng.randint(1, 3)):
            ops.insert(rng.randint(0, len(ops)), ["e", rng.choice(["green", "red", "blue"])])
    return {"kind": "hist", "np": np_, "ops": ops, "argstyle": style}


def _hist_templates(style):
    if style == "list":
        return "prog --id $(circus.wid)", ["--w", "$(circus.wid)", "((circus.wid))x", "lit eral"]
    if style == "str":
        return "prog --id $(circus.wid)", "--w $(circus.wid) ((circus.wid))x 'lit eral'"
    if style == "cmd":
        return "prog --id $(circus.wid) --w ((CIRCUS.WID))", None
    if style == "envcmd":
        return "prog --id $(circus.wid) --mode $(circus.env.mode)", ["--m2", "((circus.env.mode))"]
    return "x", None


def _hist_expected_argv(style, wid, mode="blue"):
    w = str(wid)
    if style == "envcmd":
        return ["prog", "--id", w, "--mode", mode, "--m2", mode]
    if style in ("list", "str"):
        return ["prog", "--id", w, "--w", w, w + "x", "lit eral"]
    if style == "cmd":
        return ["prog", "--id", w, "--w", w]
    return None


def generate(rng, tier):
    q = tier == "quick"
    cases = []
    cases += [gen_fmt(rng) for _ in range(400 if q else 6000)]
    cases += [gen_spawn(rng) for _ in range(300 if q else 4000)]
    cases += [gen_gnu(rng) for _ in range(300 if q else 4000)]
    cases += [gen_gnu_random(rng) for _ in range(2500 if q else 30000)]
    cases += [gen_split_random(rng) for _ in range(2500 if q else 30000)]
    cases += [gen_quote(rng) for _ in range(300 if q else 5000)]
    cases += [gen_hist(rng) for _ in range(200 if q else 3000)]
    return cases


def corpus():
    def fmt(cmd, args=None, shell=False, env=None, wid=3, shell_args=None, sockets=None, **kw):
        c = {"kind": "fmt", "wid": wid, "cmd": cmd, "cmd_j": None, "args": args, "args_j": None, "shell": shell,
             "env": env, "cwd": "/tmp", "sockets": sockets, "shell_args": shell_args, "shell_args_j": None, "np": 2}
        c.update(kw)
        return c

    def spawn(cmd, **kw):
        c = {"kind": "spawn", "cmd": cmd, "cmd_j": None, "args": None, "args_j": None, "shell": False,
             "shell_args": None, "shell_args_j": None, "cwd": "/tmp", "env": None, "copy_env": False,
             "copy_path": False, "environ": {"PATH": "/bin"}, "use_sockets": False, "np": 1, "used": [],
             "sockets": None, "pipe_out": False, "pipe_err": False, "executable": None, "exp_wid": 1}
        c.update(kw)
        return c
    return [
        # quirks that the model reproduces; no expectation is attached (interpretation is open)
        fmt("echo $(circus.circus.wid) $(circus.circusx)"),                      # option.startswith(prefix)
        fmt("echo $(circus.env.a)", env={"A": "first", "a": "second"}),           # env keys colliding after lower()
        fmt("echo $(circus.env) $(circus.rlimits) $(circus.args)", args=["x y", "z"], env={}),
        fmt("a 'b", args="c"), fmt("a", args="'b"), fmt("a\\", args=None),        # ValueError outcomes, order of evaluation
        fmt("a 'b", args="c\\"),
        fmt("sh", args=["-c", "echo $(circus.wid)"], shell=True, shell_args=["-x", "$(CIRCUS.WID)"]),
        fmt("sh", args="a 'b c'", shell=True, shell_args="-e ((circus.wid)) 'q r'"),
        fmt("x", shell=False, shell_args=["ignored"]),
        fmt("x $(circus.sockets.web) $(circus.SOCKETS.S2)", sockets={"Web": 11, "s2": 4}),
        fmt("prog $WID", args=["$WID"]),
        # cmd is substituted twice on the watcher path: once with env only in Watcher.spawn_process, then in format_args
        spawn("echo $(circus.env.a)", env={"a": "$(circus.wid)"}, args=["$(circus.env.a)"]),
        spawn("echo $(circus.$(circus.env.a))", env={"a": "wid"}),
        spawn("echo $(circus.env)", env=None),
        spawn("echo hi", copy_env=True, copy_path=True, env={"A": "1"}, environ={"A": "0", "B": "2"}),
        spawn("echo hi", copy_env=False, copy_path=True),
        spawn("echo hi", executable="/bin/true", use_sockets=True, pipe_out=True),      # executable is dropped
        spawn("echo 'x", np=2, used=[1]),
        spawn("echo", np=1, used=[1, 2]),
        {"kind": "hist", "np": 1, "ops": [["s"], ["s"], ["s"], ["d", 0], ["s"], ["n", 3], ["s"], ["s"]]},
        {"kind": "gnu", "data": "$(circus.k) ((CIRCUS.K))", "data_j": None, "opts": [["k", "$(circus.wid)"], ["wid", 1]]},
        {"kind": "gnu", "data": "$(circus.wid)", "data_j": None, "opts": [["wid", 1], ["WID", 2]]},
        {"kind": "split", "s": "a\\\nb \"c\\d\\\"e\\\\\" ''"},
        {"kind": "quote", "xs": ["", "a'b", "it's \"x\"", "safe-._/", "\\", "a\nb"], "live": True},
    ]


# --------------------------------------------------------------------------- implementation side

class _Recorder(object):
    """stands in for psutil.Popen in circus.process"""
    calls = []
    next_pid = 5000

    def __init__(self, args, **kw):
        _Recorder.next_pid += 1
        self.pid = _Recorder.next_pid
        self.returncode = None
        self.stdout = None
        self.stderr = None
        _Recorder.calls.append((args, kw))

    def poll(self):
        return None


class _OsProxy(object):
    def __init__(self, environ):
        self.environ = environ

    def __getattr__(self, name):
        return getattr(os, name)


def _split_err(e):
    m = str(e)
    if "closing quotation" in m:
        return "quote"
    if "escaped character" in m:
        return "escape"
    return "valueerror:" + m


def _impl_fmt(case):
    import circus.process as cp
    watcher = types.SimpleNamespace(optnames=("shell_args", "numprocesses", "wid", "env"), sockets=None,
                                    shell_args=case["shell_args"], numprocesses=case["np"])
    p = cp.Process("w", case["wid"], case["cmd"], args=case["args"], working_dir=case["cwd"],
                   shell=case["shell"], env=case["env"], spawn=False, watcher=watcher)
    try:
        return {"argv": p.format_args(sockets_fds=case["sockets"])}
    except ValueError as e:
        return {"error": _split_err(e)}


class _Sock(object):
    so_reuseport = False

    def __init__(self, fd):
        self._fd = fd

    def fileno(self):
        return self._fd


def _mk_watcher(case):
    import circus.watcher as cw
    stream = {"stream": _noop}
    kw = {}
    if case.get("executable") is not None:
        kw["executable"] = case["executable"]
    w = cw.Watcher("w13", case.get("cmd", "x"), args=case.get("args"), numprocesses=case["np"],
                   working_dir=case.get("cwd", "/tmp"), shell=case.get("shell", False),
                   shell_args=case.get("shell_args"), env=case.get("env"), copy_env=case.get("copy_env", False),
                   copy_path=case.get("copy_path", False), use_sockets=case.get("use_sockets", False),
                   stdout_stream=dict(stream) if case.get("pipe_out") else None,
                   stderr_stream=dict(stream) if case.get("pipe_err") else None,
                   loop=object(), **kw)
    w._status = "active"
    w.notify_event = _noop
    if case.get("sockets") is not None:
        w.sockets = {k: _Sock(v) for k, v in case["sockets"].items()}
    return w


def _noop(*a, **k):
    return None


class _Patched(object):
    """circus.process.Popen -> recorder, circus.watcher.os -> proxy with a generated environ"""

    def __init__(self, environ):
        self.environ = environ

    def __enter__(self):
        import circus.process as cp
        import circus.watcher as cw
        self.cp, self.cw = cp, cw
        self.popen, self.os = cp.Popen, cw.os
        cp.Popen = _Recorder
        cw.os = _OsProxy(dict(self.environ))
        _Recorder.calls = []
        return self

    def __exit__(self, *a):
        self.cp.Popen = self.popen
        self.cw.os = self.os
        return False


def _neighbour(i):
    """another watcher of the same daemon with copy_env and its own env: must not leak into anybody else"""
    import circus.watcher as cw
    return cw.Watcher("n13_%d" % i, "x", numprocesses=1, working_dir="/tmp", copy_env=True,
                      env={"ZZ_NEIGHBOUR_%d" % i: "leak"}, loop=object())


def _impl_spawn(case):
    with _Patched(case["environ"]) as ctx:
        nb = case.get("neighbours", 0)
        try:
            if nb >= 1:
                _neighbour(1)                      # built before the watcher under test
            w = _mk_watcher(case)
            if nb >= 2:
                _neighbour(2)                      # … and one built after it
        except ValueError as e:
            return {"result": "E:copy_path" if "copy_path" in str(e) else "valueerror:%s" % e}
        intact = dict(ctx.cw.os.environ) == dict(case["environ"]) or case.get("copy_path")
        for i, u in enumerate(case["used"]):
            w.processes[9000 + i] = types.SimpleNamespace(wid=u, pid=9000 + i)
        before = set(w.processes)
        try:
            res = w.spawn_process()
        except RuntimeError:
            return {"result": "raised", "popen_calls": len(_Recorder.calls)}
        if res is False:
            return {"result": "failed", "popen_calls": len(_Recorder.calls)}
        new = [p for pid, p in w.processes.items() if pid not in before]
        args, kw = _Recorder.calls[-1]
        return {"result": "ok", "wid": new[0].wid, "argv": list(args), "cwd": kw.get("cwd"),
                "shell": kw.get("shell"), "env": sorted((kw.get("env") or {}).items()) if kw.get("env") is not None else None,
                "close_fds": kw.get("close_fds"), "executable": kw.get("executable"),
                "pipe_out": "stdout" in kw, "pipe_err": "stderr" in kw, "popen_calls": len(_Recorder.calls),
                "kw_names": sorted(kw), "environ_intact": bool(intact)}


def _impl_hist(case):
    with _Patched({}):
        cmd, args = _hist_templates(case.get("argstyle"))
        mode = "blue"
        w = _mk_watcher({"np": case["np"], "cmd": cmd, "args": args,
                         "env": {"mode": mode} if case.get("argstyle") == "envcmd" else None})
        answers = []
        for op in case["ops"]:
            if op[0] == "e":
                mode = op[1]
                w.set_opt("env", {"mode": mode})
                continue
            if op[0] == "s":
                before = set(w.processes)
                live_before = [p.wid for p in w.processes.values()]
                ncalls = len(_Recorder.calls)
                try:
                    w.spawn_process()
                except RuntimeError:
                    answers.append({"wid": None, "live_before": live_before})
                    continue
                new = [p for pid, p in w.processes.items() if pid not in before]
                argv = list(_Recorder.calls[-1][0]) if len(_Recorder.calls) > ncalls else None
                answers.append({"wid": new[0].wid, "live_before": live_before, "argv": argv, "mode": mode})
            elif op[0] == "d":
                pids = list(w.processes)
                if op[1] < len(pids):
                    w.processes.pop(pids[op[1]])
            else:
                w.numprocesses = op[1]
        return {"answers": answers, "live": [p.wid for p in w.processes.values()]}


def impl_run(case):
    import logging
    logging.getLogger("circus").setLevel(logging.CRITICAL + 1)
    k = case["kind"]
    if k == "gnu":
        from circus.util import replace_gnu_args
        kwargs = {}
        for key, v in case["opts"]:
            kwargs[key] = v
        return {"out": replace_gnu_args(case["data"], **kwargs)}
    if k == "split":
        try:
            return {"toks": shlex.split(case["s"])}
        except ValueError as e:
            return {"error": _split_err(e)}
    if k == "quote":
        qs = [shlex.quote(x) for x in case["xs"]]
        j = " ".join(qs)
        try:
            back = {"toks": shlex.split(j)}
        except ValueError as e:
            back = {"error": _split_err(e)}
        obs = {"qs": qs, "joined": j, "back": back}
        if case.get("live") and os.path.exists("/bin/sh"):
            # what a real POSIX shell makes of the line (the vector `sh -c line` would exec)
            import subprocess
            r = subprocess.run(["/bin/sh", "-c", "printf '%s\\0' " + j], stdout=subprocess.PIPE, stderr=subprocess.PIPE, timeout=20)
            obs["sh"] = r.stdout.decode("utf8", "replace").split("\0")[:-1] if case["xs"] else []
        return obs
    if k == "fmt":
        return _impl_fmt(case)
    if k == "spawn":
        return _impl_spawn(case)
    if k == "hist":
        return _impl_hist(case)
    raise ValueError("unknown kind %r" % k)


def impl_view(case, obs):
    if "harness_exception" in obs:
        return obs
    k = case["kind"]
    if k == "spawn":
        if obs["result"] != "ok":
            return {"result": obs["result"]}
        return {x: obs[x] for x in ("result", "wid", "argv", "cwd", "shell", "env", "close_fds", "executable",
                                    "pipe_out", "pipe_err")}
    if k == "hist":
        return {"answers": [a["wid"] for a in obs["answers"]], "live": obs["live"]}
    if k == "quote":
        return {x: obs[x] for x in ("qs", "joined", "back")}
    return obs


# --------------------------------------------------------------------------- model side

def _enc_args(a):
    if a is None:
        return "~"
    if isinstance(a, str):
        return "s " + enc_cps(a)
    return " ".join(["l", str(len(a))] + [enc_cps(x) for x in a])


def _enc_dict(d):
    items = list(d.items())
    return " ".join([str(len(items))] + ["%s %s" % (enc_cps(k), enc_cps(str(v))) for k, v in items])


def _enc_table(pairs):
    out = [str(len(pairs))]
    for k, v in pairs:
        if isinstance(v, dict):
            out.append("%s d %s" % (enc_cps(k), _enc_dict(v)))
        else:
            out.append("%s s %s" % (enc_cps(k), enc_cps(str(v))))
    return " ".join(out)


def _enc_bool(b):
    return "1" if b else "0"


def _extra(case, use_fds, watcher_opts):
    """format_kwargs after 'working_dir', in the order the code inserts them"""
    extra = [("uid", None), ("gid", None), ("rlimits", {}), ("executable", None), ("use_fds", use_fds)]
    if case.get("sockets") is not None:
        extra.append(("sockets", case["sockets"]))
    return extra + watcher_opts


def model_line(case):
    k = case["kind"]
    if k == "gnu":
        return "argv gnu %s %s" % (enc_cps(case["data"]), _enc_table(case["opts"]))
    if k == "split":
        return "argv split %s" % enc_cps(case["s"])
    if k == "quote":
        return " ".join(["argv quote", str(len(case["xs"]))] + [enc_cps(x) for x in case["xs"]])
    if k == "fmt":
        extra = _extra(case, False, [("shell_args", case["shell_args"]), ("numprocesses", case["np"])])
        return " ".join(["argv fmt", str(case["wid"]), enc_cps(case["cmd"]), _enc_args(case["args"]),
                         enc_cps(str(case["args"])), _enc_bool(case["shell"]), _enc_dict(case["env"] or {}),
                         enc_cps(case["cwd"]), _enc_args(case["shell_args"]), _enc_table(extra)])
    if k == "spawn":
        wopts = [("numprocesses", case["np"]), ("shell_args", case["shell_args"]), ("cmd", case["cmd"]),
                 ("use_sockets", case["use_sockets"]), ("copy_env", case["copy_env"])]
        extra = _extra(case, case["use_sockets"], wopts)
        env = case["env"]
        return " ".join(["argv spawn", enc_cps(case["cmd"]), _enc_args(case["args"]), enc_cps(str(case["args"])),
                         _enc_bool(case["shell"]), _enc_args(case["shell_args"]), enc_cps(case["cwd"]),
                         _enc_bool(case["copy_env"]), _enc_bool(case["copy_path"]), _enc_dict(case["environ"]),
                         enc_cps(os.pathsep.join(sys.path)), "~" if env is None else "d " + _enc_dict(env),
                         _enc_bool(case["use_sockets"]), str(case["np"]), _enc_bool(case["pipe_out"]),
                         _enc_bool(case["pipe_err"]), "~" if case["executable"] is None else enc_cps(case["executable"]),
                         _enc_table(extra), str(len(case["used"]))] + [str(u) for u in case["used"]])
    if k == "hist":
        mops = [op for op in case["ops"] if op[0] != "e"]        # the wid model knows nothing of the environment
        return " ".join(["argv hist", str(case["np"]), str(len(mops))] +
                        [" ".join(str(x) for x in op) for op in mops])
    raise ValueError(k)


class _Toks(object):
    def __init__(self, line):
        self.t = line.split(" ")
        self.i = 0

    def next(self):
        x = self.t[self.i]
        self.i += 1
        return x

    def s(self):
        return "".join(chr(c) for c in dec_cps(self.next()))

    def lst(self):
        return [self.s() for _ in range(int(self.next()))]

    def split_answer(self):
        h = self.next()
        if h == "ok":
            return {"toks": self.lst()}
        return {"error": {"E:quote": "quote", "E:escape": "escape"}[h]}

    def dict(self):
        return [(self.s(), self.s()) for _ in range(int(self.next()))]

    def done(self):
        return self.i == len(self.t)


def model_parse(case, line):
    if line == "bad-op":
        return {"bad": True}
    k = case["kind"]
    t = _Toks(line)
    if k == "gnu":
        return {"out": t.s()}
    if k == "split":
        return t.split_answer()
    if k == "quote":
        qs = t.lst()
        j = t.s()
        return {"qs": qs, "joined": j, "back": t.split_answer()}
    if k == "fmt":
        a = t.split_answer()
        return {"argv": a["toks"]} if "toks" in a else a
    if k == "spawn":
        h = t.next()
        if h == "E:copy_path" or h == "raised":
            return {"result": h}
        if h == "failed":
            return {"result": "failed"}
        wid = int(t.next())
        argv = t.lst()
        cwd = t.s()
        shell = t.next() == "1"
        env = sorted(t.dict())
        close_fds = t.next() == "1"
        x = t.next()
        exe = None if x == "~" else "".join(chr(c) for c in dec_cps(x))
        return {"result": "ok", "wid": wid, "argv": argv, "cwd": cwd, "shell": shell,
                "env": env, "close_fds": close_fds, "executable": exe,
                "pipe_out": t.next() == "1", "pipe_err": t.next() == "1"}
    if k == "hist":
        left, right = line.split(";")
        return {"answers": [None if x == "R" else int(x) for x in left.split()],
                "live": [int(x) for x in right.split()]}
    raise ValueError(k)


# --------------------------------------------------------------------------- oracle

def _fail(sig, msg):
    return {"sig": sig, "msg": msg}


def _ref_split(s):
    try:
        return shlex.split(s)
    except ValueError:
        return None


def _expected_argv(case):
    """what the property says the argument vector is; None when the configured text is not
    well-formed shell syntax (the property is silent there) or carries no expectation"""
    if case.get("cmd_j") is None:
        return None, None
    cmd = _ref_split(case["cmd_j"]["exp"])
    if cmd is None:
        return None, None
    a, aj = case["args"], case["args_j"]
    if a is None:
        tail = []
    elif isinstance(a, str):
        tail = _ref_split(aj["exp"])
        if tail is None:
            return None, None
    else:
        tail = [x["exp"] for x in aj]
    extra = []
    if case["shell"]:
        sa, saj = case["shell_args"], case["shell_args_j"]
        if isinstance(sa, str):
            extra = _ref_split(saj["exp"])
            if extra is None:
                return None, None
        elif sa:
            extra = [x["exp"] for x in saj]
    return cmd + tail, extra


def _check_argv(case, argv, fails):
    exp, extra = _expected_argv(case)
    if exp is None:
        return
    if not case["shell"]:
        if argv != exp:
            a = case["args"]
            if isinstance(a, list) and argv[:len(argv) - len(a)] == exp[:len(exp) - len(a)] and len(argv) >= len(a):
                sig = "list-args-not-kept"
            elif isinstance(a, list) and len(argv) != len(exp):
                sig = "list-args-not-kept"
            else:
                sig = "argv-differs"
            fails.append(_fail(sig, "argv %r, the configuration denotes %r" % (argv, exp)))
    else:
        if not argv:
            fails.append(_fail("argv-differs", "empty argv with shell=True"))
            return
        if _ref_split(argv[0]) != exp:
            fails.append(_fail("shell-line-differs", "sh -c line %r denotes %r, the configuration denotes %r"
                               % (argv[0], _ref_split(argv[0]), exp)))
        if argv[1:] != extra:
            fails.append(_fail("shell-args-differ", "arguments after the sh -c line are %r, configured %r" % (argv[1:], extra)))


def oracle(case, obs):
    if "harness_exception" in obs:
        return [_fail("impl-raises", "implementation raised: %s" % obs["harness_exception"])]
    k = case["kind"]
    fails = []
    if k == "gnu":
        j = case.get("data_j")
        if j is not None and obs["out"] != j["exp"]:
            kinds = j["kinds"]
            fails.append(_fail("substitution-differs", "replace_gnu_args(%r) = %r, expected %r (segments: %s)"
                               % (case["data"], obs["out"], j["exp"], ",".join(kinds))))
    elif k == "quote":
        if obs["back"] != {"toks": case["xs"]}:
            fails.append(_fail("quote-roundtrip", "split(join(quote(xs))) = %r for xs = %r" % (obs["back"], case["xs"])))
        if "sh" in obs and obs["sh"] != case["xs"]:
            fails.append(_fail("quote-vs-sh", "/bin/sh reads %r as %r, not %r" % (obs["joined"], obs["sh"], case["xs"])))
    elif k == "fmt":
        if "argv" in obs:
            _check_argv(case, obs["argv"], fails)
        elif _expected_argv(case)[0] is not None:
            fails.append(_fail("argv-differs", "format_args raised %s on well-formed input" % obs.get("error")))
    elif k == "spawn":
        r = obs["result"]
        if r == "ok":
            _check_argv(case, obs["argv"], fails)
            if obs["cwd"] != case["cwd"]:
                fails.append(_fail("cwd-differs", "cwd %r, configured %r" % (obs["cwd"], case["cwd"])))
            if obs["shell"] != case["shell"]:
                fails.append(_fail("shell-flag-differs", "shell=%r, configured %r" % (obs["shell"], case["shell"])))
            if obs.get("environ_intact") is False:
                fails.append(_fail("daemon-environ-modified", "building the watchers changed the daemon's own os.environ"))
            if obs["env"] is None and case["env"] is not None:
                # Popen(env=None) is not "an empty environment": the worker inherits the daemon's whole os.environ
                fails.append(_fail("env-inherited-from-daemon", "an environment is configured (%r) but Popen was given env=None: the "
                                   "worker inherits the daemon's own environment" % (case["env"],)))
            env = dict(obs["env"] or [])
            conf = case["env"] or {}
            if not case["copy_env"]:
                if env != conf:
                    fails.append(_fail("env-differs", "env %r, configured %r (copy_env off)" % (env, conf)))
            else:
                exp = dict(case["environ"])
                if case["copy_path"]:
                    exp["PYTHONPATH"] = os.pathsep.join(sys.path)
                exp.update(conf)
                if env != exp:
                    fails.append(_fail("env-differs", "env %r, configured %r (copy_env on)" % (env, exp)))
            if obs["wid"] < 1 or obs["wid"] in case["used"]:
                fails.append(_fail("wid-not-unique", "wid %r with live wids %r" % (obs["wid"], case["used"])))
            if obs["popen_calls"] != 1:
                fails.append(_fail("popen-count", "%d Popen calls for one spawn" % obs["popen_calls"]))
        elif r == "failed":
            if _expected_argv(case)[0] is not None:
                fails.append(_fail("spawn-failed", "spawn_process returned False on a well-formed configuration"))
        elif r == "raised":
            free = [w for w in range(1, 2 * case["np"] + 1) if w not in case["used"]]
            if free:
                fails.append(_fail("wid-raise", "_nextwid raised although %r are free" % free))
    elif k == "hist":
        for a in obs["answers"]:
            w, live = a["wid"], a["live_before"]
            if w is None:
                continue
            if w < 1 or w in live:
                fails.append(_fail("wid-not-unique", "wid %r handed out while %r are live" % (w, live)))
            if not live and w != 1:
                fails.append(_fail("wid-start", "first wid is %r" % w))
            exp = _hist_expected_argv(case.get("argstyle"), w, a.get("mode", "blue"))
            if exp is not None and a.get("argv") is not None and a["argv"] != exp:
                fails.append(_fail("argv-not-this-workers", "worker with wid %r of a later generation was started with %r, "
                                                            "its templates give %r" % (w, a["argv"], exp)))
        if len(set(obs["live"])) != len(obs["live"]):
            fails.append(_fail("wid-not-unique", "live wids %r" % obs["live"]))
    return fails[:3]


# --------------------------------------------------------------------------- evidence

def nontrivial(case, obs):
    k = case["kind"]
    if k in ("fmt", "spawn"):
        j = case.get("cmd_j")
        return bool(j) and (set(j["kinds"]) & {"wid", "known", "unknown", "pattern"}) != set()
    if k == "gnu":
        return obs.get("out") != case["data"]
    if k == "split":
        return "error" in obs or any(c in case["s"] for c in "'\"\\")
    if k == "quote":
        return any(q != x for q, x in zip(obs["qs"], case["xs"]))
    if k == "hist":
        ws = [a["wid"] for a in obs["answers"] if a["wid"] is not None]
        return len(ws) != len(set(ws)) or any(a["wid"] is None for a in obs["answers"])
    return False


def stats(cases, impl):
    out = {}
    for c, o in zip(cases, impl):
        k = c["kind"]
        d = out.setdefault(k, {"cases": 0})
        d["cases"] += 1
        if k in ("fmt", "spawn"):
            a = c["args"]
            key = "args_none" if a is None else "args_str" if isinstance(a, str) else "args_list"
            d[key] = d.get(key, 0) + 1
            if c["shell"]:
                d["shell"] = d.get("shell", 0) + 1
            if o.get("error") or o.get("result") == "failed":
                d["quoting_error"] = d.get("quoting_error", 0) + 1
            for kind in (c.get("cmd_j") or {}).get("kinds", []):
                d["cmd_has_" + kind] = d.get("cmd_has_" + kind, 0) + 1
        if k == "spawn":
            if c["copy_env"]:
                d["copy_env"] = d.get("copy_env", 0) + 1
            if c["copy_path"]:
                d["copy_path"] = d.get("copy_path", 0) + 1
            if c["env"] is None:
                d["env_none"] = d.get("env_none", 0) + 1
            if o.get("result") == "raised":
                d["nextwid_raised"] = d.get("nextwid_raised", 0) + 1
        if k == "quote" and "sh" in o:
            d["checked_against_bin_sh"] = d.get("checked_against_bin_sh", 0) + 1
        if k == "split" and "error" in o:
            d["errors"] = d.get("errors", 0) + 1
        if k == "gnu" and o.get("out") != c["data"]:
            d["substituted"] = d.get("substituted", 0) + 1
        if k == "hist":
            if any(a["wid"] is None for a in o.get("answers", [])):
                d["with_raise"] = d.get("with_raise", 0) + 1
    return out
