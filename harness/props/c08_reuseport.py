"""C08, socket files of `so_reuseport` unix sockets — oracle only, NO Lean side.

The managed-sockets model (Circus.Sockets) binds `so_reuseport` sockets per worker on inet addresses only; a unix socket
with `so_reuseport` is outside its stated domain: the file is created by the throw-away per-worker socket of
`Process._get_sockets_fds` and removed at shutdown by the *template* object of the arbiter's dict, which never bound it.
These cases put exactly that on the real code (the `hist` runner of harness/props/c07.py: real `CircusSockets`, real
`Process._get_sockets_fds` / `format_args`, real unix sockets in a scratch directory) and judge it by C08's clause alone:
after the shutdown no unix-socket file the daemon created is left and no managed descriptor is open."""
from harness.props import c07 as _c07

NO_MODEL = True
LEAN_PROPS = []
LEAN_LEMMAS = []
RULE = ("managed-socket histories (spawns of workers that refer to the sockets, deaths, the shutdown at the end) in which the "
        "unix sockets are `so_reuseport` + `replace` (every worker binds its own socket on the path); oracle only")
ASSUMPTIONS = ["`so_reuseport` unix sockets carry `replace = True` (without it the second worker's bind is refused: the path exists)"]
TRUSTED_EXTRA = _c07.TRUSTED_EXTRA


def corpus():
    return []


def generate(rng, tier):
    out = []
    n = 25 if tier == "quick" else 300
    while len(out) < n:
        c = _c07.gen_hist(rng)
        ux = [s for s in c["sockets"] if s["unix"] and s.get("type", "stream") == "stream"]
        if not ux:
            continue
        for s in ux:
            s["reuseport"] = True
            s["replace"] = True
        # the history ends with the shutdown (a spawn after it would bind a fresh per-worker socket on the path again)
        if ["X"] in c["ops"]:
            c["ops"] = c["ops"][: c["ops"].index(["X"])]
        c["ops"].append(["X"])
        c["family"] = "unix-reuseport"
        out.append(c)
    return out


impl_run = _c07.impl_run
impl_view = _c07.impl_view
nontrivial = _c07.nontrivial
stats = _c07.stats


def oracle(case, obs):
    return [f for f in _c07.oracle(case, obs) if f["sig"].startswith("C08:") or f["sig"] == "C07:harness-exception"]
