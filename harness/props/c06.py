"""C06 is decided on two layers: the daemon side (one reply per request; core state machine)
and the client side (reply matching by id; harness/props/c06_client.py)."""
from harness.corecheck import make
from harness.props import c06_client
PARTS = [make("C06", ["CircusProofs/Props/C06.lean"],
              ["CircusProofs/Core/Pres.lean", "CircusProofs/Core/Generic.lean", "CircusProofs/Core/SlotFree.lean"]),
         c06_client]
