"""C16 — configuration files mean what the documentation says.

Correspondence: generated ini files are written to a scratch directory and parsed by the REAL
`circus.config.get_config` under a controlled `os.environ`; the same ini text plus that environment
go to the Lean model (driver op `cfg file`: `Circus.Config.readIni`, the transliteration of
`StrictConfigParser._read`, then `Circus.Config.getConfig`); the canonical views (per watcher: typed
option values, rlimits, stream options, hooks, final env; plugins; sockets; or the error class) are
compared.  Primitive cases compare `fnmatch`, `replace_gnu_args`, `int`, `float`, `to_bool` and the
ini reader (random line soups) one by one with the model's definitions.  Every file is parsed a second time in-process and a third time in a separate interpreter
started with a different PYTHONHASHSEED.

Oracle: the property restated with documentation-level rules only (docs/source/for-ops/
configuration.rst): conversion table, defaults, env precedence, comma lists/wildcards (CPython's own
`fnmatch`), expansion of references; it never consults the Lean model."""
import atexit
import fnmatch as _fnmatch
import json
import os
import re
import shutil
import subprocess
import sys
import tempfile
from decimal import Decimal

from harness.core import enc_cps, dec_cps, Infra, REPO

LEAN_PROPS = ["CircusProofs/Props/C16.lean"]
LEAN_LEMMAS = ["CircusProofs/Lemmas/Config.lean"]
RULE = ("case = (controlled os.environ, ini file): 1-4 watcher sections, optional [circus], [env], 0-5 "
        "[env:PATTERN] sections (comma lists, *, ?, [seq], [!seq], ranges), socket and plugin sections, in "
        "random order; every option typed by get_config with valid, and in a minority of files invalid, "
        "texts; $(circus.env.X) / ((CIRCUS.ENV.x)) references in random letter case in cmd, args, "
        "working_dir, typed options, stream options, hooks, rlimits, sockets, plugins; copy_env on/off; "
        "generated from VERIF_SEED; non-trivial = at least one watcher and (a matching env: section or a "
        "reference); distinct by content hash")
ASSUMPTIONS = [
    "the ini reader StrictConfigParser._read is modelled (readIni) for ASCII text without \\r, without a "
    "[DEFAULT] section and without an option called __name__ (answered out-of-domain); only three small "
    "theorems are proved about it, the rest of its grammar is tied to the code by the correspondence run "
    "(generated files: = and : separators, blank lines, # and ; comment lines, ' ;' inline comments, \"\" empty "
    "value, continuation lines, repeated keys, repeated section headers; plus random line soups)",
    "ASCII only (str.lower, \\w, isspace are modelled for ASCII); section names and os.environ names distinct; "
    "no watcher option called name/env/rlimits/hooks (the driver answers out-of-domain otherwise)",
    "to_signum is a parameter of the model: the harness supplies its graph on the stop_signal texts that occur",
    "float() is modelled for plain decimals [+-]?(d+(.d*)?|.d+) with at most 15 significant digits; exponent, "
    "underscore, inf and nan forms are answered out-of-domain and never generated",
    "resource.RLIM_INFINITY = -1 (Linux); [circus] options, include/include_dir are not modelled (generated "
    "[circus] sections carry valid values only)",
    "theorems cover scalar options, stream options, env layering and expansion; rlimit_* and hooks.* values and the "
    "socket/plugin dicts are covered by the correspondence run and by the counterexample theorems only",
    "determinism across interpreters is an observation on the generated files (a second interpreter with a "
    "different PYTHONHASHSEED parses every file again), not a theorem",
]
SCRATCH = os.environ.get("VERIF_SCRATCH", "/dev/shm")

INT_OPTS = {"numprocesses": 1, "warmup_delay": 0, "max_retry": 5, "priority": 0}
FLOAT_OPTS = {"graceful_timeout": 30}
BOOLF_OPTS = ["on_demand", "shell", "send_hup", "stop_children", "close_child_stderr", "use_sockets",
              "singleton", "copy_env", "copy_path", "close_child_stdout"]
BOOLT_OPTS = ["check_flapping", "respawn", "autostart", "close_child_stdin"]
RAW_STR_OPTS = ["cmd", "args", "working_dir", "uid", "gid"]
# documented defaults (configuration.rst / watcher_defaults), as canonical values
DEFAULTS = {"cmd": "S", "args": "S", "numprocesses": "I1", "warmup_delay": "I0", "executable": "N",
            "working_dir": "N", "on_demand": "B0", "shell": "B0", "uid": "N", "gid": "N", "send_hup": "B0",
            "stop_signal": "I15", "stop_children": "B0", "max_retry": "I5", "graceful_timeout": "I30",
            "priority": "I0", "use_sockets": "B0", "singleton": "B0", "copy_env": "B0", "copy_path": "B0",
            "respawn": "B1", "autostart": "B1"}
TRUE_WORDS = ("yes", "true", "on", "1")
FALSE_WORDS = ("no", "false", "off", "0")
SIGNALS = {"hup": 1, "int": 2, "quit": 3, "kill": 9, "usr1": 10, "usr2": 12, "term": 15}
REF = re.compile(r"\$\(circus\.env\.([\w.\-]+)\)|\(\(circus\.env\.([\w.\-]+)\)\)", re.I)


# --------------------------------------------------------------------------- canonical view

def canon_float(f):
    d = Decimal(repr(float(f)))
    if d == 0:
        return "D0e0"
    sign, digits, exp = d.normalize().as_tuple()
    m = int("".join(map(str, digits)))
    if exp > 0:
        m *= 10 ** exp
        exp = 0
    return "D%s%de%d" % ("-" if sign else "", m, -exp)


def canon_val(v):
    if v is None:
        return "N"
    if isinstance(v, bool):
        return "B1" if v else "B0"
    if isinstance(v, int):
        return "I%d" % v
    if isinstance(v, float):
        return canon_float(v)
    if isinstance(v, str):
        return "S" + v
    return "?" + repr(v)


def canon_config(cfg):
    ws = []
    for w in cfg["watchers"]:
        opts = {}
        for k, v in w.items():
            if k in ("name", "env", "rlimits", "hooks", "stderr_stream", "stdout_stream"):
                continue
            opts[k] = canon_val(v)
        ws.append({"name": w["name"], "opts": opts,
                   "rlimits": {k: int(v) for k, v in w["rlimits"].items()},
                   "stderr": dict(w["stderr_stream"]), "stdout": dict(w["stdout_stream"]),
                   "hooks": {k: [v[0], bool(v[1])] for k, v in w["hooks"].items()},
                   "env": dict(w["env"])})
    return {"watchers": ws,
            "plugins": [{k: canon_val(v) for k, v in p.items()} for p in cfg["plugins"]],
            "sockets": [{k: canon_val(v) for k, v in s.items()} for s in cfg["sockets"]]}


def _with_environ(pairs, fn):
    saved = dict(os.environ)
    try:
        os.environ.clear()
        for k, v in pairs:
            os.environ[k] = v
        return fn()
    finally:
        os.environ.clear()
        os.environ.update(saved)


def parse_view(path, environ):
    """the real get_config under the given environment -> canonical view or error class"""
    from circus.config import get_config

    def run():
        try:
            return canon_config(get_config(path))
        except Exception as e:  # the error class is the observation
            return {"error": type(e).__name__}
    return _with_environ(environ, run)


def read_sections(text):
    """section list as the real ini reader leaves it"""
    import io
    from circus.config import DefaultConfigParser
    cfg = DefaultConfigParser()
    cfg.read_file(io.StringIO(text))
    out = []
    for name in cfg.sections():
        out.append([name, [[k, v] for k, v in cfg.items(name, noreplace=True) if k != "__name__"]])
    return out


# --------------------------------------------------------------------------- second interpreter

_WORKER = None
_WORKER_CODE = r"""
import sys, json, os
sys.path.insert(0, %r)
sys.path.insert(0, %r)
from harness.props import c16
for line in sys.stdin:
    req = json.loads(line)
    sys.stdout.write(json.dumps(c16.parse_view(req["path"], req["environ"]), sort_keys=True) + "\n")
    sys.stdout.flush()
"""


def _worker():
    global _WORKER
    if _WORKER is None or _WORKER.poll() is not None:
        verif = os.path.dirname(os.path.dirname(os.path.dirname(os.path.abspath(__file__))))
        env = {"PYTHONHASHSEED": "271828", "PATH": os.environ.get("PATH", "/usr/bin:/bin"),
               "VERIF_REPO": REPO, "VERIF_SCRATCH": SCRATCH}
        _WORKER = subprocess.Popen([sys.executable, "-W", "ignore", "-c", _WORKER_CODE % (verif, REPO)],
                                   stdin=subprocess.PIPE, stdout=subprocess.PIPE, text=True, env=env)
        atexit.register(_stop_worker)
    return _WORKER


def _stop_worker():
    global _WORKER
    if _WORKER is not None:
        try:
            _WORKER.stdin.close()
            _WORKER.wait(timeout=5)
        except Exception:
            _WORKER.kill()
        _WORKER = None


def parse_in_other_interpreter(path, environ):
    w = _worker()
    try:
        w.stdin.write(json.dumps({"path": path, "environ": environ}) + "\n")
        w.stdin.flush()
        line = w.stdout.readline()
    except (BrokenPipeError, OSError) as e:
        raise Infra("second interpreter died: %s" % e)
    if not line:
        raise Infra("second interpreter gave no answer")
    return json.loads(line)


# --------------------------------------------------------------------------- generator

WNAMES = ["web", "web1", "web2", "worker-a", "worker.b", "api", "Api", "db", "w x", "a[1]", "job_7", "x"]
ENVNAMES = ["A", "a", "B", "PATH", "Path", "HOME", "n", "NUM", "x_1", "v.1", "w-x", "port", "LANG", "Flag", "sig"]
PLAIN = ["v1", "/bin:/usr/bin", "3", "1.5", "yes", "/srv/app", "hello world", "7", "off", "term", "0.25", "x=y"]


def _env_value(rng, nm):
    """a value for an environment variable; names used in typed options get values of that type"""
    if nm in ("n", "NUM", "port"):
        return rng.choice(["1", "2", "3", "8080", "12"])
    if nm == "Flag":
        return rng.choice(["on", "off", "True", "no"])
    if nm == "sig":
        return rng.choice(["INT", "quit", "9"])
    if nm == "x_1":
        return rng.choice(["0.5", "2", "10.25"])
    return rng.choice(PLAIN)


def _case_mix(rng, s):
    return "".join(c.upper() if rng.random() < 0.5 else c.lower() for c in s)


def _ref(rng, name):
    nm = _case_mix(rng, name) if rng.random() < 0.6 else name
    if rng.random() < 0.5:
        return "$(%s.%s)" % (_case_mix(rng, "circus.env") if rng.random() < 0.4 else "circus.env", nm)
    return "((%s.%s))" % (_case_mix(rng, "circus.env") if rng.random() < 0.4 else "circus.env", nm)


def _pattern_for(rng, name, others):
    k = rng.randrange(11)
    if k == 0 or not name:
        return name
    if k == 1:
        return name[: rng.randint(0, len(name))] + "*"
    if k == 2:
        i = rng.randrange(len(name))
        return name[:i] + "?" + name[i + 1:]
    if k == 3:
        i = rng.randrange(len(name))
        cls = name[i] + rng.choice(["", "q", "0", "z9"])
        if rng.random() < 0.3:
            cls = rng.choice(["q", "0z", "Q"])
        return name[:i] + "[" + cls + "]" + name[i + 1:]
    if k == 4:
        i = rng.randrange(len(name))
        return name[:i] + "[!" + rng.choice(["q", name[i], "0-9", "a-c"]) + "]" + name[i + 1:]
    if k == 5:
        i = rng.randrange(len(name))
        return name[:i] + "[" + rng.choice(["a-z", "0-9", "a-cw-z", "z-a", "A-Z", "b-", "-w", "!-~"]) + "]" + name[i + 1:]
    if k == 6:
        return "*"
    if k == 7:
        return "*" + name[rng.randint(0, len(name)):]
    if k == 8:
        return rng.choice(["nomatch", "WEB", "w*", "*[0-9]", "?*", "*b*", "[", "a[", "[]x]", "w?x", "*.*", "*-?"])
    if k == 9 and others:
        return rng.choice(others)
    return name


def _gen_value(rng, kind, refs, bad):
    """a text for an option of the given kind; refs = names usable in references"""
    if kind == "int":
        if bad:
            return rng.choice(["", "x", "1.5", "3 4", "--1", "1__0", "0x10"])
        return rng.choice(["0", "1", "3", "12", "-1", "+2", "007", "1_000", "250"])
    if kind == "float":
        if bad:
            return rng.choice(["", "xx", "1.2.3", "1,5", "--2", ".", "+"])
        return rng.choice(["30", "1.5", "0.25", ".5", "2.", "-1", "+3.125", "12.000", "0", "10.10", "600", "0.001"])
    if kind == "bool":
        if bad:
            return rng.choice(["maybe", "2", "", "yess", "t", "-1"])
        return _case_mix(rng, rng.choice(TRUE_WORDS + FALSE_WORDS))
    if kind == "signal":
        if bad:
            return rng.choice(["nope", "0", "99", "-1", "1.5", "", "SIG"])
        return rng.choice(["TERM", "sigint", "9", "SIGKILL", "quit", "15", "hup", "Usr1", "SIGUSR2", "2", "SIGRTMIN+1"])
    # strings
    parts = []
    for _ in range(rng.randint(1, 3)):
        r = rng.random()
        if r < 0.45 and refs:
            parts.append(_ref(rng, rng.choice(refs)))
        elif r < 0.5:
            parts.append(rng.choice(["$(circus.wid)", "$(circus.env.", "((circus.env.A)", "$(circus.sockets.web)", "$HOME"]))
        else:
            parts.append(rng.choice(["run", "--port", "/usr/bin/app", "-c", "8080", "a b", "x.y", "srv"]))
    return rng.choice([" ", "", "/", "-"]).join(parts).strip() or "run"


def _render(rng, sections):
    """ini text for the sections; exercises the reader: both separators, blanks, comment lines, inline
    comments, "" for the empty value, continuation lines, a repeated key (first occurrence wins) and a
    repeated section header (extends the earlier section)"""
    blocks, deferred = [], []
    for name, opts in sections:
        opts = list(opts)
        if len(opts) >= 2 and rng.random() < 0.12:
            cut = rng.randint(1, len(opts) - 1)
            blocks.append((name, opts[:cut], True))
            deferred.append((name, opts[cut:], False))     # the header comes again further down
        else:
            blocks.append((name, opts, True))
    rng.shuffle(deferred)
    blocks += deferred
    lines = []
    if rng.random() < 0.3:
        lines.append("# generated")
    seen = {}
    for name, opts, _first in blocks:
        if rng.random() < 0.5:
            lines.append("")
        lines.append("[%s]" % name)
        for k, v in opts:
            if rng.random() < 0.15:
                lines.append(rng.choice(["# comment", "; comment = 1", ""]))
            sep = rng.choice([" = ", "=", ": ", " : ", " =  "])
            first, *more = v.split("\n")
            text = first
            if first == "" and rng.random() < 0.5 and not more:
                text = '""'
            line = k + sep + text
            if first != "" and rng.random() < 0.1:
                line += rng.choice([" ; note", "\t; x=1"])
            if text == "":
                line = line.rstrip() if rng.random() < 0.5 else line
            lines.append(line)
            for m in more:
                lines.append(rng.choice(["  ", "\t", " "]) + m)
            seen.setdefault(name, []).append(k)
            if rng.random() < 0.05 and not more:
                # a second occurrence of an option already written in this section is ignored
                lines.append(rng.choice(seen[name]) + " = ignored-duplicate")
                lines.append("# after duplicate")
    return "\n".join(lines) + "\n"


def gen_case(rng, big=False):
    environ = []
    for nm in rng.sample(["HOME", "PATH", "LANG", "NUM", "n", "A", "port", "Flag", "sig", "x_1"], rng.randint(0, 5)):
        environ.append([nm, {"HOME": "/home/u", "PATH": "/usr/bin", "LANG": "C", "NUM": "4", "n": "2", "A": "osA",
                             "port": "8000", "Flag": "on", "sig": "INT", "x_1": "0.5"}[nm]])
    nw = rng.randint(1, 4) if not big else rng.randint(2, 6)
    wnames = rng.sample(WNAMES, nw)
    bad_file = rng.random() < 0.15
    sections = []

    # env sections first (content), so that watcher options can refer to what is defined
    have_env = rng.random() < 0.7
    envsec = []
    if have_env:
        for nm in rng.sample(ENVNAMES, rng.randint(0 if rng.random() < 0.1 else 1, 5)):
            v = _env_value(rng, nm)
            if rng.random() < 0.15 and environ:
                v = rng.choice(["", "pre-"]) + _ref(rng, rng.choice(environ)[0])
            envsec.append([nm, v])
    envpats = []
    for _ in range(rng.randint(0, 5 if not big else 8)):
        pats = []
        for _ in range(rng.choice([1, 1, 1, 2, 2, 3])):
            pats.append(_pattern_for(rng, rng.choice(wnames), wnames))
        joined = ",".join(rng.choice(["", " ", "  "]) + p + rng.choice(["", " "]) for p in pats).strip()
        joined = joined or "*"
        if any(joined == e[0] for e in envpats) or "\n" in joined:
            continue
        items = []
        for nm in rng.sample(ENVNAMES, rng.randint(0 if rng.random() < 0.1 else 1, 4)):
            v = _env_value(rng, nm)
            if rng.random() < 0.06:
                v = _ref(rng, rng.choice(ENVNAMES))
            items.append([nm, v])
        envpats.append([joined, items])

    def visible(w):
        names = [k for k, _ in environ] + [k for k, _ in envsec]
        for pat, items in envpats:
            if any(_fnmatch.fnmatchcase(w, p.strip()) for p in pat.split(",")):
                names += [k for k, _ in items]
        return sorted(set(names))

    for w in wnames:
        refs = visible(w)
        glob_refs = sorted({k for k, _ in environ} | {k for k, _ in envsec})
        pick_from = refs if rng.random() < 0.25 else glob_refs
        num_refs = [r for r in pick_from if r in ("n", "NUM", "port")]
        opts = []
        if rng.random() < 0.05:
            sections.append(["watcher:" + w, []])          # an empty watcher section is skipped
            continue
        opts.append(["cmd", _gen_value(rng, "str", refs, False)])
        if rng.random() < 0.7:
            a = _gen_value(rng, "str", refs, False)
            if rng.random() < 0.1:
                a = a + "\n" + rng.choice(["--more", "-x 1", _ref(rng, refs[0]) if refs else "y"])
            opts.append(["args", a])
        for k in rng.sample(list(INT_OPTS), rng.randint(0, 3)):
            if num_refs and rng.random() < 0.2:
                opts.append([k, _ref(rng, rng.choice(num_refs))])
            else:
                opts.append([k, _gen_value(rng, "int", refs, bad_file and rng.random() < 0.3)])
        if rng.random() < 0.5:
            if "x_1" in pick_from and rng.random() < 0.2:
                opts.append(["graceful_timeout", _ref(rng, "x_1")])
            else:
                opts.append(["graceful_timeout", _gen_value(rng, "float", refs, bad_file and rng.random() < 0.3)])
        for k in rng.sample(BOOLF_OPTS + BOOLT_OPTS, rng.randint(0, 5)):
            if "Flag" in pick_from and rng.random() < 0.15:
                opts.append([k, _ref(rng, "Flag")])
            else:
                opts.append([k, _gen_value(rng, "bool", refs, bad_file and rng.random() < 0.25)])
        if rng.random() < 0.4 and not any(k == "copy_env" for k, _ in opts):
            opts.append(["copy_env", rng.choice(["true", "yes", "1", "on", "True"])])
        if rng.random() < 0.4:
            if "sig" in refs and rng.random() < 0.08:
                opts.append(["stop_signal", _ref(rng, "sig")])
            else:
                opts.append(["stop_signal", _gen_value(rng, "signal", refs, bad_file and rng.random() < 0.3)])
        for k in rng.sample(["working_dir", "uid", "gid", "executable", "max_age", "stdin_socket", "virtualenv",
                             "shell_args", "custom.opt", "Numprocesses"], rng.randint(0, 4)):
            opts.append([k, _gen_value(rng, "str", refs, False)])
        if rng.random() < 0.4:
            for so in rng.sample(["class", "filename", "max_bytes", "time_format"], rng.randint(1, 3)):
                opts.append([rng.choice(["stdout_stream.", "stderr_stream."]) + so,
                             _gen_value(rng, "str", refs, False)])
        if bad_file and rng.random() < 0.1:
            opts.append([rng.choice(["stderr_stream", "stdout_streamx.class", "stdout_stream_class"]), "x"])
        if rng.random() < 0.3:
            v = rng.choice(["", "100", "65536", "-1"])
            if bad_file and rng.random() < 0.3:
                v = rng.choice(["unlimited", "1.5"])
            elif num_refs and rng.random() < 0.08:
                v = _ref(rng, rng.choice(num_refs))
            opts.append(["rlimit_" + rng.choice(["nofile", "core", "NPROC"]), v])
        if rng.random() < 0.3:
            hv = rng.choice(["mod.fn", "pkg.mod.hook", "m.f"])
            if refs and rng.random() < 0.2:
                hv = _ref(rng, rng.choice(refs)) + ".hook"
            r = rng.random()
            if r < 0.35:
                hv += rng.choice([",", ", ", " ,  "]) + _case_mix(rng, rng.choice(TRUE_WORDS + FALSE_WORDS))
            elif r < 0.42 and bad_file:
                hv += ", maybe"
            opts.append(["hooks." + rng.choice(["before_start", "after_stop", "extended_stats"]), hv])
        # unique keys, random order (cmd need not be first)
        seen, uniq = set(), []
        for k, v in opts:
            if k not in seen:
                seen.add(k)
                uniq.append([k, v])
        if rng.random() < 0.5:
            rng.shuffle(uniq)
        sections.append(["watcher:" + w, uniq])

    if have_env:
        sections.append(["env", envsec])
    for pat, items in envpats:
        sections.append(["env:" + pat, items])
    glob_names = sorted({k for k, _ in environ} | {k for k, _ in envsec})
    for sname in rng.sample(["web", "Admin", "s1"], rng.randint(0, 2)):
        o = [["host", rng.choice(["127.0.0.1", "0.0.0.0"])],
             ["port", _ref(rng, "port") if ("port" in glob_names and rng.random() < 0.4) else str(rng.randint(1, 9999))]]
        if rng.random() < 0.4:
            o.append(["so_reuseport", _gen_value(rng, "bool", [], bad_file and rng.random() < 0.2)])
        if rng.random() < 0.3:
            o.append(["replace", _gen_value(rng, "bool", [], False)])
        if rng.random() < 0.3:
            o.append(["path", _gen_value(rng, "str", glob_names, False)])
        sections.append(["socket:" + sname, o])
    for pname in rng.sample(["stats", "flap", "Zed"], rng.randint(0, 2)):
        o = [["use", "circus.plugins." + pname.lower()]]
        if rng.random() < 0.5:
            o.append(["priority", _gen_value(rng, "int", [], bad_file and rng.random() < 0.2)])
        if rng.random() < 0.5:
            o.append(["param", _gen_value(rng, "str", glob_names, False)])
        sections.append(["plugin:" + pname, o])
    if rng.random() < 0.4:
        sections.append(["circus", [["check_delay", rng.choice(["5", "2.5"])], ["endpoint", "tcp://127.0.0.1:5555"]]])
    if rng.random() < 0.1:
        sections.append([rng.choice(["other", "environment", "watchers"]), [["k", "v"]]])
    rng.shuffle(sections)
    return {"environ": environ, "sections": sections, "ini": _render(rng, sections)}


def _mk(environ, sections):
    text = "".join("[%s]\n%s\n" % (n, "".join("%s = %s\n" % (k, v) for k, v in o)) for n, o in sections)
    return {"environ": environ, "sections": sections, "ini": text}


def corpus():
    return [
        # the documentation's own examples
        _mk([["PATH", "/usr/bin"]],
            [["watcher:worker1", [["cmd", "ping 127.0.0.1"]]], ["watcher:worker2", [["cmd", "ping 127.0.0.1"]]],
             ["env:worker1,worker2", [["PATH", "/bin"]]], ["env:worker1", [["PATH", "$PATH"]]],
             ["env:worker2", [["CAKE", "lie"]]]]),
        _mk([["shell", "/bin/sh"], ["user", "me"], ["port", "80"], ["plugin_param", "pp"]],
            [["watcher:worker1", [["cmd", "$(circus.env.shell)"]]],
             ["watcher:worker2", [["cmd", "x"], ["baz", "$(circus.env.user)"], ["bar", "$(circus.env.yeah)"],
                                  ["sup", "$(circus.env.oh)"]]],
             ["socket:socket1", [["port", "$(circus.env.port)"]]],
             ["plugin:plugin1", [["use", "some.path"], ["parameter1", "$(circus.env.plugin_param)"]]],
             ["env", [["yeah", "boo"]]], ["env:worker2", [["oh", "ok"]]]]),
        # wildcard, comma list with blanks, later section overrides earlier one, copy_env
        _mk([["HOME", "/h"], ["A", "os"]],
            [["env:web*, api", [["A", "1"], ["B", "b1"]]], ["watcher:web1", [["cmd", "c ((CIRCUS.ENV.a))"], ["copy_env", "true"]]],
             ["watcher:api", [["cmd", "c $(circus.env.B)"]]], ["env:w?b[0-9]", [["A", "2"]]], ["env", [["A", "genv"], ["C", "c"]]],
             ["watcher:db", [["cmd", "c $(CIRCUS.ENV.HOME)"], ["numprocesses", "3"], ["graceful_timeout", "2.50"]]]]),
        # finding witnesses (see known_findings.json)
        _mk([], [["watcher:w", [["cmd", "c"], ["numprocesses", "$(circus.env.n)"]]], ["env:w", [["n", "3"]]]]),
        _mk([], [["watcher:w", [["cmd", "c"], ["numprocesses", "$(circus.env.n)"]]], ["env", [["n", "1"]]], ["env:w", [["n", "3"]]]]),
        _mk([], [["watcher:w", [["cmd", "c"], ["hooks.before_start", "$(circus.env.m).hook"]]], ["env", [["m", "mod"]]]]),
        _mk([], [["watcher:w", [["cmd", "c"], ["rlimit_nofile", "$(circus.env.n)"]]], ["env", [["n", "100"]]]]),
        _mk([], [["watcher:w", [["cmd", "c"], ["stop_signal", "$(circus.env.s)"]]], ["env", [["s", "INT"]]]]),
        # error classes of the stream option family
        _mk([], [["watcher:w", [["cmd", "c"], ["stdout_streamx.class", "X"]]]]),
        _mk([], [["watcher:w", [["cmd", "c"], ["stderr_stream", "X"]]]]),
        _mk([], [["watcher:w", []], ["watcher:v", [["cmd", "c"], ["stderr_stream.class", "$(circus.env.k)"],
                                                  ["rlimit_core", ""], ["hooks.after_stop", "m.f , TRUE"]]],
                 ["env:[uv],", [["k", "Klass"]]], ["socket:S:socket:T", [["port", "1"], ["replace", "yes"]]],
                 ["plugin:p", [["use", "u"], ["priority", "07"]]]]),
        # case collision: the last key in iteration order wins
        _mk([["a", "os"]], [["watcher:w", [["cmd", "$(circus.env.A) $(circus.env.a)"]]], ["env", [["A", "1"]]], ["env:w", [["a", "2"]]]]),
        # fnmatch.translate drops a reversed range and reads the remainder anew (thorough pass, seed 11: the
        # model kept the leftover `!` as a member; it now follows translate's chunking, see docs/NOTES.md)
        {"prim": "fnmatch", "name": "a", "pat": "[b-[!]"}, {"prim": "fnmatch", "name": "a", "pat": "[b-a]"},
        {"prim": "fnmatch", "name": "q", "pat": "[b-a!-z]"}, {"prim": "fnmatch", "name": "-", "pat": "[b-a!-z]"},
        {"prim": "fnmatch", "name": "+", "pat": "[*--a]"}, {"prim": "fnmatch", "name": "]", "pat": "[]-a]"},
    ]


def _rand_over(rng, alphabet, lo, hi):
    return "".join(rng.choice(alphabet) for _ in range(rng.randint(lo, hi)))


READ_LINES = ["[a]", "[b]", "[watcher:x]", "[a]b] tail", "[]", "[ ]", " [a]", "[a", "[env:x,y]", "[a] ; c", "[[a]]",
              "k = v", "k: v", "k=v", "j = v ; c", "j = v;c", "k = ;x ", "j = ; x", "k", "= v", "k = \"\"", "k = a = b",
              "m : a ; b ; c", "m =", "K = v", "k  =   v  ", "j=1", "m:2", "k = x\t; y", "n = \"\" ; z", "o = ;",
              "  more", "\tmore ; x", " # notcomment", "  [x]", " k2 = v", "  ", "", "", "\t", " ;x",
              "# c", "; c", "rem x", "REM", "remark = 1", "Rem\tx", "r = 1", "rem=1", "rem", "remx = 2"]


def gen_prim(rng):
    """a case for one primitive of the model: fnmatch / replace_gnu_args / int / float / to_bool / the ini reader"""
    op = rng.choice(["fnmatch", "fnmatch", "expand", "expand", "int", "float", "bool", "read", "read"])
    if op == "read":
        lines = [rng.choice(READ_LINES) for _ in range(rng.randint(0, 9))]
        if rng.random() < 0.8:
            lines = [rng.choice(["[a]", "[s]"])] + lines
        return {"prim": op, "text": "\n".join(lines) + rng.choice(["\n", ""])}
    if op == "fnmatch":
        return {"prim": op, "name": _rand_over(rng, "ab-]!", 0, 4),
                "pat": _rand_over(rng, rng.choice(["ab*?[]!-", "ab[]!-", "ab[]!-^\\&*"]), 0, 8) if rng.random() < 0.8 else _pattern_for(rng, _rand_over(rng, "abc", 1, 4), [])}
    if op == "expand":
        env = [[_rand_over(rng, "aAbB._-", 1, 3), _rand_over(rng, "xyz$()", 0, 4)] for _ in range(rng.randint(0, 4))]
        env = [kv for i, kv in enumerate(env) if kv[0] not in [e[0] for e in env[:i]]]
        pieces = []
        for _ in range(rng.randint(0, 5)):
            r = rng.random()
            nm = rng.choice(env)[0] if env and rng.random() < 0.7 else _rand_over(rng, "aAbB._-+", 0, 3)
            nm = _case_mix(rng, nm)
            if r < 0.3:
                pieces.append("$(" + _case_mix(rng, "circus.env.") + nm + ")")
            elif r < 0.6:
                pieces.append("((" + _case_mix(rng, "circus.env.") + nm + "))")
            elif r < 0.7:
                pieces.append(rng.choice(["$(circus.", "((circus.env." + nm + ")", "$(circus.circus.env." + nm + ")",
                                          "$(circus." + nm + ")", "$(circusenv." + nm + ")", "((circus.env.))", "$((circus.env." + nm + "))"]))
            else:
                pieces.append(_rand_over(rng, "$()c .x", 0, 3))
        return {"prim": op, "env": env, "text": "".join(pieces)}
    if op == "int":
        return {"prim": op, "text": _rand_over(rng, "0123_+- \t", 0, 5) if rng.random() < 0.7 else _gen_value(rng, "int", [], rng.random() < 0.3)}
    if op == "float":
        return {"prim": op, "text": _rand_over(rng, "0123.+- x", 0, 6) if rng.random() < 0.7 else _gen_value(rng, "float", [], rng.random() < 0.3)}
    return {"prim": op, "text": rng.choice(["", " ", "\t"]) + _case_mix(rng, rng.choice(TRUE_WORDS + FALSE_WORDS + ("maybe", "", "o n", "tru"))) + rng.choice(["", " ", "\x1f"])}


def prim_impl(case):
    from circus.util import replace_gnu_args, to_bool
    op = case["prim"]
    try:
        if op == "fnmatch":
            return {"r": "1" if _fnmatch.fnmatch(case["name"], case["pat"]) else "0"}
        if op == "expand":
            return {"r": replace_gnu_args(case["text"], env=dict((k, v) for k, v in case["env"]))}
        if op == "read":
            try:
                return {"r": read_sections(case["text"])}
            except Exception as e:
                return {"r": "err " + type(e).__name__}
        if op == "int":
            return {"r": "I%d" % int(case["text"])}
        if op == "float":
            return {"r": canon_float(float(case["text"]))}
        return {"r": "1" if to_bool(case["text"]) else "0"}
    except ValueError:
        return {"r": "err"}


def generate(rng, tier):
    n = 300 if tier == "quick" else 10000
    return [gen_case(rng, big=(i % 6 == 5)) for i in range(n)] + [gen_prim(rng) for _ in range(2 * n)]


# --------------------------------------------------------------------------- implementation side

def impl_run(case):
    if "prim" in case:
        return {"view": prim_impl(case)}
    d = tempfile.mkdtemp(prefix="verif-c16-", dir=SCRATCH)
    try:
        path = os.path.join(d, "circus.ini")
        with open(path, "w") as fh:
            fh.write(case["ini"])
        v1 = parse_view(path, case["environ"])
        v2 = parse_view(path, case["environ"])
        # the daemon parses again in the SAME process (reloadconfig): a parse must leave nothing behind for the next one.
        # Same environment context: parse the file, then the file without its [env] section; that second result must be what
        # a parse of the second file alone gives, and os.environ must be what it was
        path2 = os.path.join(d, "circus2.ini")
        with open(path2, "w") as fh:
            fh.write(_without_env_section(case["ini"]))
        alone = parse_view(path2, case["environ"])

        def seq():
            from circus.config import get_config
            before = dict(os.environ)
            try:
                get_config(path)
            except Exception:
                pass
            touched = dict(os.environ) != before
            try:
                after = canon_config(get_config(path2))
            except Exception as e:
                after = {"error": type(e).__name__}
            return after, touched
        after_first, env_touched = _with_environ(case["environ"], seq)
        v3 = parse_in_other_interpreter(path, case["environ"])
        try:
            read = read_sections(case["ini"])
        except Exception as e:
            read = {"error": type(e).__name__}
        return {"view": v1, "same_inproc": v1 == v2, "seq_same": after_first == alone, "env_touched": env_touched,
                "same_other_interpreter": json.loads(json.dumps(v1)) == v3, "sections_read": read}
    finally:
        shutil.rmtree(d, ignore_errors=True)


def impl_view(case, obs):
    return obs.get("view", obs)


# --------------------------------------------------------------------------- model side

def model_line(case):
    from circus.util import to_signum
    if "prim" in case:
        op = case["prim"]
        if op == "fnmatch":
            return "cfg fnmatch %s %s" % (enc_cps(case["name"]), enc_cps(case["pat"]))
        if op == "expand":
            return " ".join(["cfg", "expand", str(len(case["env"]))] + [enc_cps(x) for kv in case["env"] for x in kv]
                            + [enc_cps(case["text"])])
        return "cfg %s %s" % (op, enc_cps(case["text"]))
    try:
        secs = read_sections(case["ini"])
    except Exception:
        return "cfg unreadable"
    toks = ["cfg", "file", str(len(case["environ"]))]
    for k, v in case["environ"]:
        toks += [enc_cps(k), enc_cps(v)]
    sigs = []
    for name, kvs in secs:
        if name.startswith("watcher:"):
            for k, v in kvs:
                if k == "stop_signal" and v not in [s for s, _ in sigs]:
                    try:
                        r = to_signum(v)
                    except ValueError:
                        r = None
                    sigs.append((v, r))
    toks.append(str(len(sigs)))
    for s, r in sigs:
        toks += [enc_cps(s), "~" if r is None else str(int(r))]
    toks.append(enc_cps(case["ini"]))
    return " ".join(toks)


def _s(t):
    return "".join(map(chr, dec_cps(t)))


def _dec_val(t):
    return "S" + _s(t[1:]) if t[0] == "S" else t


class _Toks(object):
    def __init__(self, toks):
        self.t = toks
        self.i = 0

    def next(self):
        self.i += 1
        return self.t[self.i - 1]

    def dict(self, f):
        n = int(self.next())
        out = {}
        for _ in range(n):
            k = _s(self.next())
            out[k] = f(self)
        return out


def model_parse(case, line):
    if "prim" in case:
        if case["prim"] == "expand" and line not in ("bad-op",):
            return {"r": _s(line)}
        if case["prim"] == "read" and line.startswith("ok "):
            t = _Toks(line.split(" ")[1:])
            secs = []
            for _ in range(int(t.next())):
                name = _s(t.next())
                secs.append([name, [[_s(t.next()), _s(t.next())] for _ in range(int(t.next()))]])
            return {"r": secs}
        return {"r": line}
    if line.startswith("err "):
        return {"error": line[4:]}
    if not line.startswith("ok "):
        return {"model": line}
    t = _Toks(line.split(" ")[1:])
    ws = []
    for _ in range(int(t.next())):
        name = _s(t.next())
        ws.append({"name": name,
                   "opts": t.dict(lambda t: _dec_val(t.next())),
                   "rlimits": t.dict(lambda t: int(t.next())),
                   "stderr": t.dict(lambda t: _s(t.next())),
                   "stdout": t.dict(lambda t: _s(t.next())),
                   "hooks": t.dict(lambda t: [_s(t.next()), t.next() == "1"]),
                   "env": t.dict(lambda t: _s(t.next()))})
    plugins = [t.dict(lambda t: _dec_val(t.next())) for _ in range(int(t.next()))]
    sockets = [t.dict(lambda t: _dec_val(t.next())) for _ in range(int(t.next()))]
    return {"watchers": ws, "plugins": plugins, "sockets": sockets}


# --------------------------------------------------------------------------- oracle (documentation-level)

def _matches(envsec_name, wname):
    pats = [p.strip() for p in envsec_name[4:].split(",")]
    return any(_fnmatch.fnmatchcase(wname, p) for p in pats)


def _doc_env(case, wname, copy_env):
    """documented environment of a watcher: name -> (value, where)"""
    env = {}
    if copy_env:
        for k, v in case["environ"]:
            env[k] = (v, "os")
    for n, o in case["sections"]:
        if n == "env":
            for k, v in o:
                env[k] = (v, "env")
    for n, o in case["sections"]:
        if n.startswith("env:") and _matches(n, wname):
            for k, v in o:
                env[k] = (v, n)
    return env


def _doc_lookup(case, wname, x):
    """value a reference to x must expand to for this watcher (None = the oracle does not know:
    undefined, case collision, or the defining text itself contains a reference)"""
    env = _doc_env(case, wname, True) if wname is not None else \
        {**{k: (v, "os") for k, v in case["environ"]}, **{k: (v, "env") for n, o in case["sections"] if n == "env" for k, v in o}}
    # two visible names that differ only by letter case make the reference ambiguous
    cands = [k for k in env if k.lower() == x.lower()]
    if len(cands) != 1:
        return None
    v = env[cands[0]][0]
    if "$(" in v or "((" in v:
        return None
    return v


def _doc_expand(case, wname, text):
    """text with every reference replaced, or None when some reference is beyond the oracle"""
    unknown = []

    def rep(m):
        v = _doc_lookup(case, wname, m.group(1) or m.group(2))
        if v is None:
            unknown.append(m.group(0))
            return m.group(0)
        return v
    out = REF.sub(rep, text)
    if unknown:
        return None
    # anything that still looks like a circus reference form is left to the correspondence check
    if re.search(r"\$\(circus|\(\(circus", out, re.I):
        return None
    return out


def _doc_bool(t):
    w = t.lower().strip()
    if w in TRUE_WORDS:
        return "B1"
    if w in FALSE_WORDS:
        return "B0"
    return "invalid"


def _doc_int(t):
    if re.fullmatch(r"[+-]?[0-9]+(_[0-9]+)*", t):
        return "I%d" % int(t.replace("_", ""))
    return "invalid"


def _doc_float(t):
    if re.fullmatch(r"[+-]?([0-9]+(\.[0-9]*)?|\.[0-9]+)", t):
        return canon_float(Decimal(t))
    if re.search(r"[eE_]|inf|nan", t, re.I):
        return None
    return "invalid"


def _doc_signal(t):
    if re.fullmatch(r"[0-9]+", t):
        return "I%d" % int(t) if 0 < int(t) < 65 else "invalid"
    w = t.lower()
    if w.startswith("sig"):
        w = w[3:]
    if w in SIGNALS:
        return "I%d" % SIGNALS[w]
    if re.fullmatch(r"\w+(\+\d+)?", t):
        return None            # other signal names: the oracle has no table for them
    return "invalid"


def _kind(opt):
    if opt in RAW_STR_OPTS or opt == "executable":
        return "str"
    if opt in INT_OPTS:
        return "int"
    if opt in FLOAT_OPTS:
        return "float"
    if opt in BOOLF_OPTS or opt in BOOLT_OPTS:
        return "bool"
    if opt == "stop_signal":
        return "signal"
    if opt.startswith("stderr_stream.") or opt.startswith("stdout_stream."):
        return "stream"
    if opt.startswith("stderr_stream") or opt.startswith("stdout_stream"):
        return "badstream"
    if opt.startswith("rlimit_"):
        return "rlimit"
    if opt.startswith("hooks."):
        return "hook"
    return "str"


def _expected(case, wname, opt, text):
    """(expected canonical value | 'invalid' | None=unknown, has_reference)"""
    kind = _kind(opt)
    has_ref = bool(REF.search(text))
    if kind == "badstream":
        return "invalid", has_ref
    if kind == "hook":
        parts = [p.strip() for p in text.split(",", 1)]
        flag = "B0" if len(parts) == 1 else _doc_bool(parts[1])
        if flag == "invalid":
            return "invalid", has_ref
        name = _doc_expand(case, wname, parts[0])
        return (None if name is None else [name, flag == "B1"]), has_ref
    t = _doc_expand(case, wname, text)
    if t is None:
        return None, has_ref
    if kind in ("str", "stream"):
        return "S" + t, has_ref
    if kind == "int":
        return _doc_int(t), has_ref
    if kind == "float":
        return _doc_float(t), has_ref
    if kind == "bool":
        return _doc_bool(t), has_ref
    if kind == "signal":
        return _doc_signal(t), has_ref
    if kind == "rlimit":
        return ("I-1" if t == "" else _doc_int(t)), has_ref
    return None, has_ref


def _without_env_section(ini):
    """the same file with the lines of its [env] section dropped (the header stays: an empty section is skipped)"""
    out, inside = [], False
    for line in ini.split("\n"):
        st = line.strip()
        if st.startswith("[") and st.endswith("]"):
            inside = (st == "[env]")
            out.append(line)
        elif not inside:
            out.append(line)
    return "\n".join(out)


def oracle(case, obs):
    if "prim" in case:
        return []               # primitives: correspondence only
    if "view" not in obs:
        return [{"sig": "harness-exception", "msg": str(obs.get("harness_exception"))}]
    fails = []
    if obs.get("seq_same") is False or obs.get("env_touched"):
        fails.append({"sig": "parse-leaves-state-behind",
                      "msg": "a second parse in the same process (the file without its [env] section) %s; os.environ %s by the first parse"
                             % ("gives what a parse of that file alone gives" if obs.get("seq_same") else
                                "does NOT give what a parse of that file alone gives",
                                "was CHANGED" if obs.get("env_touched") else "was left alone")})
    if not obs["same_inproc"] or not obs["same_other_interpreter"]:
        fails.append({"sig": "nondeterministic", "msg": "parsing the same file again gave a different configuration"})
    if obs["sections_read"] != [[n, [list(kv) for kv in o]] for n, o in case["sections"]]:
        fails.append({"sig": "reader", "msg": "the ini reader did not deliver the sections as written: %r" % (obs["sections_read"],)})
        return fails
    view = obs["view"]
    wsecs = [(n[len("watcher:"):], o) for n, o in case["sections"] if n.startswith("watcher:") and o]

    # what the documentation promises for every written option
    exp = {}
    verdict = "valid"
    ref_typed, ref_raw, ref_hook = [], [], []
    for w, opts in wsecs:
        for k, t in opts:
            e, has_ref = _expected(case, w, k, t)
            exp[(w, k)] = e
            if e == "invalid":
                verdict = "invalid"
            elif e is None and verdict == "valid":
                verdict = "unknown"
            if has_ref:
                kind = _kind(k)
                if (kind in ("int", "float", "bool") or k == "executable") and \
                        _doc_expand(case, None, t) != _doc_expand(case, w, t):
                    # the watcher's env: sections change what the reference stands for
                    ref_typed.append((w, k))
                elif kind in ("rlimit", "signal"):
                    ref_raw.append((w, k))
                elif kind == "hook":
                    ref_hook.append((w, k))
    for n, o in case["sections"]:
        if n.startswith("socket:") and o:
            for k, t in o:
                if k in ("so_reuseport", "replace") and (_doc_expand(case, None, t) is None or _doc_bool(_doc_expand(case, None, t)) == "invalid"):
                    verdict = "invalid" if verdict == "valid" else verdict
        if n.startswith("plugin:") and o:
            for k, t in o:
                if k == "priority" and (_doc_expand(case, None, t) is None or _doc_int(_doc_expand(case, None, t)) == "invalid"):
                    verdict = "invalid" if verdict == "valid" else verdict

    if "error" in view:
        if verdict != "valid":
            return fails            # the documentation promises nothing for this file
        if ref_raw:
            fails.append({"sig": "raw-typed-option-not-expanded",
                          "msg": "get_config raised %s; %r holds a reference to a defined variable but rlimit_*/stop_signal "
                                 "are converted from the unexpanded text" % (view["error"], ref_raw[0])})
        elif ref_typed:
            fails.append({"sig": "typed-option-ignores-env-section",
                          "msg": "get_config raised %s; %r refers to a variable defined in a matching env: section, but "
                                 "typed options are expanded with the [env]/os.environ values only" % (view["error"], ref_typed[0])})
        else:
            fails.append({"sig": "raises-on-valid-file", "msg": "get_config raised %s on a file with documented values only" % view["error"]})
        return fails

    got = {w["name"]: w for w in view["watchers"]}
    if sorted(got) != sorted(w for w, _ in wsecs) or len(view["watchers"]) != len(wsecs):
        fails.append({"sig": "watcher-set", "msg": "watchers %r, sections %r" % (sorted(got), sorted(w for w, _ in wsecs))})
        return fails
    for w, opts in wsecs:
        g = got[w]
        written = dict(opts)
        # typing and defaults
        for k, dflt in DEFAULTS.items():
            if k not in written and g["opts"].get(k) != dflt:
                fails.append({"sig": "default", "msg": "%s.%s: default %r, got %r" % (w, k, dflt, g["opts"].get(k))})
        for k, t in opts:
            e = exp[(w, k)]
            if e is None or e == "invalid":
                continue
            kind = _kind(k)
            if kind == "stream":
                sn, so = k.split(".", 1)
                have = g["stderr" if sn == "stderr_stream" else "stdout"].get(so)
                have = None if have is None else "S" + have
            elif kind == "rlimit":
                have = g["rlimits"].get(k[7:])
                have = None if have is None else "I%d" % have
            elif kind == "hook":
                have = g["hooks"].get(k[6:])
            else:
                have = g["opts"].get(k)
            if have != e:
                if kind == "hook" and (w, k) in ref_hook:
                    sig = "hooks-not-expanded"
                elif (w, k) in ref_typed:
                    sig = "typed-option-ignores-env-section"
                elif kind == "str" or kind == "stream":
                    sig = "expansion" if REF.search(t) else "string-option"
                else:
                    sig = "option-typing"
                fails.append({"sig": sig, "msg": "%s.%s = %r: documented result %r, got %r" % (w, k, t, e, have)})
        # environment
        # the layering is relative to the watcher's copy_env (whose own typing is checked above)
        cpy = g["opts"].get("copy_env") == "B1"
        denv = _doc_env(case, w, cpy)
        for x, (v, where) in denv.items():
            if where == "env" and ("$(" in v or "((" in v):
                # [env] values are themselves expanded against os.environ
                v2 = None
                m_ok = True
                for m in REF.finditer(v):
                    nm = m.group(1) or m.group(2)
                    c = [k for k, _ in case["environ"] if k.lower() == nm.lower()]
                    if len(c) != 1:
                        m_ok = False
                if m_ok:
                    osd = dict(case["environ"])
                    v2 = REF.sub(lambda m: osd[[k for k in osd if k.lower() == (m.group(1) or m.group(2)).lower()][0]], v)
                    if re.search(r"\$\(circus|\(\(circus", v2, re.I):
                        v2 = None
                if v2 is None:
                    continue
                v = v2
            if g["env"].get(x) != v:
                fails.append({"sig": "env-precedence", "msg": "%s env[%s]: documented %r (from %s), got %r" % (w, x, v, where, g["env"].get(x))})
        for x in g["env"]:
            if x not in denv:
                if x == "__name__":
                    fails.append({"sig": "dunder-name-leaks",
                                  "msg": "%s env carries __name__=%r, which no section defines (RawConfigParser's section marker)" % (w, g["env"][x])})
                else:
                    fails.append({"sig": "env-extra", "msg": "%s env has %s=%r which the documented layering does not give" % (w, x, g["env"][x])})
    # dedupe by signature, keep it short
    seen, out = set(), []
    for f in fails:
        if f["sig"] not in seen:
            seen.add(f["sig"])
            out.append(f)
    return out[:6]


def nontrivial(case, obs):
    if "prim" in case:
        return False
    ws = [n for n, o in case["sections"] if n.startswith("watcher:") and o]
    if not ws:
        return False
    envm = any(n.startswith("env:") and any(_matches(n, w[8:]) for w in ws) for n, _ in case["sections"])
    return envm or bool(REF.search(case["ini"]))


def stats(cases, impl):
    prims = [c for c in cases if "prim" in c]
    impl = [o for c, o in zip(cases, impl) if "prim" not in c]
    cases = [c for c in cases if "prim" not in c]
    st = _stats(cases, impl)
    st["primitive_cases"] = {op: sum(1 for c in prims if c["prim"] == op) for op in ("fnmatch", "expand", "int", "float", "bool", "read")}
    return st


def _stats(cases, impl):
    def count(p):
        return sum(1 for c in cases if p(c))
    errs = {}
    for o in impl:
        e = o.get("view", {}).get("error") if isinstance(o.get("view"), dict) else "harness"
        errs[str(e)] = errs.get(str(e), 0) + 1
    return {"files_with_env_section": count(lambda c: any(n == "env" for n, _ in c["sections"])),
            "files_with_env_pattern_sections": count(lambda c: any(n.startswith("env:") for n, _ in c["sections"])),
            "files_with_comma_list": count(lambda c: any(n.startswith("env:") and "," in n for n, _ in c["sections"])),
            "files_with_wildcards": count(lambda c: any(n.startswith("env:") and re.search(r"[*?\[]", n) for n, _ in c["sections"])),
            "files_with_references": count(lambda c: bool(REF.search(c["ini"]))),
            "files_with_copy_env": count(lambda c: "copy_env" in c["ini"]),
            "files_with_repeated_header": count(lambda c: len(re.findall(r"(?m)^\[", c["ini"])) > len(c["sections"])),
            "files_with_duplicate_key": count(lambda c: "ignored-duplicate" in c["ini"]),
            "files_with_continuation_line": count(lambda c: any("\n" in v for _, o in c["sections"] for _, v in o)),
            "files_with_sockets_or_plugins": count(lambda c: any(n.startswith(("socket:", "plugin:")) for n, _ in c["sections"])),
            "watchers_per_file": {str(k): count(lambda c, k=k: sum(1 for n, _ in c["sections"] if n.startswith("watcher:")) == k) for k in range(0, 7)},
            "result_classes": errs}
