"""C17 — captured worker output is delivered complete, in order, once, correctly labelled — is decided on two layers:
the Redirector (pipes -> handlers -> `redirector.redirect[name]`; harness/props/c17_redirector.py, model
CircusModel/Model/Redirector.lean) and the wiring in the Watcher that decides WHICH stream object each channel's
`redirect` entry is (constructor, `set <w> stdout_stream.* / stderr_stream.*`, `_create_redirectors` at every
start / restart, stop; harness/props/c17_wiring.py, model CircusModel/Model/StreamWiring.lean)."""
from harness.props import c17_redirector, c17_wiring
PARTS = [c17_redirector, c17_wiring]
