from harness.corecheck import make
MODULE = make("C01", ["CircusProofs/Props/C01.lean", "CircusProofs/Props/C01Conv.lean", "CircusProofs/Props/C01Conv2.lean"],
              ["CircusProofs/Core/Pres.lean", "CircusProofs/Core/Generic.lean", "CircusProofs/Core/SlotFree.lean",
               "CircusProofs/Core/WsAll.lean", "CircusProofs/Core/Calm.lean", "CircusProofs/Core/Init.lean",
               "CircusProofs/Core/Conv.lean", "CircusProofs/Core/ConvReap.lean", "CircusProofs/Core/ConvSurplus.lean", "CircusProofs/Core/ConvMulti.lean", "CircusProofs/Core/ConvMultiReap.lean", "CircusProofs/Core/ConvSurplusStub.lean"])
