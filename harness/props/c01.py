from harness.corecheck import make
MODULE = make("C01", ["CircusProofs/Props/C01.lean"], ["CircusProofs/Lemmas/Core.lean"])
