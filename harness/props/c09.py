from harness.corecheck import make
MODULE = make("C09", ["CircusProofs/Props/C09.lean", "CircusProofs/Props/C09Run.lean"],
              ["CircusProofs/Core/Pres.lean", "CircusProofs/Core/KStep.lean", "CircusProofs/Core/Generic.lean", "CircusProofs/Core/SlotFree.lean", "CircusProofs/Core/Narrow.lean", "CircusProofs/Core/HookFrame.lean", "CircusProofs/Core/PidInv.lean", "CircusProofs/Core/EventInv.lean", "CircusProofs/Props/C02.lean", "CircusProofs/Props/C14.lean"])
