from harness.corecheck import make
MODULE = make("C09", ["CircusProofs/Props/C09.lean"], ["CircusProofs/Lemmas/Core.lean"])
