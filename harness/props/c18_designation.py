"""C18 (designation half) — signal designations denote the same signal everywhere they are accepted.

Correspondence: the REAL `circus.util.to_signum`, `Signal.validate`, `Kill.validate`,
`validate_option` + `Watcher.set_opt('stop_signal')`, `convert_option('stop_signal')` and
`circus.config.get_config` (an ini file with `stop_signal = …`) against `Circus.Signum.*`;
plus, on every run, the running interpreter's `signal.Signals` table / `NSIG` against the
model's literal table (case `{"kind": "table"}`).
Oracle: the designation clause restated on the implementation's answers (independent of the
model: uses `signal.Signals` and Python's `int`)."""
import os
import re
import signal
import tempfile

from harness.core import enc_cps, dec_cps

LEAN_PROPS = ["CircusProofs/Props/C18Designation.lean"]
LEAN_LEMMAS = ["CircusProofs/Lemmas/PyInt.lean", "CircusProofs/Lemmas/Signum.lean"]
RULE = ("cases = one designation (int | str | bool | float | None | list | dict) handed to every entry point "
        "(to_signum, Signal.validate, Kill.validate, set stop_signal, convert_option, config file); systematic block: "
        "every name of the signal module in upper/lower/mixed case, with/without SIG, with offsets and padding, "
        "numbers -5..130 as int and as str, adorned numeric strings, near-miss strings; random block from VERIF_SEED; "
        "non-trivial = a str designation or an int at the range boundary; distinct by content hash; "
        "one extra case compares the interpreter's signal table with the model's")
ASSUMPTIONS = [
    "strings are ASCII text: str.upper/strip, \\w and \\d are modelled on ASCII only (outside the domain, not "
    "generated: 'ſigterm'.upper() == 'SIGTERM' and 'ﬆop'.upper() == 'STOP' are accepted by the code as 15 / 19; "
    "non-ASCII digits and spaces are accepted by int())",
    "platform table = signal.Signals of the running interpreter (Linux x86-64, CPython 3.12); compared with the model's "
    "literal table on every run",
    "sys.get_int_max_str_digits() == 4300 (checked on every run together with the table)",
    "exception messages are not compared, only the exception class",
    "config file values are limited to what an ini line can carry (no newline, surrounding blanks trimmed by the parser)",
]
SCRATCH = os.environ.get("VERIF_SCRATCH", "/dev/shm")
_INI_SAFE = re.compile(r"[A-Za-z0-9_+\-.! \t]*\Z")


# --------------------------------------------------------------------------- cases

def _mk(v):
    if isinstance(v, bool):
        return {"t": "bool", "v": v}
    if isinstance(v, int):
        return {"t": "int", "v": v}
    if isinstance(v, float):
        return {"t": "float", "v": v}
    if isinstance(v, str):
        return {"t": "str", "v": v}
    if v is None:
        return {"t": "none"}
    if isinstance(v, list):
        return {"t": "list", "v": v}
    return {"t": "dict", "v": v}


def _val(arg):
    return arg.get("v") if arg["t"] not in ("none",) else None


def _case(v, cur=15):
    return {"arg": _mk(v), "cur": cur}


def _mixed(rng, s):
    return "".join(c.upper() if rng.random() < 0.5 else c.lower() for c in s)


NEAR_MISS = ["KILL-9", "SIG_IGN", "SIG_DFL", "SIG_BLOCK", "term!", "", "SIG", "sig", "9.5", "9.0", "TERM+", "TERM+1+1",
             "+TERM", "TERM +1", "TERM+ 1", "TERM+-1", "TERM+1_0", "T ERM", "SIGSIGTERM", "SIGNALS", "Signals",
             "_TERM", "TERM_", "SIGTERM9", "9TERM", "0x9", "1e1", "--9", "+-9", "+ 9", "9 9", "9_", "_9", "9__0",
             "RTMIN-1", "RTMAX-1", "RTMIN+31", "RTMIN+30", "rtmax+0", "RTMAX+1", "HUP+63", "HUP+64", "HUP+0", "hup+5",
             "KILL+" + "0" * 4299 + "1", "KILL+" + "0" * 4300 + "1", "nope+" + "1" * 4301, "0" * 4300 + "9",
             "0" * 4299 + "9", "1" * 50, "\x1cTERM", "\x1c9", "9\x1f", "\x0b9\x0c", "TERM\n", "\tsigterm \r\n",
             "SIGTERM\x00", "9\x00", "int", "INT", "alarm", "ITIMER_REAL", "NSIG", "CLD", "poll", "IOT", "True", "None"]


def _spellings(rng, name):
    """upper / lower / mixed, with and without the SIG prefix"""
    base = name[3:] if name.upper().startswith("SIG") and len(name) > 3 else name
    out = []
    for b in (base, "SIG" + base):
        out += [b.upper(), b.lower(), _mixed(rng, b), _mixed(rng, b)]
    return out


def generate(rng, tier):
    cases = []
    names = sorted(set(dir(signal)))
    for name in names:
        for sp in _spellings(rng, name):
            cases.append(_case(sp))
        sp = _spellings(rng, name)
        cases.append(_case(rng.choice(sp) + "+" + str(rng.choice([0, 1, 2, 5, 29, 30, 31, 33, 49, 50, 63, 64, 100]))))
        cases.append(_case(rng.choice([" ", "\t", "\n ", "\x1c", ""]) + rng.choice(sp) + rng.choice([" ", "\n", "\r\n", "\x1f", ""])))
    for n in range(-5, 131):
        cases.append(_case(n, cur=rng.choice([15, 9, 1])))
        cases.append(_case(str(n)))
    for n in range(-5, 131, 3 if tier == "quick" else 1):
        s = str(abs(n))
        cases.append(_case(rng.choice(["", " ", "\n", "\t  "]) + rng.choice(["", "+", "-"]) + rng.choice(["", "0", "00", "0_"]) + s
                           + rng.choice(["", " ", "\n", "\r\n"])))
        if len(s) > 1:
            cases.append(_case("_".join(s)))
            cases.append(_case(s[0] + "__" + s[1:]))
    for s in NEAR_MISS:
        cases.append(_case(s))
    for v in [9.0, 9.5, 0.0, -1.0, 1e30, True, False, None, [], [9], ["TERM"], {}, {"signum": 9},
              2 ** 31, 2 ** 64, -2 ** 64, 10 ** 30]:
        cases.append(_case(v))
    # random block
    alph = "TERMKILsig+-_0159 \n\x1cx!."
    N = 300 if tier == "quick" else 10000
    sig_names = sorted(k for k, v in vars(signal).items() if isinstance(v, signal.Signals))
    for _ in range(N):
        r = rng.random()
        if r < 0.35:
            s = "".join(rng.choice(alph) for _ in range(rng.randint(0, 8)))
        elif r < 0.7:
            nm = rng.choice(sig_names)
            nm = nm[3:] if rng.random() < 0.5 else nm
            nm = _mixed(rng, nm)
            if rng.random() < 0.5:
                nm += "+" + rng.choice(["", "0", "1", "7", "30", "33", "50", "64", "007", "1_0", "-1", " 1"])
            if rng.random() < 0.3:
                k = rng.randrange(len(nm) + 1)
                nm = nm[:k] + rng.choice(alph) + nm[k:]
            if rng.random() < 0.3:
                nm = rng.choice([" ", "\n", "\x1d", "  \t"]) + nm + rng.choice([" ", "\n", "\x1e", ""])
            s = nm
        elif r < 0.9:
            s = rng.choice(["", " ", "\n"]) + rng.choice(["", "+", "-"]) + "".join(
                rng.choice("0123456789_") for _ in range(rng.randint(1, 4))) + rng.choice(["", " ", "\n", "x"])
        else:
            cases.append(_case(rng.randint(-10, 140), cur=rng.choice([15, 2, 10])))
            continue
        cases.append(_case(s, cur=rng.choice([15, 2, 10])))
    return cases


# Outside the stated (ASCII) domain; run only with VERIF_C18_UNICODE=1.  On the current tree the first three are
# ACCEPTED (15, 19, 19: str.upper() maps U+017F to 'S' and U+FB06 to 'ST'), '９' and '\xa09' are read as 9 by int().
UNICODE_PROBES = ["\u017figterm", "\ufb06op", "sig\ufb06op", "\uff19", "\xa09", "\u0130nt", "t\u00e9rm", "\u0661\u0662"]


def corpus():
    extra = [_case(s) for s in UNICODE_PROBES] if os.environ.get("VERIF_C18_UNICODE") == "1" else []
    return extra + [{"kind": "table"},
            # F10 witnesses of the tree before "fix: to_signum refuses everything that is not a documented …"
            _case("KILL-9"), _case("SIG_IGN"), _case(1000), _case(-1), _case(0), _case(9.5), _case(True),
            _case("nosuchsignal"), _case("SIGRTMIN+1"), _case("sigrtmax"), _case(" 15\n")]


# --------------------------------------------------------------------------- implementation side

_watcher = None


def _get_watcher():
    global _watcher
    if _watcher is None:
        from circus.watcher import Watcher
        _watcher = Watcher("verif-w", "sleep 1")
        # no arbiter / event socket: set_opt's notify_event must be harmless
    return _watcher


def _show(res):
    if isinstance(res, bool) or not isinstance(res, int):
        return "ok:%r" % (res,)
    return "ok:%d" % res


def _outcome(fn):
    from circus.exc import MessageError
    try:
        return _show(fn())
    except MessageError:
        return "ME"
    except ValueError:
        return "VE"
    except Exception as e:  # anything else is an unclean refusal (the oracle flags it)
        return "EXC:%s" % type(e).__name__


def _table():
    tab = {k: int(v) for k, v in vars(signal).items() if isinstance(v, signal.Signals)}
    import sys
    return {"nsig": int(signal.NSIG), "table": sorted([k, v] for k, v in tab.items()),
            "max_str_digits": sys.get_int_max_str_digits()}


def impl_run(case):
    if case.get("kind") == "table":
        return _table()
    from circus.util import to_signum
    from circus.commands.sendsignal import Signal
    from circus.commands.kill import Kill
    from circus.commands.util import validate_option, convert_option
    from circus.exc import MessageError
    arg = case["arg"]
    cur = case["cur"]

    def fresh():
        v = _val(arg)
        return list(v) if isinstance(v, list) else dict(v) if isinstance(v, dict) else v

    obs = {"to_signum": _outcome(lambda: to_signum(fresh()))}

    def via(cmd):
        def run():
            props = {"name": "w", "signum": fresh()}
            cmd.validate(props)
            return props["signum"]
        return run
    obs["signal"] = _outcome(via(Signal()))
    obs["kill"] = _outcome(via(Kill()))
    # a kill request without signum is accepted and stays without
    p = {"name": "w"}
    Kill().validate(p)
    obs["kill_absent"] = "signum" not in p

    w = _get_watcher()
    w.stop_signal = cur
    try:
        validate_option("stop_signal", fresh())
    except MessageError:
        obs["set"] = "NI"
    else:
        try:
            w.set_opt("stop_signal", fresh())
            obs["set"] = "done"
        except ValueError:
            obs["set"] = "VE"
        except Exception as e:
            obs["set"] = "EXC:%s" % type(e).__name__
    ss = w.stop_signal
    obs["stop_signal"] = int(ss) if isinstance(ss, int) and not isinstance(ss, bool) else repr(ss)
    obs["convert"] = _outcome(lambda: convert_option("stop_signal", fresh()))
    obs["config"] = "-"
    if arg["t"] == "str" and _INI_SAFE.match(arg["v"]):
        from circus.config import get_config
        fd, path = tempfile.mkstemp(prefix="verif-c18-", suffix=".ini", dir=SCRATCH)
        try:
            with os.fdopen(fd, "w") as fh:
                fh.write("[circus]\n[watcher:x]\ncmd = sleep 1\nstop_signal = %s\n" % arg["v"])
            obs["config"] = _outcome(lambda: get_config(path)["watchers"][0]["stop_signal"])
        finally:
            os.unlink(path)
    return obs


def impl_view(case, obs):
    if "harness_exception" in obs:
        return obs
    if case.get("kind") == "table":
        return {"nsig": obs["nsig"], "table": obs["table"]}
    return {k: obs[k] for k in ("to_signum", "signal", "kill", "set", "stop_signal", "convert", "config")}


# --------------------------------------------------------------------------- model side

def model_line(case):
    if case.get("kind") == "table":
        return "signum table"
    a = case["arg"]
    t = a["t"]
    if t == "int":
        tail = "int %d" % a["v"]
    elif t == "str":
        tail = "str %s" % enc_cps(a["v"])
    elif t == "bool":
        tail = "bool %d" % (1 if a["v"] else 0)
    elif t == "float":
        tail = "float"
    else:
        tail = "other"
    return "signum %d %s" % (case["cur"], tail)


def model_parse(case, line):
    if line == "bad-op":
        return {"bad": True}
    if case.get("kind") == "table":
        parts = line.split(";")
        tab = []
        for p in parts[1:]:
            n, v = p.split("=")
            tab.append(["".join(map(chr, dec_cps(n))), int(v)])
        return {"nsig": int(parts[0]), "table": sorted(tab)}
    t = line.split(" ")
    view = {"to_signum": t[0], "signal": t[1], "kill": t[2], "set": t[3], "stop_signal": int(t[4]),
            "convert": t[5], "config": t[6]}
    if not (case["arg"]["t"] == "str" and _INI_SAFE.match(case["arg"]["v"])):
        view["config"] = "-"
    return view


# --------------------------------------------------------------------------- oracle

_TAB = {k: int(v) for k, v in vars(signal).items() if isinstance(v, signal.Signals)}
_WS = " \t\n\r\x0b\x0c\x1c\x1d\x1e\x1f"


def readings(v):
    """every number the documented language could let `v` stand for (generous where the statement is silent:
    padding, sign, underscores as Python's int reads them)."""
    out = set()
    if isinstance(v, bool) or isinstance(v, float):
        return out
    if isinstance(v, int):
        out.add(v)
        return out
    if isinstance(v, str):
        try:
            out.add(int(v))
        except ValueError:
            pass
        s = v.strip(_WS)
        m = re.fullmatch(r"([A-Za-z0-9_]+?)(?:\+([0-9]+))?", s, re.A)
        if m:
            nm = m.group(1).upper()
            k = int(m.group(2)) if m.group(2) and len(m.group(2)) <= 4300 else (0 if not m.group(2) else None)
            for cand in (nm, "SIG" + nm):
                if cand in _TAB and k is not None:
                    out.add(_TAB[cand] + k)
    return out


def canonical(v):
    """the designation forms the statement names outright: these must be accepted"""
    if isinstance(v, bool) or isinstance(v, float):
        return None
    if isinstance(v, int):
        return v if 1 <= v < signal.NSIG else None
    if isinstance(v, str):
        if re.fullmatch(r"[1-9][0-9]?", v, re.A) and 1 <= int(v) < signal.NSIG:
            return int(v)
        up = v.upper()
        if v.isascii():
            for cand in (up, "SIG" + up):
                if cand in _TAB:
                    return _TAB[cand]
    return None


def oracle(case, obs):
    if case.get("kind") == "table":
        return []
    if "harness_exception" in obs:
        return [{"sig": "designation-harness-exception", "msg": obs["harness_exception"]}]
    v = _val(case["arg"])
    fails = []
    entries = ["to_signum", "signal", "kill", "convert"] + (["config"] if obs["config"] != "-" else [])
    if obs["set"] != "NI":
        entries.append("set")
    got = {}
    for e in entries:
        o = obs[e]
        if e == "set":
            o = ("ok:%s" % obs["stop_signal"]) if o == "done" else o
        got[e] = o
    accepted = {e: o for e, o in got.items() if o.startswith("ok:")}
    nums = set(accepted.values())
    # the same signal everywhere it is accepted
    if len(nums) > 1 or (accepted and len(accepted) != len(got)):
        fails.append({"sig": "designation-inconsistent", "msg": "entry points disagree on %r: %s" % (v, got)})
    legit = readings(v)
    for e, o in accepted.items():
        try:
            n = int(o[3:])
        except ValueError:
            fails.append({"sig": "designation-not-a-number", "msg": "%s(%r) = %s" % (e, v, o)})
            continue
        if not (1 <= n < signal.NSIG):
            fails.append({"sig": "designation-out-of-range", "msg": "%s(%r) = %d is not a signal number" % (e, v, n)})
        elif n not in legit:
            fails.append({"sig": "designation-non-ascii-accepted" if isinstance(v, str) and not v.isascii()
                          else "designation-accepted-undesignated" if not legit else "designation-wrong-number",
                          "msg": "%s(%r) = %d, but it designates %s" % (e, v, n, sorted(legit) or "nothing")})
    want = canonical(v)
    if want is not None:
        for e in entries:
            if got[e] != "ok:%d" % want:
                fails.append({"sig": "designation-refused-valid",
                              "msg": "%s(%r) = %s, documented designation of %d" % (e, v, got[e], want)})
    # refusal must be a refusal (error reply), not a crash; and it must leave stop_signal alone
    for e, o in got.items():
        if o.startswith("EXC:"):
            fails.append({"sig": "designation-unclean-refusal", "msg": "%s(%r) raised %s" % (e, v, o[4:])})
    if obs["set"] != "done" and obs["stop_signal"] != case["cur"]:
        fails.append({"sig": "designation-refused-but-changed",
                      "msg": "set stop_signal=%r refused (%s) but stop_signal is now %r" % (v, obs["set"], obs["stop_signal"])})
    if obs.get("kill_absent") is not True:
        fails.append({"sig": "designation-kill-absent", "msg": "Kill.validate invented a signum"})
    return fails[:4]


def nontrivial(case, obs):
    if case.get("kind") == "table":
        return True
    a = case["arg"]
    return a["t"] == "str" or (a["t"] == "int" and a["v"] in (0, 1, 64, 65, 32, 33, 34))


def stats(cases, impl):
    acc = sum(1 for c, o in zip(cases, impl) if isinstance(o, dict) and str(o.get("to_signum", "")).startswith("ok:"))
    by_t = {}
    for c in cases:
        t = c["arg"]["t"] if "arg" in c else "table"
        by_t[t] = by_t.get(t, 0) + 1
    return {"accepted": acc, "refused": len(cases) - acc - 1, "by_argument_type": by_t,
            "through_config_file": sum(1 for o in impl if isinstance(o, dict) and o.get("config", "-") != "-"),
            "distinct_accepted_numbers": len({o.get("to_signum") for o in impl if isinstance(o, dict)
                                              and str(o.get("to_signum", "")).startswith("ok:")})}


def shrink(case, failure):
    return case
