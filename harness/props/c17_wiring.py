"""C17 (wiring part) — WHICH stream object each channel of a worker is delivered to.

The Redirector part (harness/props/c17_redirector.py) shows that what a worker writes into its stdout / stderr
pipe reaches `redirector.redirect[name]` complete, in order, once, labelled.  This part closes the gap between
that dict and the operator's configuration: the wiring in the Watcher —

    Watcher.__init__            stdout_stream_conf / stderr_stream_conf, get_stream
    circus.stream.get_stream    None / {} -> no stream; pops `class`; `stream`; `filename`; else ValueError
    Watcher._reload_stream      what `set <w> stdout_stream.<k> <v>` does (through Watcher.set_opt)
    Watcher._create_redirectors at every start / restart
    Watcher._start / _stop / _restart / spawn_process   (open / close of the streams, redirector start / stop)
    Redirector.get_stream / change_stream / Handler

Correspondence: the REAL `circus.watcher.Watcher`, constructed in-process, its workers replaced by a fake
process class (real `os.pipe` pairs, no fork), the Redirector's loop replaced by a recorder of
`add_handler` / `remove_handler`; streams are the recording classes of harness/wiring_streams.py named by
dotted path in the `class` key (and the module global `circus.stream.FileStream`, used by get_stream for a
conf with `filename` but no `class`, is replaced by a recording class for the duration of a case).  Ops go
through the real methods (`set_opt`, `_create_redirectors`, `_start`, `_stop`, `_restart`, `spawn_process`);
after every op a probe worker is registered with the real `Redirector.add_redirections`, a unique chunk is
written into each of its pipes and the real `Redirector.Handler` is called with IOLoop.READ: the stream that
recorded the chunk is the delivery target.  Against `Circus.Wiring.run`.
"""
import os

from harness.core import Infra

LEAN_PROPS = ["CircusProofs/Props/C17Wiring.lean"]
LEAN_LEMMAS = ["CircusProofs/Lemmas/StreamWiring.lean"]
RULE = ("cases = (initial stdout/stderr stream conf: None | {} | ordered dict over class/stream/filename/3 plain "
        "keys, 5-30 ops over set(chan, key, val) on both channels incl. class / stream / filename keys and the "
        "dot-less key / _create_redirectors / _start / _stop(close) / _restart / spawn_process); every value is "
        "unique in its case so a stream's kwargs identify the conf they were taken from; after every op one chunk "
        "per channel is delivered through the real Handler; non-trivial = at least two streams were built by "
        "`set` and a redirector was (re)created after one of them; distinct by content hash; all randomness from "
        "VERIF_SEED")
ASSUMPTIONS = [
    "class names resolve and constructors accept any keyword (recording classes; the stock FileStream is replaced by "
    "a recording class with the same open/close capabilities): a failing import/constructor is not modelled",
    "stream objects are truthy (the watcher tests `if self.stdout_stream` / `if old_stream`; all stock classes are)",
    "process management around the wiring (kill, reap, do_action after set) is not modelled: the wiring layer's ops are "
    "exactly the writers of stdout_stream(_conf) / stderr_stream(_conf) / stream_redirector and the streams' open/close",
    "which pipes a worker has (decided at spawn by `stream is not None`) is not modelled; `deliver chan` is what the "
    "redirector does with a chunk read from a `chan` pipe",
]
TRUSTED_EXTRA = ["fake process class, handler-recording loop and recording stream classes of harness/props/c17_wiring.py "
                 "and harness/wiring_streams.py (the Watcher, get_stream and the Redirector are the real code)"]

CH = {"o": "stdout", "e": "stderr"}
KEYS = ["class", "stream", "filename", "max_bytes", "time_format", "color"]
KINDS = ["Rec", "RecC", "RecBare"]          # value v of a `class` key / a given stream object: kind v % 3
FAKE_PID0 = 4300000                         # above pid_max: os.waitpid answers ECHILD


# --------------------------------------------------------------------------- implementation side

class _Loop(object):
    """what Redirector needs from the IOLoop: records handlers"""

    def __init__(self):
        self.handlers = {}

    def add_handler(self, fd, handler, events):
        self.handlers[fd] = handler

    def remove_handler(self, fd):
        self.handlers.pop(fd, None)


class _Pipe(object):
    def __init__(self):
        self.r, self.w = os.pipe()
        os.set_blocking(self.r, False)
        self.closed = False

    def fileno(self):
        if self.closed:
            raise ValueError("I/O operation on closed file")
        return self.r

    def close(self):
        if not self.closed:
            self.closed = True
            os.close(self.r)
            os.close(self.w)


class _Proc(object):
    """stands for circus.process.Process: what Watcher.spawn_process / kill_process / reap_process and the
    Redirector touch; real pipes, no child"""
    _next = [FAKE_PID0]
    made = []

    def __init__(self, name, wid, cmd, pipe_stdout=True, pipe_stderr=True, **kw):
        import time
        _Proc._next[0] += 1
        self.pid = _Proc._next[0]
        self.wid = wid
        self.started = time.time()
        self.pipe_stdout, self.pipe_stderr = pipe_stdout, pipe_stderr
        self.stdout = _Pipe() if pipe_stdout else None
        self.stderr = _Pipe() if pipe_stderr else None
        self.stopping = False
        self.redirected = False
        self._alive = True
        _Proc.made.append(self)

    @property
    def status(self):
        from circus.process import DEAD_OR_ZOMBIE
        return "running" if self._alive else DEAD_OR_ZOMBIE

    def is_alive(self):
        return self._alive

    def send_signal(self, sig):
        self._alive = False

    def children(self, recursive=False):
        return []

    def returncode(self):
        return 0

    def age(self):
        return 0

    def stop(self):
        self._alive = False
        for p in (self.stdout, self.stderr):
            if p is not None:
                p.close()


def _conf(pairs, given):
    """case conf (None | list of [key, val]) -> the dict handed to the Watcher"""
    if pairs is None:
        return None
    return dict((k, _val(k, v, given)) for k, v in pairs)


def _val(k, v, given):
    if k == "class":
        return "harness.wiring_streams." + KINDS[v % 3]
    if k == "stream":
        return given(v)
    return v


class _Env(object):
    """one case: the watcher under test and everything around it"""

    def __init__(self, case):
        import asyncio
        import circus.stream as cs
        import circus.watcher as cw
        from tornado.ioloop import IOLoop
        import harness.wiring_streams as ws
        self.ws, self.cs = ws, cs
        ws.reset()
        self.pool = {}
        self.aloop = asyncio.new_event_loop()
        asyncio.set_event_loop(self.aloop)
        self.ioloop = IOLoop.current()
        self.saved_fs = cs.FileStream
        cs.FileStream = ws.RecFile
        _Proc.made = []
        self.loop = _Loop()

        class W(cw.Watcher):
            @property
            def _process_class(self):
                return _Proc
        self.W = W
        self.w = None
        self.nchunk = 0

    def given(self, v):
        if v not in self.pool:
            self.pool[v] = getattr(self.ws, "Given" + KINDS[v % 3])(v)
        return self.pool[v]

    def construct(self, case):
        self.w = self.W("w17", "x", numprocesses=1, working_dir="/", graceful_timeout=1,
                        stdout_stream=_conf(case["init"]["o"], self.given),
                        stderr_stream=_conf(case["init"]["e"], self.given), loop=self.loop)

    def close(self):
        import asyncio
        self.cs.FileStream = self.saved_fs
        for p in _Proc.made:
            p.stop()
        _Proc.made = []
        try:
            self.ioloop.close()
            if not self.aloop.is_closed():
                self.aloop.close()
        finally:
            asyncio.set_event_loop(None)

    # -- observation
    def sref(self, s):
        if s is None:
            return None
        if getattr(s, "given", None) is not None:
            return ["g", s.given]
        for i, x in enumerate(self.ws.REGISTRY):
            if x is s:
                return ["b", i]
        return ["?", repr(s)[:40]]

    def conf_view(self, d):
        if d is None:
            return None
        out = []
        for k, v in d.items():
            if k == "stream":
                v = getattr(v, "given", -1)
            elif k == "class":
                v = KINDS.index(v.rsplit(".", 1)[1])
            out.append([k, v])
        return out

    def deliver(self, chan):
        """hand one unique chunk of channel `chan` to the redirector the way a readable pipe does; returns the
        streams that recorded it"""
        from circus.stream.redirector import Redirector
        from tornado.ioloop import IOLoop
        red = self.w.stream_redirector
        if red is None:
            return {"to": None, "why": "no-redirector"}
        probe = _Proc("probe", 0, "x", pipe_stdout=(chan == "o"), pipe_stderr=(chan == "e"))
        pipe = probe.stdout if chan == "o" else probe.stderr
        try:
            red.add_redirections(probe)
            fd = pipe.fileno()
            h = self.loop.handlers.get(fd) if red.running else Redirector.Handler(red, CH[chan], probe, pipe)
            if h is None:
                return {"to": None, "why": "running-but-no-handler"}
            self.nchunk += 1
            chunk = ("chunk-%d-%s" % (self.nchunk, chan)).encode()
            os.write(pipe.w, chunk)
            exc = None
            try:
                h(fd, IOLoop.READ)
            except Exception as e:          # e.g. the target is None: 'NoneType' object is not callable
                exc = type(e).__name__
            got = []
            for s in list(self.ws.REGISTRY) + list(self.pool.values()):
                for d in s.chunks:
                    if d.get("data") == chunk:
                        got.append((s, d))
            out = {"to": [self.sref(s) for s, _ in got], "exc": exc,
                   "label_ok": all(d.get("name") == CH[chan] and d.get("pid") == probe.pid for _, d in got),
                   "closed_at_delivery": any(s.closed for s, _ in got)}
            return out
        finally:
            try:
                red.remove_redirections(probe)
            except Exception:
                pass
            probe.stop()
            _Proc.made.remove(probe)

    def snapshot(self):
        w = self.w
        red = w.stream_redirector
        built = [[i, [list(kv) for kv in self.conf_view(s.kwargs)], s.kind, bool(s.closed)]
                 for i, s in enumerate(self.ws.REGISTRY)]
        return {
            "conf": {"o": self.conf_view(w.stdout_stream_conf), "e": self.conf_view(w.stderr_stream_conf)},
            "attr": {"o": self.sref(w.stdout_stream), "e": self.sref(w.stderr_stream)},
            "red": None if red is None else {"o": self.sref(red.redirect.get("stdout")),
                                             "e": self.sref(red.redirect.get("stderr")),
                                             "running": bool(red.running)},
            "stopped": w._status == "stopped",
            "built": built,
            "gclosed": sorted(v for v, s in self.pool.items() if s.closed),
            "deliver": {"o": self.deliver("o"), "e": self.deliver("e")},
        }

    # -- ops
    def apply(self, op):
        w = self.w
        kind = op[0]
        if kind == "set":
            _, chan, key, v = op
            return w.set_opt("%s_stream.%s" % (CH[chan], key), _val(key, v, self.given))
        if kind == "setnodot":
            return w.set_opt("%s_stream" % CH[op[1]], {"class": "harness.wiring_streams.Rec"})
        if kind == "create":
            return w._create_redirectors()
        if kind == "start":
            return self.ioloop.run_sync(w._start)
        if kind == "stop":
            return self.ioloop.run_sync(lambda: w._stop(bool(op[1])))
        if kind == "restart":
            return self.ioloop.run_sync(w._restart)
        if kind == "spawn":
            # a worker died and is replaced: the real reap_process + spawn_process
            for p in list(w.processes.values()):
                p._alive = False
                w.reap_process(p.pid)
            return w.spawn_process()
        raise Infra("unknown op %r" % (op,))


def _res(r):
    if r is None:
        return "none"
    if isinstance(r, bool):
        return "bool"
    if isinstance(r, int):
        return "ret%d" % r
    if isinstance(r, float):
        return "float"
    return type(r).__name__


def impl_run(case):
    env = _Env(case)
    try:
        try:
            env.construct(case)
        except Exception as e:
            return {"init": "raise:%s" % type(e).__name__, "steps": []}
        steps = [dict(env.snapshot(), res="init")]
        for op in case["ops"]:
            nb = len(env.ws.REGISTRY)
            before = {id(s): s.closed for s in list(env.ws.REGISTRY) + list(env.pool.values())}
            try:
                res = _res(env.apply(op))
            except Exception as e:
                res = "raise:%s" % type(e).__name__
            snap = env.snapshot()
            snap["res"] = res
            snap["built_by_op"] = list(range(nb, len(env.ws.REGISTRY)))
            snap["closed_by_op"] = [env.sref(s) for s in list(env.ws.REGISTRY) + list(env.pool.values())
                                    if s.closed and before.get(id(s)) is False]
            steps.append(snap)
        return {"init": "ok", "steps": steps}
    finally:
        env.close()


# --------------------------------------------------------------------------- canonical view

def _kw_no_class(pairs):
    """what a stream built from this case conf gets as keyword arguments (dict-literal semantics, `class` popped)"""
    d = {}
    for k, v in pairs or []:
        d[k] = v
    d.pop("class", None)
    return [[k, v] for k, v in d.items()]


def _for_channels(case, obs):
    """the channel every built stream was built FOR: the channel of the `set` during which it was built; the
    streams built by the constructor are told apart by their kwargs (construction order on a tie)"""
    steps = obs["steps"]
    out = {}
    if not steps:
        return out
    n0 = len(steps[0]["built"])
    exp = {c: _kw_no_class(case["init"][c]) for c in "oe"}
    init_built = steps[0]["built"][:n0]
    if n0 == 2:
        out[0], out[1] = "o", "e"
        if init_built[0][1] == exp["e"] and init_built[0][1] != exp["o"]:
            out[0], out[1] = "e", "o"
    elif n0 == 1:
        kw = init_built[0][1]
        if kw == exp["o"] and kw != exp["e"]:
            out[0] = "o"
        elif kw == exp["e"] and kw != exp["o"]:
            out[0] = "e"
        else:           # same kwargs: the channel that can have produced a built stream at all
            can = [c for c in "oe" if case["init"][c] and (any(k == "class" for k, _ in case["init"][c]) or
                                                            not any(k == "stream" for k, _ in case["init"][c]))]
            out[0] = can[0] if can else "?"
    for st, op in zip(steps[1:], case["ops"]):
        for i in st.get("built_by_op", []):
            out[i] = op[1] if op[0] == "set" else "?"
    return out


def _one(d):
    to = d.get("to")
    if not to:
        return None
    return to[0] if len(to) == 1 else "multi"


def impl_view(case, obs):
    if "steps" not in obs:
        return obs
    if obs.get("init") != "ok":
        return {"init": obs.get("init")}
    fc = _for_channels(case, obs)
    steps = []
    for j, st in enumerate(obs["steps"]):
        op = case["ops"][j - 1] if j else None
        res = st["res"]
        if op is not None and op[0] not in ("set", "setnodot") and not res.startswith("raise:"):
            res = "none"
        steps.append({
            "res": res, "conf": st["conf"], "attr": st["attr"], "red": st["red"], "stopped": st["stopped"],
            "deliver": {c: _one(st["deliver"][c]) for c in "oe"},
            "built": [[fc.get(i, "?"), kind, kw] for i, kw, kind, _ in st["built"]],
            "closed": sorted([["b", i] for i, _, _, cl in st["built"] if cl] + [["g", v] for v in st["gclosed"]]),
        })
    return {"init": "ok", "steps": steps}


def _enc_conf(pairs):
    if pairs is None:
        return "~"
    if not pairs:
        return "-"
    return ".".join("%d.%d" % (KEYS.index(k), v) for k, v in pairs)


def model_line(case):
    toks = ["wiring", _enc_conf(case["init"]["o"]), _enc_conf(case["init"]["e"])]
    for op in case["ops"]:
        if op[0] == "set":
            toks += ["set", op[1], str(KEYS.index(op[2])), str(op[3])]
        elif op[0] == "setnodot":
            toks += ["nodot", op[1]]
        elif op[0] == "stop":
            toks += ["stop", str(int(bool(op[1])))]
        else:
            toks.append(op[0])
    return " ".join(toks)


def _dec_conf(t):
    if t == "~":
        return None
    if t == "-":
        return []
    n = [int(x) for x in t.split(".")]
    return [[KEYS[n[i]] if n[i] < len(KEYS) else "k%d" % n[i], n[i + 1]] for i in range(0, len(n), 2)]


def _dec_ref(t):
    if t == "~":
        return None
    return [t[0], int(t[1:])]


def model_parse(case, line):
    if line == "bad-op":
        return {"bad": True}
    if line == "init-raise":
        return {"init": "raise:ValueError"}
    steps = []
    for rec in line.split(";"):
        f = rec.split(" ")
        red = None
        if f[5] != "~":
            a, b, r = f[5].split(",")
            red = {"o": _dec_ref(a), "e": _dec_ref(b), "running": r == "1"}
        built = []
        if f[9] != "-":
            for ent in f[9].split("|"):
                ch, cls, kw = ent.split(",")
                built.append([ch, cls, _dec_conf(kw)])
        closed = [] if f[10] == "-" else sorted(set((t[0], int(t[1:])) for t in f[10].split(",")))
        steps.append({"res": f[0], "conf": {"o": _dec_conf(f[1]), "e": _dec_conf(f[2])},
                      "attr": {"o": _dec_ref(f[3]), "e": _dec_ref(f[4])}, "red": red,
                      "deliver": {"o": _dec_ref(f[6]), "e": _dec_ref(f[7])}, "stopped": f[8] == "1",
                      "built": built, "closed": [list(x) for x in closed]})
    return {"init": "ok", "steps": steps}


def first_diff(case, mv, iv):
    if mv.get("init") != iv.get("init") or "steps" not in mv or "steps" not in iv:
        return {"init": [mv.get("init"), iv.get("init")]}
    for j, (a, b) in enumerate(zip(mv["steps"], iv["steps"])):
        if a != b:
            return {"step": j, "op": case["ops"][j - 1] if j else "init",
                    "fields": {k: {"model": a.get(k), "impl": b.get(k)} for k in a if a.get(k) != b.get(k)}}
    return {"steps": [len(mv["steps"]), len(iv["steps"])]}


# --------------------------------------------------------------------------- oracle

def oracle(case, obs):
    """C17 restated on the implementation: a chunk read from a worker's channel c is handed, once and labelled c, to
    the stream most recently built for c (by the constructor or by the last accepted `set` on c), that stream was
    built from c's configuration (every key/value the operator gave for c, none of the other channel's), a
    `set` never closes a stream that still receives output (the stream it installs, or a ready-made object the other channel
    shares: both were F30), and a running watcher never writes into a closed stream that it could have re-opened."""
    if "steps" not in obs:
        return [{"sig": "wiring-harness-exception", "msg": str(obs.get("harness_exception"))[:300]}]
    if obs.get("init") != "ok":
        return []
    steps = obs["steps"]
    fc = _for_channels(case, obs)
    fails = []
    # what the operator configured for each channel (ordered dict minus `class`), keys left by refused sets
    exp = {c: (None if case["init"][c] is None else dict((k, v) for k, v in _kw_no_class(case["init"][c]))) for c in "oe"}
    refused = {"o": {}, "e": {}}
    cur = {c: steps[0]["attr"][c] for c in "oe"}      # the stream most recently built for c
    want = {}                                          # built id -> (channel, expected kwargs, optional keys)
    for i in range(len(steps[0]["built"])):
        c = fc.get(i)
        if c in exp and exp[c] is not None:
            want[i] = (c, dict(exp[c]), {})

    def check(j, st):
        for c in "oe":
            d = st["deliver"][c]
            if st["red"] is None:
                continue
            to = d.get("to") or []
            if len(to) > 1:
                fails.append({"sig": "wiring-delivered-twice", "step": j, "msg": "one chunk of %s reached %r" % (CH[c], to)})
                continue
            if to and not d.get("label_ok"):
                fails.append({"sig": "wiring-mislabelled", "step": j, "msg": "chunk of %s arrived with another name/pid" % CH[c]})
            t = to[0] if to else None
            if cur[c] is None:
                if t is not None:
                    fails.append({"sig": "wiring-unconfigured-channel", "step": j,
                                  "msg": "%s has no stream configured but its chunk reached %r" % (CH[c], t)})
                continue
            if t is None:
                fails.append({"sig": "wiring-not-delivered", "step": j,
                              "msg": "a redirector is present, %s is configured (%r) but the chunk reached no stream (%s)"
                                     % (CH[c], cur[c], d.get("exc"))})
                continue
            if t != cur[c]:
                if t[0] == "b" and fc.get(t[1]) in "oe" and fc.get(t[1]) != c:
                    fails.append({"sig": "wiring-other-channels-stream", "step": j,
                                  "msg": "chunk of %s reached stream %r, built for %s; the stream configured for %s is %r"
                                         % (CH[c], t, CH[fc[t[1]]], CH[c], cur[c])})
                else:
                    fails.append({"sig": "wiring-replaced-stream", "step": j,
                                  "msg": "chunk of %s reached %r, not the stream most recently built for it (%r)"
                                         % (CH[c], t, cur[c])})
                continue
            if t[0] == "b":
                _, kw, kind, closed = st["built"][t[1]]
                w = want.get(t[1])
                if w is not None:
                    got = dict((k, v) for k, v in kw)
                    need, opt = w[1], w[2]
                    ok = all(got.get(k) == v for k, v in need.items() if k not in opt) and \
                        all((k in need and need[k] == v) or (k in opt and opt[k] == v) for k, v in got.items())
                    if not ok:
                        fails.append({"sig": "wiring-conf-mismatch", "step": j,
                                      "msg": "the stream %s is delivered to was built from %r, its configuration is %r"
                                             % (CH[c], kw, sorted(need.items()))})
                if closed and not st["stopped"] and kind in ("File", "Rec"):
                    fails.append({"sig": "wiring-closed-stream", "step": j,
                                  "msg": "running watcher: chunk of %s written into the closed stream %r" % (CH[c], t)})

    check(0, steps[0])
    for j, (st, op) in enumerate(zip(steps[1:], case["ops"]), 1):
        if op[0] == "set":
            c, k, v = op[1], op[2], op[3]
            res = st["res"]
            if res in ("ret0", "ret1"):
                if exp[c] is None:
                    exp[c] = {}         # a channel without any configuration took a `set`: its configuration starts here
                if k != "class":
                    exp[c][k] = v
                    refused[c].pop(k, None)
                nb = st.get("built_by_op", [])
                if nb:
                    cur[c] = ["b", nb[-1]]
                    want[nb[-1]] = (c, dict(exp[c]), dict(refused[c]))
                else:               # no stream was built: the configuration names a ready-made object
                    cur[c] = st["attr"][c] if (st["attr"][c] or [None])[0] == "g" and exp[c].get("stream") == st["attr"][c][1] \
                        else ["?", "a set built nothing and installed %r" % (st["attr"][c],)]
                for x in st.get("closed_by_op", []):
                    live = [c2 for c2 in "oe" if st["red"] is not None and (st["deliver"][c2].get("to") or [None])[0] == x]
                    if live:
                        # (former finding F30, repaired by the `in_use` test: a ready-made object the conf still names, or one
                        # the other channel shares, used to be closed here)
                        fails.append({"sig": "wiring-set-closes-its-new-target" if c in live
                                      else "wiring-set-closes-shared-given-stream" if x[0] == "g"
                                      else "wiring-set-closes-live-stream", "step": j,
                                      "msg": "set %s_stream.%s closed %r, which still receives the output of %s"
                                             % (CH[c], k, x, "/".join(CH[c2] for c2 in live))})
            elif res == "raise:ValueError" and exp[c] is not None and k != "class":
                refused[c][k] = v
                exp[c][k] = v
        check(j, st)
    return fails[:4]


def nontrivial(case, obs):
    if obs.get("init") != "ok":
        return False
    sets = 0
    after = False
    for st, op in zip(obs["steps"][1:], case["ops"]):
        if op[0] == "set" and st.get("built_by_op"):
            sets += 1
        elif op[0] in ("create", "start", "restart") and sets and st["red"] is not None:
            after = True
    return sets >= 2 and after


def stats(cases, impl):
    ops = {}
    res = {}
    deliveries = 0
    for c, o in zip(cases, impl):
        for op in c["ops"]:
            key = op[0] if op[0] != "set" else "set:%s" % op[2]
            ops[key] = ops.get(key, 0) + 1
        for st in o.get("steps", [])[1:]:
            res[st["res"]] = res.get(st["res"], 0) + 1
        for st in o.get("steps", []):
            deliveries += sum(1 for ch in "oe" if st["deliver"][ch].get("to"))
    return {"ops": ops, "results": res, "chunks_delivered": deliveries,
            "constructor_raises": sum(1 for o in impl if str(o.get("init", "")).startswith("raise")),
            "init_none_conf": sum(1 for c in cases if c["init"]["o"] is None or c["init"]["e"] is None),
            "set_then_recreate": sum(1 for c, o in zip(cases, impl) if nontrivial(c, o))}


# --------------------------------------------------------------------------- generator

def _gen_conf(rng, fresh):
    r = rng.random()
    if r < 0.10:
        return None
    if r < 0.25:
        return []
    keys = []
    r = rng.random()
    if r < 0.45:
        keys.append("class")
    elif r < 0.80:
        keys.append("filename")
    elif r < 0.86:
        keys.append("stream")
    for k in ("filename", "max_bytes", "time_format", "color", "stream"):
        if k not in keys and rng.random() < (0.02 if k == "stream" else 0.3):
            keys.append(k)
    rng.shuffle(keys)
    return [[k, fresh()] for k in keys]


def gen_case(rng, nops=None):
    n = [3]

    def fresh():
        n[0] += 1
        return 3 * n[0] + rng.randrange(3)
    init = {"o": _gen_conf(rng, fresh), "e": _gen_conf(rng, fresh)}
    if rng.random() < 0.04 and init["o"]:
        # the same ready-made object for both channels (the test suite does that with one QueueStream)
        v = fresh()
        init = {"o": [["stream", v]], "e": [["stream", v]]}
    ops = []
    given_vals = [v for c in "oe" for k, v in (init[c] or []) if k == "stream"]
    plain = rng.random() < 0.7          # most cases stay away from the ready-made `stream` key in `set`
    for _ in range(nops if nops is not None else rng.randint(5, 30)):
        r = rng.random()
        if r < 0.50:
            ch = rng.choice("oe")
            k = rng.choice(["class", "class", "filename", "filename", "filename", "max_bytes", "max_bytes",
                            "time_format", "color", "color"] + ([] if plain else ["stream"]))
            v = fresh()
            if k == "stream" and given_vals and rng.random() < 0.4:
                v = rng.choice(given_vals)
            if k == "stream":
                given_vals.append(v)
            ops.append(["set", ch, k, v])
        elif r < 0.52:
            ops.append(["setnodot", rng.choice("oe")])
        elif r < 0.62:
            ops.append(["create"])
        elif r < 0.70:
            ops.append(["spawn"])
        elif r < 0.80:
            ops.append(["start"])
        elif r < 0.88:
            ops.append(["stop", rng.randrange(2)])
        else:
            ops.append(["restart"])
    return {"init": init, "ops": ops}


def generate(rng, tier):
    cases = []
    # small systematic block: every pair of initial shapes x (set on each channel, then restart)
    shapes = [None, [], [["class", 30]], [["class", 31], ["color", 40]], [["filename", 41]], [["stream", 44]]]
    for a in shapes:
        for b in shapes:
            cases.append({"init": {"o": a, "e": [[k, v + 100] for k, v in b] if b else b},
                          "ops": [["start"], ["set", "e", "filename", 200], ["set", "o", "max_bytes", 201], ["restart"],
                                  ["set", "o", "filename", 202], ["stop", 1], ["set", "e", "color", 203], ["start"]]})
    N = 300 if tier == "quick" else 5000
    for _ in range(N):
        cases.append(gen_case(rng))
    return cases


def corpus():
    both = {"o": [["class", 30], ["filename", 10]], "e": [["class", 30], ["filename", 11]]}
    return [
        # the history of the seeded slip `self.stdout_stream = new_stream` in the stderr branch of _reload_stream:
        # set stderr, then a restart re-creates the redirector from the two attributes
        {"init": both, "ops": [["start"], ["set", "e", "filename", 12], ["restart"]]},
        {"init": both, "ops": [["start"], ["set", "e", "filename", 12], ["create"], ["spawn"]]},
        {"init": both, "ops": [["set", "e", "max_bytes", 12], ["start"], ["set", "o", "max_bytes", 13], ["stop", 1], ["start"]]},
        # only stderr configured; stdout gets its first stream through `set` ({} is what an ini file gives)
        {"init": {"o": [], "e": [["filename", 11]]}, "ops": [["start"], ["set", "o", "filename", 12], ["restart"], ["set", "e", "color", 13]]},
        # API default None: `set` raises TypeError and changes nothing
        {"init": {"o": None, "e": [["class", 31]]}, "ops": [["start"], ["set", "o", "filename", 12], ["set", "e", "filename", 13], ["restart"]]},
        # the class is popped by the first build: a later `set` of a plain key is refused (ValueError), the key stays
        {"init": {"o": [["class", 31], ["color", 10]], "e": []}, "ops": [["start"], ["set", "o", "color", 12], ["set", "o", "filename", 13], ["restart"]]},
        # a ready-made object under `stream` (shared by both channels): a `set` of a plain key "replaces" it by itself
        # and must not close it (was F30, repaired) ...
        {"init": {"o": [["stream", 30]], "e": [["stream", 30]]}, "ops": [["start"], ["set", "o", "max_bytes", 12]]},
        {"init": {"o": [["stream", 30], ["color", 10]], "e": [["filename", 11]]},
         "ops": [["start"], ["set", "o", "color", 12], ["restart"], ["set", "o", "max_bytes", 13]]},
        # ... nor when stdout really replaces it while stderr still shares it (second case of F30, repaired)
        {"init": {"o": [["stream", 30]], "e": [["stream", 30]]}, "ops": [["start"], ["set", "o", "class", 33]]},
        {"init": {"o": [["stream", 30]], "e": [["stream", 30]]}, "ops": [["start"], ["set", "e", "stream", 33], ["restart"]]},
        # set on a stopped watcher: redirector created and started, the replaced stream is not closed
        {"init": both, "ops": [["set", "o", "filename", 12], ["set", "o", "filename", 13], ["start"], ["stop", 1], ["set", "e", "color", 14], ["start"]]},
    ]


def shrink(case, failure):
    sig = failure.get("sig")

    def bad(c):
        return any(f["sig"] == sig for f in oracle(c, impl_run(c)))
    cur = dict(case)
    i = len(cur["ops"]) - 1
    while i >= 0:
        c2 = dict(cur, ops=cur["ops"][:i] + cur["ops"][i + 1:])
        if bad(c2):
            cur = c2
        i -= 1
    return cur
