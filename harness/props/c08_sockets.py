"""C08, socket part — "closes its ... managed sockets, removes the unix-socket files", for every history before the
shutdown, reloadconfig with changed socket sections included.

A part for the C08 PARTS list.  Model, driver and harness are those of the managed-sockets layer
(harness/props/c07.py): the `cfg` cases run the REAL `Arbiter.load_from_config` / `reloadconfig` / `quit` on the
simulated kernel (harness/reloadsim.py) with real inet and unix sockets in a scratch directory and compare dict,
descriptors and socket files with `Circus.Sockets.reloadSockets` / `step .stop`; the `hist` cases end with the
shutdown (`CircusSockets.close_all`).  Theorems: CircusProofs/Props/C08Sockets.lean."""
from harness.props import c07 as _c07

LEAN_PROPS = ["CircusProofs/Props/C08Sockets.lean"]
LEAN_LEMMAS = ["CircusProofs/Lemmas/Sockets.lean"]
RULE = ("cfg cases = 1-3 [socket:] sections (unix mostly, inet on 127.0.0.x; stream/seqpacket/dgram; replace), 1-3 "
        "rewrites of the file (path changed — also to a path another socket uses or used —, backlog or type changed, "
        "section deleted, section added) each followed by reloadconfig, watchers referring to the sockets in cmd or "
        "args (so that the 'uses a socket which is deleted' error path is taken), restarts and deaths in between, "
        "quit at the end; hist cases = managed-socket histories that end with the shutdown; all randomness from "
        "VERIF_SEED; non-trivial = a reload really deleted, changed or added a socket")
ASSUMPTIONS = [a for a in _c07.ASSUMPTIONS] + [
    "the [circus] section is held fixed (a changed one restarts the whole arbiter); plugins, circushttpd absent",
    "a socket object whose bind failed during a reload is closed when its traceback is collected (the harness runs "
    "the collector before it looks)",
]
TRUSTED_EXTRA = _c07.TRUSTED_EXTRA + ["harness/reloadsim.py"]


def corpus():
    return [c for c in _c07.corpus() if c["kind"] == "cfg" or (c["kind"] == "hist" and ["X"] in c["ops"])]


def generate(rng, tier):
    n_cfg, n_hist = (60, 40) if tier == "quick" else (1500, 1500)
    out = [_c07.gen_cfg(rng) for _ in range(n_cfg)]
    for _ in range(n_hist):
        c = _c07.gen_hist(rng)
        if ["X"] not in c["ops"]:
            c["ops"].append(["X"])
        out.append(c)
    return out


impl_run = _c07.impl_run
impl_view = _c07.impl_view
model_line = _c07.model_line
model_parse = _c07.model_parse
views_equal = _c07.views_equal
first_diff = _c07.first_diff
nontrivial = _c07.nontrivial
stats = _c07.stats
shrink = _c07.shrink


def oracle(case, obs):
    """the C08 statements only (the C07 ones are reported by ./check C07)"""
    return [f for f in _c07.oracle(case, obs) if f["sig"].startswith("C08:") or f["sig"] == "C07:harness-exception"]
