from harness.corecheck import make
MODULE = make("C10", ["CircusProofs/Props/C10.lean"],
              ["CircusProofs/Core/Pres.lean", "CircusProofs/Core/Generic.lean", "CircusProofs/Core/SlotFree.lean",
               "CircusProofs/Core/SlotInv.lean"])
