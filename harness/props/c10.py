from harness.corecheck import make
MODULE = make("C10", ["CircusProofs/Props/C10.lean"], ["CircusProofs/Lemmas/Core.lean"])
