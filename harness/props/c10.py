from harness.corecheck import make
MODULE = make("C10", ["CircusProofs/Props/C10.lean", "CircusProofs/Props/C10Wake.lean", "CircusProofs/Props/C10Fail.lean"],
              ["CircusProofs/Core/Pres.lean", "CircusProofs/Core/Generic.lean", "CircusProofs/Core/SlotFree.lean",
               "CircusProofs/Core/SlotInv.lean", "CircusProofs/Core/WakeAttr.lean", "CircusProofs/Core/WakeDefs.lean", "CircusProofs/Core/WakePrim.lean", "CircusProofs/Core/WakeInv.lean", "CircusProofs/Core/WakeHeld.lean", "CircusProofs/Core/StopRunE.lean"])
