"""C10: the core state machine (slot, synchronized, every command) and, for `reloadconfig` — a state-changing operation whose body
is outside the core model —, harness/props/c10_reload.py."""
from harness.corecheck import make
from harness.props import c10_reload
PARTS = [make("C10", ["CircusProofs/Props/C10.lean", "CircusProofs/Props/C10Wake.lean", "CircusProofs/Props/C10Fail.lean"],
              ["CircusProofs/Core/Pres.lean", "CircusProofs/Core/Generic.lean", "CircusProofs/Core/SlotFree.lean",
               "CircusProofs/Core/SlotInv.lean", "CircusProofs/Core/WakeAttr.lean", "CircusProofs/Core/WakeDefs.lean", "CircusProofs/Core/WakePrim.lean", "CircusProofs/Core/WakeInv.lean", "CircusProofs/Core/WakeHeld.lean", "CircusProofs/Core/StopRunE.lean"]),
         c10_reload]
