"""C10 across reloadconfig: `reloadconfig` is one of the state-changing operations C10 lists, and
`Arbiter.reload_from_config` (with `_restart` for a changed [circus] section) is outside the core model.  Reuses the
reloadconfig harness of C12 (harness/reloadsim.py, harness/props/c12.py: the real Arbiter.load_from_config / reloadconfig on
the simulated kernel, the Reload model — with its arbiter branch `restartAll` — on the Lean side); only the oracle is C10's:
every reload of a case is sent after the previous one has been answered and every timer has run out, so nothing is in
flight: the slot must be free at rest and the request must not be refused as conflicting ("already running …",
"arbiter is restarting/stopping") — the daemon never stays wedged."""
from harness.props import c12 as _c12

LEAN_PROPS = []                      # the theorems this part leans on are C12's; C10's own are in the core part
LEAN_LEMMAS = []
RULE = ("edit sequences of the C12 generator, half of them with edits of the [circus] section (check_delay) that make "
        "reloadconfig restart everything, each followed by one more reload; judged by the never-wedged oracle of C10")
ASSUMPTIONS = ["every timer runs out between two reloads (the harness fires them all): no operation is in flight when the "
               "next reloadconfig arrives"]
TRUSTED_EXTRA = _c12.TRUSTED_EXTRA

impl_run = _c12.impl_run
impl_view = _c12.impl_view
model_line = _c12.model_line
model_parse = _c12.model_parse
first_diff = _c12.first_diff
if hasattr(_c12, "views_equal"):
    views_equal = _c12.views_equal


def generate(rng, tier):
    n = 40 if tier == "quick" else 300
    out = []
    for i in range(n):
        out.append(_c12.gen_case(rng, wild=False, circus=(i % 2 == 0)))
    return out


def corpus():
    return []


def oracle(case, obs):
    if "harness_exception" in obs:
        return [{"sig": "harness-exception", "msg": obs["harness_exception"]}]
    fails = []
    for i, o in enumerate(obs["steps"]):
        if o.get("blocked"):
            fails.append({"sig": "c10:reload-hangs", "step": i, "msg": "reload #%d: the daemon hangs" % i})
            break
        if o.get("slot") is not None:
            fails.append({"sig": "c10:slot-held-at-rest", "step": i,
                          "msg": "after reload #%d and with no timer pending the slot still holds %r" % (i, o.get("slot"))})
            break
        if i >= 1 and o.get("reply") == "error" and str(o.get("reply_errno")) == "5":
            fails.append({"sig": "c10:refused-while-idle", "step": i,
                          "msg": "reload #%d was refused as conflicting although the previous operation had ended and no "
                                 "timer was pending: the daemon is wedged (log %r)" % (i, o.get("errors"))})
            break
    return fails


def nontrivial(case, obs):
    return len(case.get("versions", [])) >= 2


def stats(cases, impl):
    return {"reload_sequences": len(cases), "with_circus_section_edits": sum(1 for c in cases if c.get("family") == "circus"),
            "reloads": sum(max(0, len(c.get("versions", [])) - 1) for c in cases)}
