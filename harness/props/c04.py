from harness.corecheck import make
MODULE = make("C04", ["CircusProofs/Props/C04.lean"],
              ["CircusProofs/Core/Pres.lean", "CircusProofs/Core/KStep.lean", "CircusProofs/Core/Generic.lean",
               "CircusProofs/Core/SlotFree.lean", "CircusProofs/Core/PidInv.lean", "CircusProofs/Core/StoppedEmpty.lean"])
