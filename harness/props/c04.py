from harness.corecheck import make
MODULE = make("C04", ["CircusProofs/Props/C04.lean"], ["CircusProofs/Lemmas/Core.lean"])
