"""C06 (client half) — the client library returns from a call only the reply that bears that call's
id, discarding stale or foreign replies, and reports a timeout otherwise.

Correspondence: the REAL `CircusClient.call` (object built with `__new__`, zmq socket and poller
replaced by scripted fakes, `circus.client.uuid` scripted so that the call id is known) and the
REAL `AsyncCircusClient.call` (scripted fake ZMQStream, run on a private asyncio loop) against
`Circus.Client.call` / `asyncCall`.  A received frame is abstracted for the model with
`json.loads` itself (valid? object? `res.get('id')`), i.e. `json.loads` is a parameter.
Oracle: the client clause restated on what the real call returned / raised."""
import errno
import json

from harness.core import enc_cps

LEAN_PROPS = ["CircusProofs/Props/C06Client.lean"]
LEAN_LEMMAS = ["CircusProofs/Lemmas/Client.lean"]
RULE = ("cases = (call id, does send fail?, list of poll events: reply frame | timeout | EINTR | other ZMQError) for the "
        "sync client, list of multipart deliveries for the async client; frames: own id, stale id (earlier call), foreign "
        "string ids (prefix, upper-cased, empty), non-string ids (number, null, list, missing), duplicates of the own "
        "reply, valid JSON that is not an object, invalid JSON / invalid UTF-8; systematic block of all short event "
        "lists over a 7-letter alphabet, random block from VERIF_SEED; one case in four hands call() a re-used message "
        "dict that still carries an earlier id; non-trivial = at least one frame was discarded "
        "or an error path was taken; distinct by content hash")
ASSUMPTIONS = [
    "json.loads is a parameter: the harness classifies every frame with json.loads (invalid / non-object / object with "
    "id) and hands the class to the model; totality of json.loads (returns or raises ValueError) is assumed",
    "the zmq socket/poller (sync) and ZMQStream (async) are scripted fakes; real message transport, HWM and "
    "reconnection are not modelled",
    "when the scripted events are used up the real client would block in poll(): reported as 'pending'",
    "a JSON reply that is not an object makes both real clients raise AttributeError (kept as outcome 'attr'; "
    "'foreign reply' in the property is read as a JSON object with another id, DESIGN.md C06 / candidate F14)",
    "AsyncCircusClient.call has no timeout branch at all (self.timeout is never consulted): only the sync client can "
    "'report a timeout'",
]
CALL = "c0ffee00c0ffee00c0ffee00c0ffee00"
STALE = "0123456789abcdef0123456789abcdef"
ZMQ_MSG = "verif-scripted-zmq-error"


def _message(case):
    """the dict handed to call(): a re-used message dict still carries the id an earlier call wrote into it
    (call() writes the id into the caller's dict) — the new call must not take it over"""
    msg = {"command": "list", "properties": {}}
    if "preset" in case:
        msg["id"] = case["preset"]
    return msg


class _Spin(Exception):
    """the client keeps decoding without asking for more input: it will never return"""


class _JsonGuard(object):
    """stands for the `json` module inside circus.client: counts loads() so that a call that spins over the same
    messages for ever is cut short instead of hanging the check"""

    def __init__(self, limit):
        self.n, self.limit = 0, limit

    def __getattr__(self, name):
        return getattr(json, name)

    def loads(self, *a, **kw):
        self.n += 1
        if self.n > self.limit:
            raise _Spin("json.loads called %d times for %d frames" % (self.n, (self.limit - 50) // 4))
        return json.loads(*a, **kw)


def _guard_concurrent(real, limit):
    """stands for `tornado.concurrent` inside circus.client: a Future whose result is fetched again and again (a call that
    keeps waiting on a future that is already done never gives the loop a chance) is cut short"""
    counter = [0]

    class GuardFuture(real.Future):
        def result(self, *a, **kw):
            counter[0] += 1
            if counter[0] > limit:
                raise _Spin("a finished future was waited for %d times" % counter[0])
            return super().result(*a, **kw)

    class Proxy(object):
        Future = GuardFuture

        def __getattr__(self, name):
            return getattr(real, name)
    return Proxy()


class _Pending(Exception):
    """scripted events used up: the real client would keep waiting"""


# --------------------------------------------------------------------------- cases

def _obj(idv, missing=False):
    return {"f": "obj", "id": idv, "missing": missing}


OWN = _obj("CALL")
FOREIGN = [_obj(STALE), _obj(""), _obj("CALL-prefix"), _obj("CALL-upper"), _obj("CALL-plus"), _obj(5), _obj(None),
           _obj(None, missing=True), _obj(["CALL"]), _obj({"id": "CALL"}), _obj(True), _obj(0), _obj(1.5)]
NONOBJ = [{"f": "nonobj", "val": v} for v in ([], [1], 5, "CALL", None, True, 1.5, [{"id": "CALL"}])]
INVALID = [{"f": "raw", "hex": h} for h in (b"".hex(), b"{".hex(), b"nope".hex(), b"\xff\xfe".hex(),
                                            b'{"id": "c0ffee00c0ffee00c0ffee00c0ffee00"'.hex(), b"{'id': 1}".hex())]


def _sync(events, send_fails=False):
    return {"kind": "sync", "call_id": CALL, "send_fails": send_fails, "events": events}


def _async(batches):
    return {"kind": "async", "call_id": CALL, "batches": batches}


def _m(f):
    return ["m", f]


def generate(rng, tier):
    cases = []
    # systematic: every list of length <= 3 (4 in thorough) over a small alphabet
    alpha = [_m(OWN), _m(FOREIGN[0]), _m(FOREIGN[5]), _m(NONOBJ[0]), _m(INVALID[1]), ["t"], ["e"], ["p"]]
    import itertools
    for n in range(0, 4 if tier == "quick" else 5):
        for combo in itertools.product(alpha, repeat=n):
            cases.append(_sync([list(e) for e in combo]))
    frames_alpha = [OWN, FOREIGN[0], FOREIGN[7], NONOBJ[1], INVALID[0]]
    for n in range(0, 4):
        for combo in itertools.product(frames_alpha, repeat=n):
            cases.append(_async([[f] for f in combo]))
            if n >= 2:
                cases.append(_async([list(combo)]))
                cases.append(_async([[], list(combo[:1]), [], list(combo[1:])]))
    cases.append(_sync([_m(OWN)], send_fails=True))
    cases.append(_sync([], send_fails=True))
    # a re-used message dict: the id of an earlier call (or anything else) is already in it
    for preset in (STALE, "", 5, None):
        cases.append(dict(_sync([_m(_obj(STALE)), _m(OWN)]), preset=preset))
        cases.append(dict(_sync([_m(OWN), _m(_obj(STALE))]), preset=preset))
        cases.append(dict(_sync([_m(_obj(STALE)), ["t"]]), preset=preset))
        cases.append(dict(_async([[_obj(STALE), OWN]]), preset=preset))
        cases.append(dict(_async([[OWN], [_obj(STALE)]]), preset=preset))
    for f in FOREIGN + NONOBJ + INVALID:
        cases.append(_sync([_m(f), _m(OWN)]))
        cases.append(_sync([_m(f), ["t"]]))
        cases.append(_async([[f, OWN]]))
    N = 300 if tier == "quick" else 10000

    def rframe():
        r = rng.random()
        if r < 0.25:
            return OWN
        if r < 0.8:
            return rng.choice(FOREIGN)
        if r < 0.9:
            return rng.choice(NONOBJ)
        return rng.choice(INVALID)
    for _ in range(N):
        if rng.random() < 0.7:
            evs = []
            for _ in range(rng.randint(0, 8)):
                r = rng.random()
                evs.append(_m(rframe()) if r < 0.75 else ["e"] if r < 0.87 else ["t"] if r < 0.96 else ["p"])
            cases.append(_sync(evs, send_fails=rng.random() < 0.03))
        else:
            cases.append(_async([[rframe() for _ in range(rng.randint(0, 3))] for _ in range(rng.randint(0, 5))]))
        if rng.random() < 0.25:
            cases[-1]["preset"] = rng.choice([STALE, STALE, "", 5, None, "CALL-prefix"])
    return cases


def corpus():
    return [
        # test_client-style stale reply first, then the own one; duplicates of the own reply
        _sync([_m(_obj(STALE)), _m(OWN), _m(OWN)]),
        _sync([_m(_obj(STALE)), ["t"], _m(OWN)]),
        # candidate F14: valid JSON that is not an object
        _sync([_m(NONOBJ[0]), _m(OWN)]),
        _async([[NONOBJ[0], OWN]]),
        _async([[_obj(STALE)], [], [OWN, OWN]]),
    ]


# --------------------------------------------------------------------------- frames

def _id_value(case, spec):
    cid = case["call_id"]
    if spec == "CALL":
        return cid
    if spec == "CALL-prefix":
        return cid[:-1]
    if spec == "CALL-upper":
        return cid.upper()
    if spec == "CALL-plus":
        return cid + "0"
    if isinstance(spec, list):
        return [_id_value(case, x) for x in spec]
    if isinstance(spec, dict):
        return {k: _id_value(case, v) for k, v in spec.items()}
    return spec


def _raw(case, frame, n):
    """the bytes of frame number n"""
    if frame["f"] == "raw":
        return bytes.fromhex(frame["hex"])
    if frame["f"] == "nonobj":
        return json.dumps(_id_value(case, frame["val"])).encode()
    d = {"status": "ok", "n": n, "time": 1.0}
    if not frame.get("missing"):
        d["id"] = _id_value(case, frame["id"])
    return json.dumps(d).encode()


def _classify(raw):
    """what json.loads makes of the frame, in the model's vocabulary"""
    try:
        v = json.loads(raw)
    except ValueError:
        return "i"
    if not isinstance(v, dict):
        return "n:0"
    idv = v.get("id")
    if idv is None:
        ide = "m"
    elif isinstance(idv, str):
        ide = "s" + enc_cps(idv)
    else:
        ide = "x0"
    return "o:%s:%d" % (ide, v.get("n", 0))


def _numbered(case):
    """frames with their arrival index"""
    out = []
    n = 0
    if case["kind"] == "sync":
        for e in case["events"]:
            if e[0] == "m":
                out.append((e[1], n))
                n += 1
    else:
        for b in case["batches"]:
            for f in b:
                out.append((f, n))
                n += 1
    return out


# --------------------------------------------------------------------------- implementation side

class _FakeUuid(object):
    def __init__(self, hexid):
        self._hex = hexid

    def uuid4(self):
        fake = type("U", (), {})()
        fake.hex = self._hex
        return fake


def _result(fn, call_id):
    from circus.exc import CallError
    try:
        res = fn()
    except _Pending:
        return {"outcome": "pending"}
    except CallError as e:
        msg = str(e)
        return {"outcome": "timeout" if msg == "Timed out." else "callerror", "message": msg[:80]}
    except AttributeError as e:
        return {"outcome": "attr", "message": str(e)[:80]}
    except Exception as e:
        return {"outcome": "EXC:%s" % type(e).__name__, "message": str(e)[:80]}
    if not isinstance(res, dict):
        return {"outcome": "returned-nondict", "value": repr(res)[:80]}
    return {"outcome": "ok", "id": res.get("id"), "n": res.get("n"), "id_matches": res.get("id") == call_id}


def _run_sync(case):
    import io
    import contextlib
    import zmq
    import circus.client as cl
    numbered = iter(_numbered(case))
    events = list(case["events"])
    log = {"sent": [], "polled": [], "recv": 0}

    class FakeSocket(object):
        def send(self, data):
            log["sent"].append(data)
            if case["send_fails"]:
                raise zmq.ZMQError(errno.EHOSTUNREACH, ZMQ_MSG)

        def recv(self):
            log["recv"] += 1
            f, n = next(numbered)
            return _raw(case, f, n)

    sock = FakeSocket()

    class FakePoller(object):
        def poll(self, timeout):
            log["polled"].append(timeout)
            if not events:
                raise _Pending()
            e = events.pop(0)
            if e[0] == "t":
                return []
            if e[0] == "e":
                raise zmq.ZMQError(errno.EINTR)
            if e[0] == "p":
                raise zmq.ZMQError(errno.ENOTSOCK, ZMQ_MSG)
            return [(sock, zmq.POLLIN)]

    c = cl.CircusClient.__new__(cl.CircusClient)
    c.socket = sock
    c.poller = FakePoller()
    c._timeout = 5.0
    c.timeout = 5000.0
    c.endpoint = "tcp://127.0.0.1:5555"
    saved = cl.uuid
    cl.uuid = _FakeUuid(case["call_id"])
    try:
        with contextlib.redirect_stdout(io.StringIO()):
            obs = _result(lambda: c.call(_message(case)), case["call_id"])
    finally:
        cl.uuid = saved
    sent_ok = len(log["sent"]) == 1 and json.loads(log["sent"][0]).get("id") == case["call_id"]
    obs.update({"sent_ok": sent_ok, "frames_consumed": log["recv"],
                "poll_timeouts": sorted(set(log["polled"]))})
    return obs


_loop = None


def _run_async(case):
    import asyncio
    import circus.client as cl
    global _loop
    if _loop is None:
        _loop = asyncio.new_event_loop()
    numbered = _numbered(case)
    pos = [0]
    batches = list(case["batches"])
    log = {"sent": []}

    class FakeStream(object):
        def send(self, data, callback=None):
            log["sent"].append(data)
            if callback:
                callback(data, None)

        def on_recv(self, cb):
            if not batches:
                raise _Pending()
            b = batches.pop(0)
            frames = []
            for _ in b:
                f, n = numbered[pos[0]]
                pos[0] += 1
                frames.append(_raw(case, f, n))
            cb(frames)

    c = cl.AsyncCircusClient.__new__(cl.AsyncCircusClient)
    c.stream = FakeStream()
    c._timeout = 5.0
    c.timeout = 5000.0
    saved = cl.uuid
    saved_json = cl.json
    cl.uuid = _FakeUuid(case["call_id"])
    cl.json = _JsonGuard(4 * len(numbered) + 50)
    saved_conc = cl.concurrent
    cl.concurrent = _guard_concurrent(saved_conc, 4 * (len(numbered) + len(case["batches"])) + 50)

    async def runner():
        return await c.call(_message(case))
    try:
        obs = _result(lambda: _loop.run_until_complete(runner()), case["call_id"])
    finally:
        cl.uuid = saved
        cl.json = saved_json
        cl.concurrent = saved_conc
    obs["sent_ok"] = len(log["sent"]) == 1 and json.loads(log["sent"][0]).get("id") == case["call_id"]
    obs["frames_consumed"] = pos[0]
    return obs


def impl_run(case):
    return _run_sync(case) if case["kind"] == "sync" else _run_async(case)


def _id_enc(idv):
    if idv is None:
        return "m"
    if isinstance(idv, str):
        return "s" + enc_cps(idv)
    return "x0"


def impl_view(case, obs):
    if "harness_exception" in obs:
        return obs
    o = obs["outcome"]
    if o == "ok":
        return "ok %s %s" % (_id_enc(obs["id"]), obs["n"])
    if o == "callerror":
        # CallError(str(ValueError)) from json.loads, or CallError(str(ZMQError)): told apart by where it came from
        return "zmq" if _zmq_expected(case, obs) else "json"
    return o


def _zmq_expected(case, obs):
    """a CallError that is not the timeout: the scripted ZMQError's text vs. a JSON error text"""
    return obs.get("message", "") == ZMQ_MSG


# --------------------------------------------------------------------------- model side

def model_line(case):
    if case["kind"] == "sync":
        toks = ["client", "s", enc_cps(case["call_id"]), "1" if case["send_fails"] else "0"]
        n = 0
        for e in case["events"]:
            if e[0] == "m":
                toks.append(_classify(_raw(case, e[1], n)))
                n += 1
            else:
                toks.append(e[0])
        return " ".join(toks)
    toks = ["client", "a", enc_cps(case["call_id"])]
    n = 0
    for b in case["batches"]:
        fs = []
        for f in b:
            fs.append(_classify(_raw(case, f, n)))
            n += 1
        toks.append(",".join(fs) if fs else "-")
    return " ".join(toks)


def model_parse(case, line):
    return line


# --------------------------------------------------------------------------- oracle

def oracle(case, obs):
    if "harness_exception" in obs:
        return [{"sig": "client-harness-exception", "msg": obs["harness_exception"]}]
    fails = []
    cid = case["call_id"]
    o = obs["outcome"]
    if not obs.get("sent_ok"):
        fails.append({"sig": "client-request-without-id", "msg": "the request sent does not carry the call id"})
    if str(o).startswith("EXC:_Spin"):
        fails.append({"sig": "client-spins-without-returning", "msg": "the call neither returns its reply nor reports a timeout: %s"
                                                                       % obs.get("message")})
        return fails
    # arrival order as the client sees it, classified with json.loads
    seq = []
    n = 0
    if case["kind"] == "sync":
        if case["send_fails"]:
            if o != "callerror":
                fails.append({"sig": "client-send-error", "msg": "send failed but outcome %s" % o})
            return fails
        for e in case["events"]:
            if e[0] == "m":
                seq.append(("frame", _classify(_raw(case, e[1], n)), n))
                n += 1
            else:
                seq.append((e[0], None, None))
    else:
        for b in case["batches"]:
            for f in b:
                seq.append(("frame", _classify(_raw(case, f, n)), n))
                n += 1
    own = "o:s%s:" % enc_cps(cid)
    # only the reply that bears the call's id
    if o == "ok":
        if obs["id"] != cid:
            fails.append({"sig": "client-returned-foreign-reply", "msg": "call %s returned a reply with id %r (frame %s)"
                                                                      % (cid, obs["id"], obs["n"])})
        first_own = next((k for kind, c, k in seq if kind == "frame" and c.startswith(own)), None)
        if obs["id"] == cid and obs["n"] != first_own:
            fails.append({"sig": "client-not-first-match", "msg": "returned frame %s, first own reply is frame %s"
                                                                   % (obs["n"], first_own)})
    elif o == "returned-nondict":
        fails.append({"sig": "client-returned-foreign-reply", "msg": "returned %s" % obs.get("value")})
    elif o.startswith("EXC:"):
        fails.append({"sig": "client-unclean-exception", "msg": "call raised %s: %s" % (o[4:], obs.get("message"))})
    # what must happen when only well-formed foreign replies (and EINTR) precede the deciding event
    for kind, c, k in seq:
        if kind == "frame" and c.startswith("o:") and not c.startswith(own):
            continue                         # stale / foreign: discarded
        if kind == "e":
            continue
        if kind == "frame" and c.startswith(own):
            if o != "ok" or obs.get("n") != k:
                fails.append({"sig": "client-own-reply-not-returned",
                              "msg": "own reply (frame %d) preceded only by foreign replies, outcome %s" % (k, o)})
        elif kind == "t":
            if o != "timeout":
                fails.append({"sig": "client-timeout-not-reported", "msg": "poll timed out before any own reply, outcome %s" % o})
        break
    else:
        if o != "pending":
            fails.append({"sig": "client-answered-without-reply",
                          "msg": "only foreign replies arrived, yet the call ended with %s" % o})
    return fails[:3]


def nontrivial(case, obs):
    return obs.get("frames_consumed", 0) > 1 or obs.get("outcome") not in ("ok", "pending")


def stats(cases, impl):
    out = {}
    for c, o in zip(cases, impl):
        k = "%s %s" % (c["kind"], o.get("outcome"))
        out[k] = out.get(k, 0) + 1
    return {"outcomes": out,
            "max_events": max([len(c.get("events", c.get("batches", []))) for c in cases] or [0]),
            "attribute_error_on_non_object_reply": sum(1 for o in impl if o.get("outcome") == "attr")}
