"""C12 — reloadconfig converges to the file and disturbs only what changed.

Correspondence: a case is a sequence of versions of one configuration file.  The REAL daemon code
(`Arbiter.load_from_config`, `start_watchers`, then for every further version the file is rewritten
and the real `reloadconfig` command is sent through `Controller.handle_message`, i.e.
commands/reloadconfig.py -> `Arbiter.reload_from_config`) runs on the simulated kernel of
harness/sim.py (harness/reloadsim.py), workers being simulated processes; after the start and after
every reload the watchers are read off the arbiter: name, numprocesses, status, worker pids, `_cfg`.
The same texts go to the Lean model (driver op `reload run`: the Config model reads every text,
`Circus.Reload.cfgOf` builds the comparable dicts, `freshStart` + `reload` produce the states).  The
views are compared with pids renamed canonically (the code iterates Python sets, so which of two
watchers gets the smaller fresh pids depends on the hash seed): a pid is named by the step at which it
appeared, its watcher and its rank among that watcher's new pids.

Oracle: C12 restated on the implementation's observations alone: every version is also started FRESH
on the real code, and after each reload the daemon is compared with that fresh start (watcher names,
numprocesses, every option attribute of the Watcher objects, number of live workers); watchers whose
settings are the same in the previous and the new file must keep their pids, a numprocesses-only
change must keep the survivors, an unchanged file must cause no spawn and no signal; no worker may be
left outside every watcher.  It never consults the Lean model.
"""
import json
import os
from decimal import Decimal

from harness.core import enc_cps, dec_cps
from harness import reloadsim as R

LEAN_PROPS = ["CircusProofs/Props/C12.lean", "CircusProofs/Props/C12Arbiter.lean"]
LEAN_LEMMAS = ["CircusProofs/Lemmas/Reload.lean"]
RULE = ("case = controlled os.environ + 2-7 versions of one ini file: 2-6 watcher sections (names in mixed "
        "case, renamed by case between versions), numprocesses 0..4, cmd/args/working_dir, typed options that "
        "are keys of watcher_defaults (max_retry, graceful_timeout, priority, stop_signal, respawn, autostart, "
        "copy_env, ...), options that are not (max_age, close_child_*, check_flapping, shell_args, free-form), "
        "rlimit_*, an [env] section and [env:PATTERN] sections (with $VAR texts and the _ENV_EXCEPTIONS names); "
        "each next version = 1-3 edits of the previous one out of: add / remove a watcher, change numprocesses "
        "only, change cmd, add / change / drop an option, edit the environment, respell a value without changing "
        "its meaning, reorder sections, revert to an earlier version, or no edit at all; two families: 'tame' "
        "(only keys of watcher_defaults, numprocesses >= 1, respawn on) and 'wild' (everything); a few files "
        "with two names equal up to case; all choices from VERIF_SEED; non-trivial = a reload that keeps one "
        "watcher and changes another; distinct by content hash")
ASSUMPTIONS = [
    "the sockets are held fixed, and so is the [circus] section (C12 says so) except in the `circus` family (1 case in 20), where "
    "check_delay is edited: there the model's arbiter branch (restart everything, apply nothing, baseline never updated) is compared "
    "with the code and only the clauses that hold for every reload are judged; plugins are outside the modelled domain",
    "every worker obeys its stop signal at once and nothing dies by itself during a reload: a kill always ends "
    "with the death of the process, time is not modelled (the simulated kernel makes the clock tick 1 ms per "
    "spawn so that Process.started is strictly increasing in spawn order, as on a real machine)",
    "the comparable dicts are built by the Config model (C16 ties it to get_config); singleton, on_demand, "
    "use_sockets and hooks are off (the driver answers out-of-domain otherwise; stream options are in: class / filename lines, each valid alone), max_age is far "
    "above the virtual duration of a reload",
    "files in which two watcher names are equal up to letter case are outside the model (Arbiter.get_watcher "
    "looks names up in lower case and the outcome depends on the hash seed); the oracle still judges them",
    "the Python sets the code iterates are iterated in arbiter.watchers / file order by the model; views are "
    "compared up to the induced renaming of fresh pids",
    "the variables of _ENV_EXCEPTIONS (PS1, PROMPT_COMMAND, COMP_WORDBREAKS, __CF_USER_TEXT_ENCODING) are not "
    "counted as settings by the oracle: the code ignores them on purpose",
    "'same as a fresh start' is judged on: watcher names, numprocesses, the option attributes of the Watcher "
    "objects (Watcher.optnames and what __init__ stores besides), the number of live workers; not on the order "
    "of arbiter.watchers nor on the status word",
]
TRUSTED_EXTRA = [
    "harness/reloadsim.py: wiring of Arbiter.load_from_config to the simulated kernel (copy of what Sim.setup "
    "does for its own arbiter) and the canonical rendering of w._cfg values (canon_val), which must agree with "
    "Circus.Reload.render: Python == on None/bool/int/float/str/dict/list values iff equal text",
]

EXC = ("__CF_USER_TEXT_ENCODING", "PS1", "COMP_WORDBREAKS", "PROMPT_COMMAND")
FIRST_PID = 100


# --------------------------------------------------------------------------- files

def render(version):
    """the ini text of a version"""
    out = [R.HEAD.replace("check_delay = 5\n", "check_delay = %s\n" % version.get("check_delay", "5"))]
    if version.get("env"):
        out.append("[env]\n" + "".join("%s = %s\n" % (k, v) for k, v in version["env"]) + "\n")
    for name, opts in version["watchers"]:
        out.append("[watcher:%s]\n" % name + "".join("%s = %s\n" % (k, v) for k, v in opts) + "\n")
    for pat, kvs in version.get("envs", []):
        if kvs:
            out.append("[env:%s]\n" % pat + "".join("%s = %s\n" % (k, v) for k, v in kvs) + "\n")
    return "".join(out)


def texts_of(case):
    return [render(v) for v in case["versions"]]


def has_clash(version):
    low = [n.lower() for n, _ in version["watchers"]]
    return len(set(low)) != len(low)


def circus_changed_upto(case, i):
    """some version up to i has a [circus] section that differs (as get_config reads it) from the one the daemon was started
    with: from then on reloadconfig restarts everything and applies nothing (Arbiter._cfg is never brought up to date) —
    C12 holds the [circus] section fixed, so its clauses are not judged there"""
    base = float(case["versions"][0].get("check_delay", "5"))
    return any(float(v.get("check_delay", "5")) != base for v in case["versions"][: i + 1])


def clash_upto(case, i):
    return any(has_clash(v) for v in case["versions"][: i + 1])


# --------------------------------------------------------------------------- canonical view

def _lp(s):
    return "%d:%s" % (len(s), s)


def canon_num(v):
    if isinstance(v, bool):
        v = int(v)
    if isinstance(v, int):
        return "n%de0" % v
    d = Decimal(repr(float(v)))
    if d == 0:
        return "n0e0"
    sign, digits, exp = d.normalize().as_tuple()
    m = int("".join(map(str, digits)))
    if exp > 0:
        m *= 10 ** exp
        exp = 0
    return "n%s%de%d" % ("-" if sign else "", m, -exp)


def canon_val(v):
    """canonical text of a value of w._cfg: equal texts iff the values are == in Python
    (the Lean side: Circus.Reload.render / renderDict)"""
    if v is None:
        return "N"
    if isinstance(v, (bool, int, float)):
        return canon_num(v)
    if isinstance(v, str):
        return "s" + v
    if isinstance(v, dict):
        return "d" + "".join(_lp(k) + _lp(canon_val(v[k])) for k in sorted(v))
    if isinstance(v, (list, tuple)):
        return "l" + "".join(_lp(canon_val(x)) for x in v)
    return "?" + repr(v)


def canon_cfg(cfg):
    if not isinstance(cfg, dict):
        return {"np": None, "opts": {}, "env": {}}
    opts = {k: canon_val(v) for k, v in cfg.items() if k not in ("name", "numprocesses", "env")}
    return {"np": cfg.get("numprocesses"), "opts": opts, "env": dict(cfg.get("env") or {})}


def rename_pids(steps):
    """steps: list of lists of [name, np, active, pids, cfg] sorted by name -> pids replaced by labels"""
    label = {}
    out = []
    for t, ws in enumerate(steps):
        for w in ws:
            fresh = sorted(p for p in w[3] if p not in label)
            for r, p in enumerate(fresh):
                label[p] = "%d/%s/%d" % (t, w[0], r)
        out.append([[w[0], w[1], w[2], [label[p] for p in w[3]], w[4]] for w in ws])
    return out


def impl_view(case, obs):
    if "harness_exception" in obs:
        return obs
    if any(has_clash(v) for v in case["versions"]):
        return {"model": "out-of-domain"}
    steps = []
    for o in obs["steps"]:
        ws = [[w["name"], w["np"], w["status"] if w["status"] not in ("active", "stopped") else w["status"] == "active",
               list(w["pids"]), canon_cfg(w["cfg"])] for w in o["watchers"]]
        ws.sort(key=lambda w: w[0])
        steps.append(ws)
    # workers alive in the kernel that no watcher lists (the model has none: a stopped watcher's workers die)
    orphans = [len(set(o["live"]) - set(p for w in o["watchers"] for p in w["pids"])) for o in obs["steps"]]
    return {"steps": rename_pids(steps), "orphans": orphans}


# --------------------------------------------------------------------------- implementation side

def impl_run(case):
    texts = texts_of(case)
    steps = R.run_versions(case["environ"], texts)
    fresh = {}
    fl = []
    for t in texts:
        if t not in fresh:
            fresh[t] = R.fresh_start(case["environ"], t)
        fl.append(fresh[t])
    return {"steps": steps, "fresh": fl}


# --------------------------------------------------------------------------- model side

def model_line(case):
    from circus.util import to_signum
    toks = ["reload", "run", str(len(case["environ"]))]
    for k, v in case["environ"]:
        toks += [enc_cps(k), enc_cps(v)]
    sigs = []
    for v in case["versions"]:
        for _, opts in v["watchers"]:
            for k, val in opts:
                if k == "stop_signal" and val not in [s for s, _ in sigs]:
                    try:
                        r = to_signum(val)
                    except ValueError:
                        r = None
                    sigs.append((val, r))
    toks.append(str(len(sigs)))
    for s, r in sigs:
        toks += [enc_cps(s), "~" if r is None else str(int(r))]
    texts = texts_of(case)
    toks += [str(FIRST_PID), str(len(texts))] + [enc_cps(t) for t in texts]
    return " ".join(toks)


def _s(t):
    return "".join(map(chr, dec_cps(t)))


def model_parse(case, line):
    if not line.startswith("ok "):
        return {"model": line}
    t = line.split(" ")
    i = [1]

    def nxt():
        i[0] += 1
        return t[i[0] - 1]

    def pairs():
        return {_s(nxt()): _s(nxt()) for _ in range(int(nxt()))}
    steps = []
    for _ in range(int(nxt())):
        ws = []
        for _ in range(int(nxt())):
            name = _s(nxt())
            np_ = int(nxt())
            active = nxt() == "1"
            pids = [int(nxt()) for _ in range(int(nxt()))]
            cnp = int(nxt())
            opts = pairs()
            env = pairs()
            ws.append([name, np_, active, pids, {"np": cnp, "opts": opts, "env": env}])
        steps.append(ws)
    return {"steps": rename_pids(steps), "orphans": [0] * len(steps)}


def first_diff(case, mv, iv):
    if "steps" not in mv or "steps" not in iv:
        return {"model": mv if "steps" not in mv else "steps", "impl": iv if "steps" not in iv else "steps"}
    for t, (a, b) in enumerate(zip(mv["steps"], iv["steps"])):
        if a != b:
            for x, y in zip(a, b):
                if x != y:
                    for j, what in enumerate(["name", "numprocesses", "active", "pids", "cfg"]):
                        if x[j] != y[j]:
                            return {"step": t, "watcher": x[0], "field": what, "model": x[j], "impl": y[j]}
            return {"step": t, "model_names": [x[0] for x in a], "impl_names": [y[0] for y in b]}
    return {"model_steps": len(mv["steps"]), "impl_steps": len(iv["steps"]), "model_orphans": mv.get("orphans"),
            "impl_orphans": iv.get("orphans")}


# --------------------------------------------------------------------------- oracle

def _settings(w):
    """the effective settings of a watcher other than numprocesses"""
    a = dict(w["attrs"])
    a.pop("numprocesses", None)
    env = w.get("env")
    a["env"] = None if env is None else {k: v for k, v in env.items() if k not in EXC}
    return a


def _by_name(o):
    d = {}
    for w in o["watchers"]:
        d.setdefault(w["name"], []).append(w)
    return d


def _attr_of_option(k):
    if k.startswith("rlimit_"):
        return "rlimits"
    return k if k in R.ATTRS else "_options"


def _born(steps, i, name):
    """the earliest step since which the watcher called `name` at step i is the same Watcher object"""
    def oid(j):
        ws = [w for w in steps[j]["watchers"] if w["name"] == name]
        return ws[0].get("oid") if len(ws) == 1 else None
    cur = oid(i)
    j = i
    while j > 0 and cur is not None and oid(j - 1) == cur:
        j -= 1
    return j


def _spelled_out(pver, ver, name):
    """option lines present in exactly one of the two versions of the section"""
    a, b = _section(pver, name), _section(ver, name)
    if a is None or b is None:
        return set()
    return set(a) ^ set(b)


def _section(version, name):
    for n, opts in version["watchers"]:
        if n == name:
            return dict(opts)
    return None


def oracle(case, obs):
    if "harness_exception" in obs:
        return [{"sig": "c12:harness-exception", "msg": obs["harness_exception"]}]
    fails = []
    steps, fresh = obs["steps"], obs["fresh"]

    def fail(i, sig, msg):
        if clash_upto(case, i):
            sig = "c12:watcher-names-equal-up-to-case"
        fails.append({"sig": sig, "step": i, "msg": "reload #%d: %s" % (i, msg)})

    if len(steps) < len(case["versions"]):
        fail(len(steps) - 1, "c12:reload-blocked", "the daemon hangs")
    for i in range(1, len(steps)):
        o, prev, f, fprev = steps[i], steps[i - 1], fresh[i], fresh[i - 1]
        ver, pver = case["versions"][i], case["versions"][i - 1]
        if o.get("reply") != "ok" or o.get("raised") or o.get("blocked"):
            fail(i, "c12:reload-failed", "reply %r raised %r log %r" % (o.get("reply"), o.get("raised"), o.get("errors")))
        on, fn, pn, fpn = _by_name(o), _by_name(f), _by_name(prev), _by_name(fprev)
        if circus_changed_upto(case, i):
            # outside C12's quantifier: only what holds for every reload is judged (answered ok, nobody left behind)
            owned = set(p for w in o["watchers"] for p in w["pids"])
            if set(o["live"]) - owned:
                fail(i, "c12:orphan-worker", "alive but in no watcher: %r" % sorted(set(o["live"]) - owned))
            for w in o["watchers"]:
                if not set(w["pids"]) <= set(o["live"]):
                    fail(i, "c12:dead-worker-listed", "%s lists %r, alive are %r" % (w["name"], w["pids"], o["live"]))
            continue
        # -- the daemon runs exactly the watchers the file defines …
        want = sorted(n for n, _ in ver["watchers"])
        if sorted(w["name"] for w in f["watchers"]) != want:
            fail(i, "c12:fresh-start-watcher-set", "a fresh start runs %r, the file defines %r"
                 % (sorted(w["name"] for w in f["watchers"]), want))
        got = sorted(w["name"] for w in o["watchers"])
        if got != want:
            fail(i, "c12:watcher-set", "the daemon runs %r, the file defines %r" % (got, want))
        for name in want:
            if len(on.get(name, [])) != 1 or len(fn.get(name, [])) != 1:
                continue
            w, fw = on[name][0], fn[name][0]
            sec = _section(ver, name)
            # -- … with the numprocesses …
            try:
                filenp = max(0, int(sec.get("numprocesses", "1")))
            except ValueError:
                filenp = None
            if w["np"] != fw["np"] or (filenp is not None and w["np"] != filenp):
                fail(i, "c12:numprocesses", "%s has numprocesses %r, the file says %r (fresh start: %r)"
                     % (name, w["np"], filenp, fw["np"]))
            # -- … and options it specifies, the same as a fresh start
            sw, sf = _settings(w), _settings(fw)
            bad = sorted(k for k in sf if sw.get(k) != sf[k])
            born = _born(steps, i, name)               # the step at which this Watcher object was made
            bsec = _section(case["versions"][born], name)
            if bad:
                flipped = set()
                if bsec is not None:
                    flipped = set(_attr_of_option(k) for k in set(bsec) ^ set(sec))
                if born < i and set(bad) <= flipped:
                    fail(i, "c12:option-line-added-or-removed-is-ignored",
                         "%s: option line(s) for %s were added to / dropped from the section since the watcher was "
                         "made (version %d); the daemon keeps %r, a fresh start gives %r"
                         % (name, bad, born, {k: sw.get(k) for k in bad}, {k: sf[k] for k in bad}))
                else:
                    fail(i, "c12:options", "%s: %s differ from a fresh start: daemon %r, fresh %r"
                         % (name, bad, {k: sw.get(k) for k in bad}, {k: sf[k] for k in bad}))
            if len(w["pids"]) != len(fw["pids"]):
                bw = [x for x in steps[born]["watchers"] if x["name"] == name]
                if (w["status"] == "stopped" and fw["status"] == "active" and born < i and bw and bw[0]["np"] == 0
                        and bw[0]["status"] == "stopped"):
                    fail(i, "c12:numprocesses-raised-from-zero-starts-nothing",
                         "%s was made with numprocesses 0 (version %d; its start was abandoned), the file now says %d: "
                         "the daemon runs %d workers, a fresh start %d"
                         % (name, born, fw["np"], len(w["pids"]), len(fw["pids"])))
                elif w["attrs"].get("respawn") is False and len(w["pids"]) < len(fw["pids"]):
                    fail(i, "c12:respawn-off-numprocesses-raise-adds-nothing",
                         "%s (respawn off): %d workers, a fresh start runs %d" % (name, len(w["pids"]), len(fw["pids"])))
                else:
                    fail(i, "c12:process-count", "%s runs %d workers, a fresh start runs %d"
                         % (name, len(w["pids"]), len(fw["pids"])))
            if not set(w["pids"]) <= set(o["live"]):
                fail(i, "c12:dead-worker-listed", "%s lists %r, alive are %r" % (name, w["pids"], o["live"]))
            # -- a worker spawned by this reload gets the command line and environment the file specifies
            if fw["pids"]:
                fenv = f["spawn_env"].get(str(fw["pids"][0]))
                fargs = f["spawn_args"].get(str(fw["pids"][0]))
                for p in w["pids"]:
                    if p not in o["spawned"]:
                        continue
                    env = o["spawn_env"].get(str(p))
                    if o["spawn_args"].get(str(p)) != fargs:
                        fail(i, "c12:new-worker-command", "%s: worker %d was spawned as %r, a fresh start spawns %r"
                             % (name, p, o["spawn_args"].get(str(p)), f["spawn_args"].get(str(fw["pids"][0]))))
                    if env != fenv:
                        # the _ENV_EXCEPTIONS names count only while the file has not changed them since the
                        # watcher was made (a change of them is ignored by the code on purpose)
                        benv = None
                        bf = [x for x in fresh[born]["watchers"] if x["name"] == name]
                        if bf and bf[0]["pids"]:
                            benv = fresh[born]["spawn_env"].get(str(bf[0]["pids"][0]))
                        ks = sorted(k for k in set(env or {}) | set(fenv or {}) if (env or {}).get(k) != (fenv or {}).get(k)
                                    and not (k in EXC and (benv or {}).get(k) != (fenv or {}).get(k)))
                        if ks and set(ks) <= set(EXC):
                            fail(i, "c12:env-exceptions-deleted-from-live-env",
                                 "%s: worker %d spawned by this reload got %r for %s; the file says %r and has said so "
                                 "since the watcher was made" % (name, p, {k: (env or {}).get(k) for k in ks}, ks,
                                                                {k: (fenv or {}).get(k) for k in ks}))
                        elif ks:
                            fail(i, "c12:new-worker-environment", "%s: worker %d got %r for %s, a fresh start gives %r"
                                 % (name, p, {k: (env or {}).get(k) for k in ks}, ks, {k: (fenv or {}).get(k) for k in ks}))
        # -- nobody is left behind
        owned = set(p for w in o["watchers"] for p in w["pids"])
        if set(o["live"]) - owned:
            fail(i, "c12:orphan-worker", "alive but in no watcher: %r" % sorted(set(o["live"]) - owned))
        # -- unchanged watchers keep their pids; numprocesses alone adds / removes the difference
        all_same = sorted(pn) == sorted(on) == sorted(fn) == sorted(fpn)
        for name in want:
            if not (len(on.get(name, [])) == 1 and len(pn.get(name, [])) == 1
                    and len(fn.get(name, [])) == 1 and len(fpn.get(name, [])) == 1):
                all_same = False
                continue
            w, pw, fw, fpw = on[name][0], pn[name][0], fn[name][0], fpn[name][0]
            if _settings(fw) != _settings(fpw):
                all_same = False
                continue
            if fw["np"] == fpw["np"]:
                if w["pids"] != pw["pids"]:
                    if _spelled_out(pver, ver, name):
                        fail(i, "c12:option-line-that-changes-no-setting-restarts-watcher",
                             "%s: the line(s) %s were added / dropped but every setting (as a fresh start builds it) is "
                             "the same in both files; its pids went from %r to %r"
                             % (name, sorted(_spelled_out(pver, ver, name)), pw["pids"], w["pids"]))
                    else:
                        fail(i, "c12:unchanged-watcher-disturbed", "%s has the same settings in both files, its pids "
                             "went from %r to %r" % (name, pw["pids"], w["pids"]))
            else:
                all_same = False
                old, new = pw["pids"], w["pids"]
                if fw["np"] >= len(old):
                    ok = set(old) <= set(new) and len(new) - len(old) <= fw["np"] - len(old)
                else:
                    ok = set(new) <= set(old) and len(new) >= fw["np"]
                if not ok and _spelled_out(pver, ver, name):
                    fail(i, "c12:option-line-that-changes-no-setting-restarts-watcher",
                         "%s: numprocesses %d -> %d and the line(s) %s added / dropped, no other setting differs; pids "
                         "went from %r to %r" % (name, fpw["np"], fw["np"], sorted(_spelled_out(pver, ver, name)), old, new))
                elif not ok:
                    fail(i, "c12:numprocesses-change-disturbed-workers",
                         "%s: only numprocesses changed (%d -> %d), pids went from %r to %r"
                         % (name, fpw["np"], fw["np"], old, new))
        # -- reloading an unchanged file does nothing
        if all_same and (o.get("spawned") or o.get("signalled")):
            if any(_spelled_out(pver, ver, n) for n in want):
                fail(i, "c12:option-line-that-changes-no-setting-restarts-watcher",
                     "no setting differs between the two files, yet spawned %r signalled %r"
                     % (o.get("spawned"), o.get("signalled")))
            else:
                fail(i, "c12:noop-reload-disturbed", "no setting differs between the two files, yet spawned %r "
                     "signalled %r" % (o.get("spawned"), o.get("signalled")))
        if o.get("stable_under_check") is False:
            fail(i, "c12:unstable-under-periodic-check", "the next periodic check changes the workers again")
    # one failure per cause is enough
    seen, out = set(), []
    for f in fails:
        if f["sig"] not in seen:
            seen.add(f["sig"])
            out.append(f)
    return out


def shrink(case, failure):
    i = failure.get("step")
    if i is None:
        return case
    c = dict(case, versions=case["versions"][: i + 1])
    # drop leading versions while the same cause is still reported
    while len(c["versions"]) > 2:
        c2 = dict(c, versions=c["versions"][1:])
        if any(f["sig"] == failure["sig"] for f in oracle(c2, impl_run(c2))):
            c = c2
        else:
            break
    return c


# --------------------------------------------------------------------------- generator

NAMES = ["web", "Web2", "api", "API-x", "worker.b", "db", "Job_7", "x", "Cron", "mail", "WEB", "Api", "DB"]
CMDS = ["worker --name %s", "worker --name %s --v2", "/usr/bin/app %s -c 1", "run-%s"]

# keys of watcher_defaults(): present in every comparable dict
DEFAULT_KEYS = {
    "args": ["-a", "-b 1", "--port 8080"],
    "working_dir": ["/srv/a", "/srv/b"],
    "warmup_delay": ["0", "1"],
    "max_retry": ["5", "3", "7"],
    "graceful_timeout": ["30", "30.0", "5", "0.5", "2.50"],
    "priority": ["0", "1", "5"],
    "stop_signal": ["TERM", "15", "INT", "SIGQUIT", "2"],
    "stop_children": ["true", "false", "yes", "0"],
    "send_hup": ["true", "false", "on"],
    "shell": ["true", "false"],
    "copy_env": ["true", "false", "True", "no"],
    "respawn": ["true", "yes", "1"],
    "autostart": ["true", "false", "on", "off"],
}
# keys that are not: present only when the section has the line
EXTRA_KEYS = {
    "max_age": ["100000", "200000"],
    "max_age_variance": ["0", "1"],
    "close_child_stdout": ["true", "false"],
    "close_child_stderr": ["true", "false", "yes"],
    "close_child_stdin": ["true", "false"],
    "check_flapping": ["true", "false"],
    "shell_args": ["-x", "-e -u"],
    "color": ["red", "blue"],
    "rlimit_nofile": ["100", "200"],
    "rlimit_core": ["0", "10"],
    # stream options: `stdout_stream.k = v` lines land in the nested dict cfg['stdout_stream'] that DictDiffer compares as a
    # whole; the Watcher must keep its own copy (get_stream pops `class` from the dict it is given)
    "stdout_stream.class": ["StdoutStream", "FancyStdoutStream"],
    "stdout_stream.filename": ["/dev/null", "/dev/full"],
    "stderr_stream.class": ["StdoutStream", "FancyStdoutStream"],
    "stderr_stream.filename": ["/dev/null", "/dev/full"],
}
ENV_KEYS = ["A", "B", "PS1", "PROMPT_COMMAND", "Mode", "PATH2"]
ENV_VALS = ["1", "2", "x y", "$HOME/bin", "pre-$USERX-post", " padded ", "/opt"]
TRUE_WORDS = ["true", "yes", "on", "1", "True", "YES"]
FALSE_WORDS = ["false", "no", "off", "0", "False", "Off"]
SAME = [["30", "30.0", "30.00"], ["5", "5.0", "05"], ["0.5", ".5", "0.50"], ["2.50", "2.5"], ["TERM", "15", "SIGTERM", "term"],
        ["INT", "2", "sigint"], ["SIGQUIT", "3", "quit"], ["3", "03"], ["7", "07", "+7"], ["0", "00"], ["1", "01"]]
BOOL_KEYS = ("stop_children", "send_hup", "shell", "copy_env", "respawn", "autostart", "close_child_stdout",
             "close_child_stderr", "close_child_stdin", "check_flapping")


def _respell(rng, k, val):
    """another text with the same meaning for option k, or None"""
    if k in BOOL_KEYS:
        for words in (TRUE_WORDS, FALSE_WORDS):
            if val in words:
                return rng.choice([x for x in words if x != val])
        return None
    if k in ("graceful_timeout", "stop_signal", "max_retry", "priority", "warmup_delay"):
        if k != "stop_signal" and not val.replace(".", "").replace("+", "").isdigit():
            return None
        for grp in SAME:
            if val in grp and (k == "stop_signal") == (grp[0] in ("TERM", "INT", "SIGQUIT")):
                alts = [x for x in grp if x != val and (k == "graceful_timeout" or "." not in x)]
                return rng.choice(alts) if alts else None
    return None


def _free_name(rng, version):
    used = set(n.lower() for n, _ in version["watchers"])
    cand = [n for n in NAMES if n.lower() not in used]
    return rng.choice(cand) if cand else None


def _new_watcher(rng, name, wild):
    opts = [["cmd", rng.choice(CMDS) % name]]
    lo = 0 if wild else 1
    if rng.random() < 0.85:
        opts.append(["numprocesses", str(rng.randint(lo, 4))])
    for k in rng.sample(sorted(DEFAULT_KEYS), rng.randint(0, 3)):
        opts.append([k, rng.choice(DEFAULT_KEYS[k])])
    if wild:
        for k in rng.sample(sorted(EXTRA_KEYS), rng.randint(0, 2)):
            opts.append([k, rng.choice(EXTRA_KEYS[k])])
        if rng.random() < 0.12:
            opts = [o for o in opts if o[0] != "respawn"] + [["respawn", rng.choice(["false", "no"])]]
    rng.shuffle(opts)
    return [name, opts]


def _copy(v):
    return json.loads(json.dumps(v))


def _edit(rng, versions, wild, circus=False):
    """the next version: 1-3 edits of the last one"""
    v = _copy(versions[-1])
    kinds = ["noop", "np", "np", "np", "cmd", "opt", "opt", "env", "add", "remove", "respell", "reorder", "revert",
             "casename", "envsec"]
    if wild:
        kinds += ["extra", "extra", "zero", "respawn"]
    if circus:
        kinds += ["circus"] * 4
    done = []
    for _ in range(rng.choice([1, 1, 1, 2, 2, 3])):
        kind = rng.choice(kinds)
        ws = v["watchers"]
        w = rng.choice(ws) if ws else None
        od = dict((k, i) for i, (k, _) in enumerate(w[1])) if w else {}
        if kind == "noop":
            pass
        elif kind == "circus":
            # the arbiter part of reload_from_config: another text for check_delay (same number or another one)
            v["check_delay"] = rng.choice(["5", "5.0", "05", "6", "6.0", "7", "2.5"])
        elif kind == "revert" and len(versions) >= 2:
            v = _copy(rng.choice(versions[:-1]))
        elif kind in ("np", "zero") and w:
            cur = w[1][od["numprocesses"]][1] if "numprocesses" in od else "1"
            choices = [str(n) for n in range(0 if wild else 1, 5) if str(n) != cur]
            new = "0" if kind == "zero" else rng.choice(choices)
            if "numprocesses" in od:
                w[1][od["numprocesses"]][1] = new
            else:
                w[1].append(["numprocesses", new])
        elif kind == "cmd" and w:
            w[1][od["cmd"]][1] = rng.choice([c for c in CMDS if c % w[0] != w[1][od["cmd"]][1]]) % w[0]
        elif kind in ("opt", "extra") and w:
            menu = DEFAULT_KEYS if kind == "opt" else EXTRA_KEYS
            k = rng.choice(sorted(menu))
            if k == "respawn" and not wild:
                continue
            if k in od:
                if rng.random() < 0.35:
                    del w[1][od[k]]
                else:
                    w[1][od[k]][1] = rng.choice(menu[k])
            else:
                w[1].insert(rng.randint(0, len(w[1])), [k, rng.choice(menu[k])])
        elif kind == "respawn" and w:
            if "respawn" in od:
                del w[1][od["respawn"]]
            else:
                w[1].append(["respawn", "false"])
        elif kind == "respell" and w:
            cands = [(j, alt) for j, (k, val) in enumerate(w[1]) for alt in [_respell(rng, k, val)] if alt]
            if cands:
                j, alt = rng.choice(cands)
                w[1][j][1] = alt
        elif kind == "reorder":
            rng.shuffle(ws)
            if w:
                rng.shuffle(w[1])
        elif kind == "add" and len(ws) < 6:
            n = _free_name(rng, v)
            if n:
                ws.insert(rng.randint(0, len(ws)), _new_watcher(rng, n, wild))
        elif kind == "remove" and len(ws) > 1:
            ws.remove(w)
        elif kind == "casename" and w:
            alt = [n for n in NAMES if n.lower() == w[0].lower() and n != w[0]]
            if alt:
                w[0] = rng.choice(alt)
        elif kind == "env":
            e = v.setdefault("env", [])
            if e and rng.random() < 0.3:
                e.pop(rng.randrange(len(e)))
            elif e and rng.random() < 0.5:
                e[rng.randrange(len(e))][1] = rng.choice(ENV_VALS)
            else:
                k = rng.choice(ENV_KEYS)
                if k not in [x[0] for x in e]:
                    e.append([k, rng.choice(ENV_VALS)])
        elif kind == "envsec":
            es = v.setdefault("envs", [])
            if es and rng.random() < 0.4:
                es.pop(rng.randrange(len(es)))
            elif es and rng.random() < 0.5:
                s = rng.choice(es)
                s[1] = [[rng.choice(ENV_KEYS[:5]), rng.choice(ENV_VALS)]]
            elif w:
                pat = rng.choice([w[0], "*", w[0][:1] + "*", w[0] + ",nosuch", "[a-z]*"])
                if pat not in [x[0] for x in es]:
                    es.append([pat, [[rng.choice(ENV_KEYS[:5]), rng.choice(ENV_VALS)]]])
        done.append(kind)
    return v, done


def gen_case(rng, wild, circus=False):
    environ = [["PATH", "/usr/bin:/bin"], ["HOME", "/home/u"], ["LANG", "C"]]
    if rng.random() < 0.5:
        environ.append(["PS1", "$ "])
    v0 = {"env": [], "envs": [], "watchers": []}
    for _ in range(rng.randint(2, 6)):
        n = _free_name(rng, v0)
        v0["watchers"].append(_new_watcher(rng, n, wild))
    if rng.random() < 0.5:
        for k in rng.sample(ENV_KEYS, rng.randint(1, 3)):
            v0["env"].append([k, rng.choice(ENV_VALS)])
    versions = [v0]
    edits = []
    for _ in range(rng.randint(1, 6)):
        v, done = _edit(rng, versions, wild, circus)
        versions.append(v)
        edits.append(done)
    if circus:
        # one more reload of the last file: a daemon that a restart-everything left wedged refuses it
        versions.append(_copy(versions[-1]))
        edits.append(["noop"])
    return {"environ": environ, "versions": versions, "edits": edits,
            "family": "circus" if circus else "wild" if wild else "tame"}


def gen_clash(rng):
    c = gen_case(rng, False)
    v = c["versions"][rng.randrange(len(c["versions"]))]
    n = v["watchers"][0][0]
    twin = n.upper() if n.upper() != n else n.lower()
    if twin == n:
        twin = n + "x"
    v["watchers"].append(_new_watcher(rng, twin, False))
    c["family"] = "clash"
    return c


def generate(rng, tier):
    n = 300 if tier == "quick" else 1500      # thorough: core.py runs this once per worker process (x14)
    out = []
    for i in range(n):
        r = i % 20
        if r == 19:
            out.append(gen_clash(rng))
        elif r == 18:
            out.append(gen_case(rng, wild=False, circus=True))
        else:
            out.append(gen_case(rng, wild=(r % 2 == 1)))
    return out


def corpus():
    d = os.path.join(os.path.dirname(os.path.dirname(os.path.dirname(os.path.abspath(__file__)))), "corpus", "C12")
    out = []
    if os.path.isdir(d):
        for fn in sorted(os.listdir(d)):
            if fn.endswith(".json"):
                c = json.load(open(os.path.join(d, fn)))
                out.append(c.get("case", c))
    return out


# --------------------------------------------------------------------------- evidence

def nontrivial(case, obs):
    if "steps" not in obs:
        return False
    for i in range(1, len(obs["steps"])):
        a = {w["name"]: w["pids"] for w in obs["steps"][i - 1]["watchers"]}
        b = {w["name"]: w["pids"] for w in obs["steps"][i]["watchers"]}
        kept = any(n in b and b[n] == a[n] and a[n] for n in a)
        moved = any(n not in b or b[n] != a[n] for n in a) or any(n not in a for n in b)
        if kept and moved:
            return True
    return False


def stats(cases, impl):
    kinds = {}
    for c in cases:
        for e in c.get("edits", []):
            for k in e:
                kinds[k] = kinds.get(k, 0) + 1
    reloads = sum(len(c["versions"]) - 1 for c in cases)
    outcomes = {"kept": 0, "resized": 0, "replaced": 0, "added": 0, "removed": 0}
    for c, o in zip(cases, impl):
        if "steps" not in o:
            continue
        for i in range(1, len(o["steps"])):
            a = {w["name"]: w for w in o["steps"][i - 1]["watchers"]}
            b = {w["name"]: w for w in o["steps"][i]["watchers"]}
            for n in b:
                if n not in a:
                    outcomes["added"] += 1
                elif a[n]["pids"] == b[n]["pids"]:
                    outcomes["kept"] += 1
                elif set(a[n]["pids"]) & set(b[n]["pids"]) or not a[n]["pids"] or not b[n]["pids"]:
                    outcomes["resized"] += 1
                else:
                    outcomes["replaced"] += 1
            outcomes["removed"] += sum(1 for n in a if n not in b)
    return {"families": {f: sum(1 for c in cases if c.get("family") == f) for f in ("tame", "wild", "clash", "corpus")},
            "reloads": reloads, "edit_kinds": kinds, "watcher_outcomes": outcomes,
            "versions_per_case": {str(k): sum(1 for c in cases if len(c["versions"]) == k) for k in range(2, 8)}}
