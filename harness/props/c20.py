"""C20 — FileStream rotation.  Correspondence: real circus.stream.file_stream.FileStream in a
scratch directory vs Circus.FileStream.call; oracle: size / count / tail / prefix / plain append
restated over the files the implementation left on disk."""
import os
import shutil
import tempfile

from harness.core import enc_cps, enc_opt, dec_cps, dec_opt

LEAN_PROPS = ["CircusProofs/Props/C20.lean"]
LEAN_LEMMAS = ["CircusProofs/Lemmas/FileStream.lean"]
RULE = ("cases = (max_bytes, backup_count, pre-existing active file and backups .1...K with gaps, "
        "sequence of writes with optional time_format prefix); ASCII payloads; generated from "
        "VERIF_SEED plus a small exhaustive block; non-trivial = at least one rollover happened "
        "or a prefix was applied; distinct by content hash")
ASSUMPTIONS = [
    "payloads are ASCII text (bytes on disk = characters; the code compares tell()+len(raw_data)), or — a quarter of the cases — "
    "UTF-8 bytes with multi-byte characters as the Redirector delivers them (the case then carries the byte string, so every "
    "length is a byte count on both sides)",
    "strftime is a parameter: the formatted prefix '{time} [{pid}] | ' is handed to the model",
    "the directory is private to the stream (no concurrent external rotation)",
    "TimedRotatingFileStream / WatchedFileStream are not modelled (C20 names FileStream)",
]
SCRATCH = os.environ.get("VERIF_SCRATCH", "/dev/shm")
ALPH = "ab \nxyz01"


def _rand_text(rng, n):
    return "".join(rng.choice(ALPH) for _ in range(n))


def gen_case(rng, big=False):
    mb = rng.choice([0, 0, 1, 2, 3, 4, 5, 6, 8, 10, 16]) if not big else rng.randint(0, 64)
    n = rng.choice([0, 1, 1, 2, 2, 3, 4])
    k = n + rng.choice([0, 0, 1, 2])
    active0 = _rand_text(rng, rng.choice([0, 0, 1, 2, 3, 5, 9]))
    backups = [(_rand_text(rng, rng.randint(0, 4)) if rng.random() < 0.45 else None) for _ in range(k)]
    if rng.random() < 0.3:
        backups = [None] * k
    writes = []
    use_fmt = rng.random() < 0.25
    for _ in range(rng.randint(1, 9 if not big else 30)):
        hi = max(1, (mb - 1) if (mb > 1 and rng.random() < 0.8) else mb + 2)
        data = _rand_text(rng, rng.randint(0, min(hi, 12 if not big else 40)))
        fmt = rng.choice(["T", "%%", "t=%Y", ""]) if use_fmt else None      # "" is a format too (an empty ini value)
        writes.append({"data": data, "fmt": fmt, "pid": rng.choice([1, 42, 31337]),
                       "ts": rng.choice([0, 86400 * 365, 1700000000])})
    c = {"mb": mb, "n": n, "k": k, "active0": active0, "backups": backups, "writes": writes,
         "reopen_at": rng.choice([None, None, rng.randint(0, len(writes))])}
    if rng.random() < 0.25:
        # what the Redirector delivers: bytes.  Payloads with two- and three-byte UTF-8 characters; the case keeps every
        # payload as the text whose characters are those BYTES (latin-1 view), so that lengths are byte counts everywhere
        c["as_bytes"] = True
        for w in writes:
            t = "".join(rng.choice(["\u00e9", "\u20ac", "\u00fc"]) if (ch != "\n" and rng.random() < 0.4) else ch for ch in w["data"])
            b = t.encode("utf8")
            hi = max(1, (mb - 1) if mb > 1 else mb + 2)
            while len(b) > max(hi, 3) and len(t) > 1:          # keep single writes below max_bytes as before
                t = t[:-1]
                b = t.encode("utf8")
            w["data"] = b.decode("latin-1")
    return c


def generate(rng, tier):
    cases = []
    # small exhaustive block: every (mb, n) in a grid with a fixed write pattern
    for mb in range(0, 6):
        for n in range(0, 4):
            cases.append({"mb": mb, "n": n, "k": n + 1, "active0": "zz", "backups": [None, "q"][: n + 1] + [None] * max(0, n - 1),
                          "writes": [{"data": d, "fmt": None, "pid": 1, "ts": 0} for d in ["a", "bc", "", "def\n", "g"]],
                          "reopen_at": 2})
    for c in cases:
        c["backups"] = (c["backups"] + [None] * c["k"])[: c["k"]]
    N = 300 if tier == "quick" else 6000
    for i in range(N):
        cases.append(gen_case(rng, big=(i % 5 == 4)))
    return cases


def corpus():
    return [
        # gaps in pre-existing backups (the case a "nice" recursive shift gets wrong, DESIGN 3.4)
        {"mb": 4, "n": 3, "k": 4, "active0": "abc", "backups": ["x", None, "c", "keep"],
         "writes": [{"data": "de", "fmt": None, "pid": 1, "ts": 0}, {"data": "fgh", "fmt": None, "pid": 1, "ts": 0}],
         "reopen_at": None},
        {"mb": 5, "n": 1, "k": 2, "active0": "", "backups": [None, None],
         "writes": [{"data": "a\nb\n\n", "fmt": "T", "pid": 7, "ts": 0}], "reopen_at": None},
    ]


def _prefix(w):
    if w["fmt"] is None:
        return None
    from datetime import datetime
    return "%s [%s] | " % (datetime.fromtimestamp(w["ts"]).strftime(w["fmt"]), w["pid"])


def _snapshot(fn, k, as_bytes=False):
    def rd(p):
        if not os.path.exists(p):
            return None
        with open(p, "rb") as fh:
            return fh.read().decode("latin-1") if as_bytes else fh.read().decode("utf8", "replace")
    return {"active": rd(fn) or "", "backups": [rd("%s.%d" % (fn, i)) for i in range(1, k + 1)]}


def impl_run(case):
    from circus.stream.file_stream import FileStream
    d = tempfile.mkdtemp(prefix="verif-c20-", dir=SCRATCH)
    try:
        fn = os.path.join(d, "out.log")
        with open(fn, "w") as fh:
            fh.write(case["active0"])
        for i, b in enumerate(case["backups"], 1):
            if b is not None:
                with open("%s.%d" % (fn, i), "w") as fh:
                    fh.write(b)
        steps = []
        streams = {}

        def stream_for(fmt):
            # one FileStream object per time_format (time_format is a constructor argument)
            if fmt not in streams:
                streams[fmt] = FileStream(filename=fn, max_bytes=case["mb"], backup_count=case["n"],
                                          time_format=fmt)
            return streams[fmt]
        fmt0 = case["writes"][0]["fmt"] if case["writes"] else None
        for j, w in enumerate(case["writes"]):
            s = stream_for(fmt0)
            if case.get("reopen_at") == j:
                s.close()
                s.open()
            data = w["data"].encode("latin-1") if case.get("as_bytes") else w["data"]
            s({"data": data, "pid": w["pid"], "name": "stdout", "timestamp": w["ts"]})
            steps.append(_snapshot(fn, case["k"], bool(case.get("as_bytes"))))
        for s in streams.values():
            s.close()
        return {"steps": steps}
    finally:
        shutil.rmtree(d, ignore_errors=True)


def _w_prefix(case, w):
    # the stream is built once with the first write's format
    fmt0 = case["writes"][0]["fmt"]
    return _prefix(dict(w, fmt=fmt0))


def model_line(case):
    toks = ["fs", str(case["mb"]), str(case["n"]), str(case["k"]), enc_cps(case["active0"])]
    toks += [enc_opt(b) for b in case["backups"]]
    toks.append(str(len(case["writes"])))
    for w in case["writes"]:
        toks += [enc_opt(_w_prefix(case, w)), enc_cps(w["data"])]
    return " ".join(toks)


def model_parse(case, line):
    if line == "bad-op":
        return {"bad": True}
    steps = []
    for part in line.split(";"):
        t = part.split(" ")
        steps.append({"active": "".join(map(chr, dec_cps(t[0]))),
                      "backups": [None if x == "~" else "".join(map(chr, dec_cps(x))) for x in t[1:]]})
    return {"steps": steps}


def impl_view(case, obs):
    return {"steps": obs.get("steps")} if "steps" in obs else obs


def _retained(n, snap):
    out = ""
    for i in range(n, 0, -1):
        b = snap["backups"][i - 1] if i - 1 < len(snap["backups"]) else None
        out += b or ""
    return out + snap["active"]


def oracle(case, obs):
    fails = []
    if "steps" not in obs:
        return [{"sig": "filestream-raises", "msg": "FileStream raised: %s" % obs.get("harness_exception")}]
    mb, n, k = case["mb"], case["n"], case["k"]
    init = {"active": case["active0"], "backups": case["backups"]}
    written = ""
    fmt0 = case["writes"][0]["fmt"] if case["writes"] else None
    all_small = True
    for j, (w, snap) in enumerate(zip(case["writes"], obs["steps"])):
        pre = _w_prefix(case, w)
        all_small = all_small and len(w["data"]) < mb
        # size
        if mb > 0 and n >= 1 and fmt0 is None and all_small and len(snap["active"]) >= mb:
            fails.append({"sig": "size", "step": j, "msg": "active file reached max_bytes: %d >= %d" % (len(snap["active"]), mb)})
        # count: nothing beyond n touched
        for i in range(n + 1, k + 1):
            if snap["backups"][i - 1] != case["backups"][i - 1]:
                fails.append({"sig": "count", "step": j, "msg": "backup .%d beyond backup_count=%d changed" % (i, n)})
        # what this write must have appended
        if pre is None:
            piece = w["data"]
        else:
            body = w["data"].rstrip("\n")
            piece = "".join(pre + l + "\n" for l in body.split("\n"))
        written += piece
        # tail
        whole = _retained(n, init) + written
        ret = _retained(n, snap)
        if not whole.endswith(ret):
            fails.append({"sig": "tail", "step": j, "msg": "retained data is not a suffix of what was written"})
        # the newest data is never lost by the write that carried it
        if not ret.endswith(piece):
            fails.append({"sig": "lost-newest", "step": j, "msg": "the data just written is not at the end"})
        if mb == 0 and snap["active"] != case["active0"] + written:
            fails.append({"sig": "plain-append", "step": j, "msg": "file is not an append-only copy"})
        if pre is not None:
            new_lines = piece.split("\n")[:-1]
            if not snap["active"].endswith(piece) or any(not l.startswith(pre) for l in new_lines):
                fails.append({"sig": "prefix", "step": j, "msg": "line without timestamp/pid prefix"})
        # rollover drops at most the oldest file per write, never more
    return fails[:3]


def nontrivial(case, obs):
    if "steps" not in obs:
        return False
    rolled = any(s["backups"][0] != (obs["steps"][i - 1]["backups"][0] if i else case["backups"][0])
                 for i, s in enumerate(obs["steps"]) if s["backups"])
    return rolled or case["writes"][0]["fmt"] is not None


def stats(cases, impl):
    rolls = sum(1 for c, o in zip(cases, impl) if nontrivial(c, o) and c["writes"][0]["fmt"] is None)
    return {"cases_with_rollover": rolls,
            "cases_with_time_format": sum(1 for c in cases if c["writes"][0]["fmt"] is not None),
            "cases_with_preexisting_gaps": sum(1 for c in cases if any(b is None for b in c["backups"]) and any(b is not None for b in c["backups"])),
            "max_bytes_histogram": {str(m): sum(1 for c in cases if c["mb"] == m) for m in sorted({c["mb"] for c in cases})[:12]}}
