"""Live cross-check of the simulated kernel (docs/LIVE.md): the assumption "the kernel contract is harness/sim.py",
listed in every evidence file of the core properties, put under test.

Every case is a core scenario inside a restricted, jitter-proof domain.  `impl_run` runs it twice on the REAL circus
code — on the simulated kernel (harness/sim.py) and with real processes on the real Linux kernel (harness/live.py) —
and the oracle demands
  (a) the same canonical observation at every settle point            -> "live-differs-from-sim"
  (b) on the live run alone the coarse forms of C01, C02/C08, C03, C04 -> "live-c0x-…"
There is NO Lean side: `NO_MODEL = True`; harness/core.py must not ask the model driver anything for these cases.
A live run that the sandbox or the load does not let proceed as scripted is SKIPPED (stats), never failed.
"""
import collections
import multiprocessing
import os
import random
import signal
import time

from harness import live, sim

NO_MODEL = True
LEAN_PROPS = []
LEAN_LEMMAS = []
TRUSTED_EXTRA = [
    "live cross-check harness/live.py + harness/live_worker.py: real processes on the real kernel; the daemon's timers "
    "stay owned by the harness (parked, fired in nominal order, never before their real duration has elapsed)",
]
ASSUMPTIONS = [
    "live cross-check: restricted domain (1-2 watchers, numprocesses 0-3, graceful_timeout 100-300 ms, workers that obey "
    "the stop signal within 10-20 ms or ignore it, kill_lat 0 = dead when kill() returns / >0 = delivered 30 ms later, "
    "no hooks, no on_demand, no faults); compared at settle points only, pids abstracted (docs/LIVE.md)",
]
RULE = ("scenario = 1-2 watchers (numprocesses 0-3, graceful 100/200/300 ms, warmup 0/50/100 ms, stop signal TERM/INT/QUIT/USR1, "
        "stop_children, respawn, priority) + worker behaviours (obey after 0-20 ms | ignore, SIGKILL latency 0 | >0, 0-2 children "
        "that obey | ignore, exec failure, spawn_ms >= 1) + 3-8 stimuli generated against the simulated run (start/stop/restart/"
        "incr/decr/kill/signal/rm/add/status/list/numprocesses/quit with valid properties, conflict probes while a stop is in "
        "flight, periodic check, worker death by SIGKILL or exit code, outside kill), each followed by `settle`; every case runs "
        "on the simulated kernel and with real processes; non-trivial = the live run was not skipped and at least 3 "
        "spawn/signal/reap effects and one request")

# No margin is needed for the stop signal: the live run takes the schedule of the simulated run by construction (a signal
# whose effect comes with a delay reaches the kernel when the daemon's atomic step is over, no timer fires before a death that
# is due — harness/live.py: LiveKernel), so the delays only cost run time.
OBEY_MS = [0, 10, 10, 20]
BUDGET_S = {"quick": 90.0, "thorough": 300.0}
N_CASES = {"quick": 6, "thorough": 40}
_STATE = {"tier": "quick", "spent": 0.0, "off": None, "skips_in_a_row": 0}

KNOWN_DIFFERENCES = {
    "D1": "numprocesses lowered while all workers carry the same Process.started (simulated spawns that take 0 ms): the "
          "simulated run removes the newest worker, a real run (no two spawns in the same clock tick) the oldest",
}


# ------------------------------------------------------------------------------------------------ generator

def _w(name, **kw):
    w = {"name": name, "np": 1, "warmup_ms": 0, "graceful_ms": 200, "stop_signal": 15, "priority": 0, "respawn": True,
         "autostart": True, "stop_children": False, "max_retry": 2, "send_hup": False, "singleton": False}
    w.update(kw)
    return w


def _req(command, rid, **props):
    return ["req", {"command": command, "id": rid, "properties": props}, 0]


def gen_config(rng):
    nw = rng.choice([1, 1, 1, 2, 2])
    names = rng.sample(["a", "B", "w3"], nw)
    ws = []
    for n in names:
        ws.append(_w(n, np=rng.choice([0, 1, 1, 2, 2, 3]), graceful_ms=rng.choice([100, 200, 200, 300]),
                     # two watchers can spawn in parallel (periodic check): equal warm-up remainders would be ordered by
                     # the real start-up times on the live side -> no warm-up with two watchers
                     warmup_ms=rng.choice([0, 0, 50, 100]) if nw == 1 else 0,
                     stop_signal=rng.choice([15, 15, 15, 2, 3, 10]), priority=rng.choice([0, 0, 1, 2]),
                     respawn=rng.random() < 0.85, autostart=rng.random() < 0.9, stop_children=rng.random() < 0.25))
    behav = []
    for _ in range(rng.choice([1, 2, 2, 3])):
        b = {"kill_lat": rng.choice([0, 0, 1, 2]), "spawn_ms": rng.choice([1, 2, 3])}
        if rng.random() < 0.4:
            b["term"] = ["ignore"]
        else:
            b["term"] = ["obey", rng.choice(OBEY_MS)]
        if rng.random() < 0.2:
            b["kids"] = rng.choice([1, 2])
            b["kid_term"] = rng.choice([["obey", 0], ["ignore"]])
        if rng.random() < 0.06:
            b["exec_fail"] = True
        behav.append(b)
    if all(b.get("exec_fail") for b in behav):
        del behav[0]["exec_fail"]
    return {"arb": {"warmup_ms": rng.choice([0, 0, 50])}, "watchers": ws, "behav": behav}


class _View(object):
    def __init__(self, s):
        self.ws = {w.name: w for w in s.arb.watchers}
        self.names = list(self.ws)
        self.live = {n: [p.pid for p in w.processes.values() if s.k.procs[p.pid].state == "r"] for n, w in self.ws.items()}
        self.kids = {pid: [c for c in s.spawns[i["ord"]]["kids"] if s.k.procs[c].state == "r"]
                     for pid, i in s.pidinfo.items() if i["kind"] == "w"}


def gen_case(rng):
    cfg = gen_config(rng)
    s = live.SimSide(dict(cfg, ops=[]))
    ops = []
    s.setup()
    try:
        def emit(op):
            ops.append(op)
            s.feed(op)

        emit(["start"])
        emit(["settle"])
        added = 0
        n = rng.randint(2, 6)
        i = 0
        while i < n and not s.blocked and not s.closed:
            i += 1
            v = _View(s)
            rid = "r%d" % i
            r = rng.random()
            name = rng.choice(v.names) if v.names else None
            waiting = rng.random() < 0.6
            busy = False                       # a stop-like operation on live workers is in flight after this request
            if name is None or r < 0.05:
                if added < 1 and len(v.names) < 3:
                    added += 1
                    nn = "n%d" % added
                    emit(_req("add", rid, name=nn, cmd="worker --name %s --wid $(circus.wid)" % nn, start=rng.random() < 0.7,
                              options={"numprocesses": rng.choice([1, 2]), "graceful_timeout": rng.choice([0.1, 0.2]),
                                       "warmup_delay": 0}))
                else:
                    emit(_req("numwatchers", rid))
            elif r < 0.27:
                cmd = rng.choice(["stop", "stop", "restart"])
                props = {"waiting": True} if waiting else {}
                if rng.random() < 0.75:
                    props["name"] = name
                    busy = bool(v.live[name]) and v.ws[name]._status == "active"
                else:
                    busy = any(v.live[x] and v.ws[x]._status == "active" for x in v.names)
                emit(_req(cmd, rid, **props))
            elif r < 0.35:
                props = {"waiting": True} if waiting else {}
                if rng.random() < 0.7:
                    props["name"] = name
                emit(_req("start", rid, **props))
            elif r < 0.50:
                props = {"name": name, "nb": rng.choice([1, 1, 2])}
                if waiting:
                    props["waiting"] = True
                cmd = rng.choice(["incr", "decr"])
                if cmd == "incr" and v.ws[name].numprocesses >= 4:
                    cmd = "decr"
                emit(_req(cmd, rid, **props))
            elif r < 0.58 and v.live[name]:
                props = {"name": name, "pid": rng.choice(v.live[name])}
                if rng.random() < 0.5:
                    props["signum"] = rng.choice([15, 2, 9])
                if rng.random() < 0.5:
                    props["graceful_timeout"] = rng.choice([0.1, 0.2, 0.3])
                if waiting:
                    props["waiting"] = True
                busy = True                    # kill takes no slot: whatever comes next runs while it is in flight
                emit(_req("kill", rid, **props))
            elif r < 0.66 and v.live[name]:
                pid = rng.choice(v.live[name])
                props = {"name": name, "signum": rng.choice([1, 10, 12, 15, 2, 9])}
                if rng.random() < 0.7:
                    props["pid"] = pid
                    if v.kids.get(pid) and rng.random() < 0.5:
                        props["childpid"] = rng.choice(v.kids[pid])
                rr = rng.random()
                if "childpid" not in props and rr < 0.2:
                    props["children"] = True
                elif "childpid" not in props and rr < 0.4:
                    props["recursive"] = True
                emit(_req("signal", rid, **props))
            elif r < 0.70:
                props = {"name": name}
                if rng.random() < 0.2:
                    props["nostop"] = True
                elif waiting:
                    props["waiting"] = True
                busy = "nostop" not in props and bool(v.live[name]) and v.ws[name]._status == "active"
                emit(_req("rm", rid, **props))
            elif r < 0.80:
                cmd = rng.choice(["status", "list", "numprocesses", "status", "list"])
                props = {"name": name} if rng.random() < 0.7 else {}
                emit(_req(cmd, rid, **props))
            elif r < 0.86:
                emit(["check"])
            elif r < 0.95 and v.live[name]:
                pid = rng.choice(v.live[name])
                if rng.random() < 0.6:
                    st = sim.wstat_sig(9) if rng.random() < 0.5 else sim.wstat_exit(rng.choice([0, 1, 3]))
                    emit(["die", pid, st])
                else:
                    emit(["xkill", pid, rng.choice([9, 15, 2, 1])])
                if rng.random() < 0.8:
                    emit(["check"])
            elif r < 0.97 and i == n:
                emit(_req("quit", rid, **({"waiting": True} if waiting else {})))
            else:
                emit(["check"])
            if busy and rng.random() < 0.35:
                # a second request while the first holds the exclusive slot (its first poll timer is parked): conflict
                v2 = _View(s)
                pn = rng.choice(v2.names) if v2.names else None
                pr = rng.random()
                if pn is None or pr < 0.3:
                    emit(_req("status", rid + "p", **({"name": pn} if pn else {})))
                elif pr < 0.6:
                    emit(_req("incr", rid + "p", name=pn))
                elif pr < 0.8:
                    emit(_req("stop", rid + "p", name=pn))
                else:
                    emit(["check"])
            emit(["settle"])
    finally:
        s.teardown()
    return dict(cfg, ops=ops)


def generate(rng, tier):
    _STATE["tier"] = tier
    if multiprocessing.parent_process() is not None:
        # a forked exploration worker of the thorough tier (harness/core.py: _explore_chunk): the live part runs once, in
        # the main process — 14 daemons with real children side by side would only measure the load they make
        return []
    return [gen_case(rng) for _ in range(N_CASES.get(tier, 6))]


def corpus():
    stop1 = _req("stop", "q1", name="a", waiting=True)
    out = []
    # start / stop with one stubborn worker: SIGKILL for wid 1 only
    out.append({"arb": {"warmup_ms": 0}, "watchers": [_w("a", np=2, graceful_ms=200)],
                "behav": [{"term": ["ignore"], "kill_lat": 0, "spawn_ms": 1}, {"term": ["obey", 30], "kill_lat": 0, "spawn_ms": 1}],
                "ops": [["start"], ["settle"], stop1, _req("incr", "q2", name="a"), ["settle"],
                        _req("start", "q3", name="a", waiting=True), ["settle"]]})
    # graceful 100 ms: the only poll ends the wait, SIGKILL is sent although the worker is a zombie by then; late SIGKILL delivery
    out.append({"arb": {"warmup_ms": 0}, "watchers": [_w("a", np=2, graceful_ms=100, stop_signal=2)],
                "behav": [{"term": ["obey", 30], "kill_lat": 2, "spawn_ms": 1}, {"term": ["ignore"], "kill_lat": 2, "spawn_ms": 2}],
                "ops": [["start"], ["settle"], stop1, ["settle"], ["check"], ["settle"]]})
    # incr / decr: the surplus worker is killed and stays a zombie until the next check (kill_lat > 0)
    out.append({"arb": {"warmup_ms": 0}, "watchers": [_w("a", np=2, graceful_ms=200, warmup_ms=50)],
                "behav": [{"term": ["obey", 30], "kill_lat": 2, "spawn_ms": 2}, {"term": ["ignore"], "kill_lat": 2, "spawn_ms": 2}],
                "ops": [["start"], ["settle"], _req("incr", "q1", name="a", nb=1, waiting=True), ["settle"],
                        _req("decr", "q2", name="a", nb=2, waiting=True), ["settle"], _req("list", "q3", name="a"),
                        ["check"], ["settle"]]})
    # kill request for one worker, default and explicit signal
    out.append({"arb": {"warmup_ms": 0}, "watchers": [_w("a", np=2, graceful_ms=300)],
                "behav": [{"term": ["ignore"], "kill_lat": 0, "spawn_ms": 1}, {"term": ["obey", 30], "kill_lat": 0, "spawn_ms": 1}],
                "ops": [["start"], ["settle"], _req("kill", "q1", name="a", pid=100, graceful_timeout=0.1, waiting=True), ["settle"],
                        _req("kill", "q2", name="a", pid=101, signum=2), ["settle"], ["check"], ["settle"]]})
    # a kill request in flight (it holds no slot) overtaken by a stop of the same watcher
    out.append({"arb": {"warmup_ms": 0}, "watchers": [_w("a", np=1, graceful_ms=100)],
                "behav": [{"term": ["ignore"], "kill_lat": 0, "spawn_ms": 1}],
                "ops": [["start"], ["settle"], _req("kill", "q1", name="a", pid=100, graceful_timeout=0.5), stop1, ["settle"],
                        _req("status", "q3", name="a"), ["settle"]]})
    # die + check: respawn, exit codes in the reap events; a worker with children, killed from outside: orphans survive
    out.append({"arb": {"warmup_ms": 0}, "watchers": [_w("a", np=2, graceful_ms=200), _w("B", np=1, graceful_ms=200, priority=1)],
                "behav": [{"term": ["obey", 30], "kill_lat": 0, "spawn_ms": 1, "kids": 1, "kid_term": ["ignore"]}],
                "ops": [["start"], ["settle"], ["die", 104, sim.wstat_exit(3)], ["check"], ["settle"],
                        ["xkill", 100, 9], ["check"], ["settle"], _req("stop", "q1", waiting=True), ["settle"]]})
    # stop_children, stubborn parents with stubborn children: the SIGKILL escalation reaches the child only through a parent
    # that is still alive (kill_lat > 0); the child of the parent that died at once survives
    out.append({"arb": {"warmup_ms": 0}, "watchers": [_w("a", np=2, graceful_ms=100, stop_children=True)],
                "behav": [{"term": ["ignore"], "kill_lat": 0, "spawn_ms": 1, "kids": 1, "kid_term": ["ignore"]},
                          {"term": ["ignore"], "kill_lat": 2, "spawn_ms": 1, "kids": 1, "kid_term": ["ignore"]}],
                "ops": [["start"], ["settle"], _req("signal", "q0", name="a", signum=1, recursive=True), ["settle"],
                        _req("stop", "q1", name="a", waiting=True), ["settle"]]})
    # exec failure: max_retry attempts, then the watcher gives up
    out.append({"arb": {"warmup_ms": 0}, "watchers": [_w("a", np=2, graceful_ms=100, max_retry=2)],
                "behav": [{"term": ["obey", 30], "kill_lat": 0, "spawn_ms": 1}, {"exec_fail": True}, {"exec_fail": True}],
                "ops": [["start"], ["settle"], _req("status", "q1", name="a"), ["settle"]]})
    # quit: everything stopped, control and event sockets closed
    out.append({"arb": {"warmup_ms": 50}, "watchers": [_w("a", np=1, graceful_ms=200), _w("B", np=2, graceful_ms=100, priority=2)],
                "behav": [{"term": ["obey", 30], "kill_lat": 0, "spawn_ms": 1}, {"term": ["ignore"], "kill_lat": 2, "spawn_ms": 1}],
                "ops": [["start"], ["settle"], _req("quit", "q1", waiting=True), ["settle"]]})
    # KNOWN DIFFERENCE D1 (docs/LIVE.md): spawns that take 0 ms -> equal Process.started -> decr removes another worker
    out.append({"_known_diff": "D1", "arb": {"warmup_ms": 0}, "watchers": [_w("a", np=3, graceful_ms=200)],
                "behav": [{"term": ["obey", 30], "kill_lat": 0}],
                "ops": [["start"], ["settle"], _req("decr", "q1", name="a", waiting=True), ["settle"]]})
    return out


# ------------------------------------------------------------------------------------------------ run

def impl_run(case):
    t0 = time.time()
    s = live.run_sim(case)
    obs = {"sim": {"points": s["points"], "expanded": s["expanded"], "spawns": s["spawns"]}, "sim_s": round(time.time() - t0, 3)}
    if _STATE["off"]:
        obs["live"] = {"skipped": _STATE["off"]}
    elif _STATE["spent"] > BUDGET_S.get(_STATE["tier"], 90.0):
        obs["live"] = {"skipped": "budget: live part limited to %.0f s" % BUDGET_S.get(_STATE["tier"], 90.0)}
    else:
        try:
            l = live.run_live(case, s["pidmap"])
        except Exception as e:                       # the driver itself could not work here: no verdict
            l = {"skipped": "live driver error %s: %s" % (type(e).__name__, e)}
        _STATE["spent"] += l.get("total_s", 0.0)
        if "skipped" in l:
            _STATE["skips_in_a_row"] += 1
            if l["skipped"].startswith(("fork refused", "inconclusive: spawn refused")) or _STATE["skips_in_a_row"] >= 3:
                _STATE["off"] = "live part switched off after: %s" % l["skipped"]
        else:
            _STATE["skips_in_a_row"] = 0
        obs["live"] = l
    return obs


def impl_view(case, obs):
    return {"sim": obs.get("sim", {}).get("points"), "live": obs.get("live", {}).get("points", obs.get("live", {}).get("skipped"))}


def model_line(case):
    raise RuntimeError("live_core has no Lean side (NO_MODEL): harness/core.py must not call model_line for this part")


def model_parse(case, line):
    return None


def views_equal(case, mv, iv):
    return True


def _intervals(case, npoints):
    """stimuli between consecutive settle points"""
    out, cur = [], []
    for op in live.normalise_ops(case["ops"]):
        if op[0] == "settle":
            out.append(cur)
            cur = []
        else:
            cur.append(op)
    if cur:
        out.append(cur)
    return out[:npoints]


def _cfg(case, name):
    for w in case["watchers"]:
        if w["name"].lower() == str(name).lower():
            return w
    return None


def live_checks(case, lv):
    """the coarse forms of C01 / C02 / C03 / C04 on the live run alone"""
    f = []
    pts, extra, spawns = lv["points"], lv["extra"], lv["spawns"]
    bh = case.get("behav") or [{}]
    ivs = _intervals(case, len(pts))
    for i, p in enumerate(pts):
        if p["blocked"] or not p["settled"]:
            break
        stim = ivs[i] if i < len(ivs) else []
        ws = {w[0]: w for w in p["watchers"]}
        listed = extra[i]["listed"]
        # C02 / C08: a stopped watcher has no live worker
        for name, w in ws.items():
            if w[1] == "stopped" and p["live"].get(name, 0):
                f.append({"sig": "live-c02-stopped-with-live-worker", "point": i,
                          "msg": "watcher %s is stopped and %d of its workers live" % (name, p["live"][name])})
            # C04: no live worker that its watcher does not list
            alive_listed = sum(1 for o, st in listed.get(name, []) if st == "r")
            if p["live"].get(name, 0) > alive_listed:
                f.append({"sig": "live-c04-unlisted-live-worker", "point": i,
                          "msg": "watcher %s: %d live workers, %d of them listed" % (name, p["live"][name], alive_listed)})
        last = stim[-1] if stim else None
        # a check (or the initial start) that found the daemon at rest: nothing but deaths from outside since the last settle
        after_check = last is not None and (last[0] in ("check", "start")) and "conflict" not in p["misc"] and not p["stopping"] \
            and all(op[0] in ("die", "xkill") for op in stim[:-1])
        if after_check:
            for name, w in ws.items():
                c = _cfg(case, name)
                if c is None:
                    continue
                dead = [o for o, st in listed.get(name, []) if st != "r"]
                if dead:
                    f.append({"sig": "live-c04-listed-dead-worker", "point": i,
                              "msg": "watcher %s lists dead workers (spawn ordinals %r) right after a check" % (name, dead)})
                if w[1] == "active" and c.get("respawn", True) and p["live"].get(name, 0) != int(float(w[2])):
                    f.append({"sig": "live-c01-not-converged", "point": i,
                              "msg": "watcher %s: numprocesses %s, %d live workers after a check" % (name, w[2], p["live"].get(name, 0))})
        # C03: stubborn workers are SIGKILLed, obedient ones (that have two polls to be seen dead) are not
        if i > 0 and len(stim) == 1 and stim[0][0] == "req" and stim[0][1].get("command") in ("stop", "rm", "quit"):
            props = stim[0][1].get("properties", {})
            if props.get("nostop") or not all(r[2] == "ok" for r in p["replies"]):
                continue
            before = {w[0]: w for w in pts[i - 1]["watchers"]}
            for name, wb in before.items():
                c = _cfg(case, name)
                if c is None or wb[1] != "active":
                    continue
                if stim[0][1]["command"] != "quit" and "name" in props and str(props["name"]).lower() != name.lower():
                    continue
                for o, st in extra[i - 1]["listed"].get(name, []):
                    if st != "r" or o is None:
                        continue
                    b = bh[spawns[o]["attempt"] % len(bh)]
                    wid = str(spawns[o]["wid"])
                    stubborn = b.get("term", ["obey", 0])[0] == "ignore" or c.get("stop_signal", 15) in live.IGNORED
                    killed = wid in p["sigkill"].get(name, [])
                    if stubborn and not killed:
                        f.append({"sig": "live-c03-stubborn-not-killed", "point": i,
                                  "msg": "worker %s.%s ignores the stop signal and was not sent SIGKILL" % (name, wid)})
                    if not stubborn and c.get("graceful_ms", 300) >= 200 and killed:
                        f.append({"sig": "live-c03-obedient-killed", "point": i,
                                  "msg": "worker %s.%s obeys the stop signal within 20 ms and was sent SIGKILL" % (name, wid)})
    return f


def oracle(case, obs):
    if "sim" not in obs:
        return [{"sig": "harness-exception", "msg": obs.get("harness_exception"), "tb": obs.get("tb")}]
    lv = obs.get("live", {})
    if "points" not in lv:
        return []                                   # skipped: no verdict
    f = []
    d = live.first_difference(obs["sim"]["points"], lv["points"])
    if case.get("_known_diff"):
        return f                                    # reported in the stats (reproduced or not), never a failure
    if d is not None:
        f.append({"sig": "live-differs-from-sim", "first_difference": d,
                  "msg": "settle point %s, %s: simulated kernel %r, real kernel %r" % (d["point"], d["key"], d["sim"], d["live"]),
                  "sim_scenario": obs["sim"]["expanded"]})
    f += live_checks(case, lv)
    return f[:4]


def nontrivial(case, obs):
    lv = obs.get("live", {})
    if "points" not in lv:
        return False
    eff = sum(1 for _, lines in lv.get("trace", []) for l in lines if l.startswith(("o spawn", "o sig", "o reap")))
    return eff >= 3 and any(op[0] == "req" for op in case["ops"])


def stats(cases, impl):
    ops, cmds, skipped = collections.Counter(), collections.Counter(), collections.Counter()
    ran = points = 0
    live_s, sim_s, max_s, swept, left = 0.0, 0.0, 0.0, 0, 0
    eff = collections.Counter()
    known = {}
    for c, o in zip(cases, impl):
        for op in c["ops"]:
            ops[op[0]] += 1
            if op[0] == "req":
                cmds[str(op[1].get("command"))] += 1
        lv = o.get("live", {})
        sim_s += o.get("sim_s", 0.0)
        live_s += lv.get("total_s", 0.0)
        max_s = max(max_s, lv.get("total_s", 0.0))
        swept += lv.get("swept", 0)
        left += lv.get("left_behind", 0)
        if "points" in lv:
            ran += 1
            points += len(lv["points"])
            for _, lines in lv.get("trace", []):
                for l in lines:
                    eff[l.split(" ")[1]] += 1
            if c.get("_known_diff"):
                known[c["_known_diff"]] = live.first_difference(o["sim"]["points"], lv["points"]) is not None
        else:
            skipped[str(lv.get("skipped"))[:80]] += 1
    return {"live_runs": ran, "live_skipped": dict(skipped), "settle_points_compared": points, "ops": dict(ops),
            "commands": dict(cmds), "live_observation_kinds": dict(eff), "live_wall_s": round(live_s, 2),
            "live_max_scenario_s": round(max_s, 2), "sim_wall_s": round(sim_s, 2), "processes_swept_after_runs": swept, "processes_left_behind": left,
            "known_differences_reproduced": known}


def shrink(case, failure):
    """drop trailing ops while the failure signature stays"""
    best = case
    ops = list(case["ops"])
    while len(ops) > 2:
        ops = ops[:-1]
        c = dict(case, ops=ops)
        o = impl_run(c)
        if any(f.get("sig") == failure.get("sig") for f in oracle(c, o)):
            best = c
        else:
            break
    return best


# ------------------------------------------------------------------------------------------------ stand-alone

def main(argv):
    """python -m harness.props.live_core [quick|thorough] [seed]  — corpus + generated cases, a line per case"""
    tier = argv[0] if argv else "quick"
    seed = int(argv[1]) if len(argv) > 1 else int(os.environ.get("VERIF_SEED", "0") or 0)
    rng = random.Random(seed * 1000003 + 17)
    t0 = time.time()
    cases = corpus() + generate(rng, tier)
    impl, bad = [], 0
    for i, c in enumerate(cases):
        o = impl_run(c)
        impl.append(o)
        fs = oracle(c, o)
        lv = o["live"]
        print("%3d %-9s %5.2fs points=%s %s" % (i, "SKIP" if "skipped" in lv else ("FAIL" if fs else "ok"), lv.get("total_s", 0.0),
                                                 len(lv.get("points", [])), lv.get("skipped", "") or "; ".join(f["msg"] for f in fs)))
        if fs:
            bad += 1
            import json
            print("     case:", json.dumps(c))
    st = stats(cases, impl)
    print({k: v for k, v in st.items() if k not in ("ops", "commands", "live_observation_kinds")})
    print("cases %d, failing %d, wall %.1f s" % (len(cases), bad, time.time() - t0))
    return 1 if bad else 0


if __name__ == "__main__":
    import sys
    sys.exit(main(sys.argv[1:]))
