"""C08 is decided on two layers: the shutdown state machine (signal -> quit dispatch -> stop of every watcher ->
loop stop -> sockets closed) on the core model, and the pid file (harness/props/c08_pidfile.py)."""
from harness.corecheck import make
from harness.props import c08_pidfile
PARTS = [make("C08", ["CircusProofs/Props/C08.lean"],
              ["CircusProofs/Core/Pres.lean", "CircusProofs/Core/KStep.lean", "CircusProofs/Core/Generic.lean", "CircusProofs/Core/SlotFree.lean", "CircusProofs/Core/NoClose.lean", "CircusProofs/Core/ArbInv.lean", "CircusProofs/Core/Init.lean",
               "CircusProofs/Props/C02.lean", "CircusProofs/Props/C06.lean"]),
         c08_pidfile]
