"""C08 is decided on two layers: the shutdown state machine (signal -> quit dispatch -> stop of every watcher ->
loop stop -> sockets closed) on the core model, the pid file (harness/props/c08_pidfile.py) and the managed sockets and their
unix-socket files (harness/props/c08_sockets.py, the sockets layer of C07 with reloadconfig and quit; harness/props/c08_reuseport.py,
oracle only, for `so_reuseport` unix sockets, which are outside that layer's model)."""
from harness.corecheck import make
from harness.props import c08_pidfile, c08_sockets, c08_reuseport
PARTS = [make("C08", ["CircusProofs/Props/C08.lean", "CircusProofs/Props/C08Run.lean"],
              ["CircusProofs/Core/Pres.lean", "CircusProofs/Core/KStep.lean", "CircusProofs/Core/Generic.lean", "CircusProofs/Core/SlotFree.lean", "CircusProofs/Core/NoClose.lean", "CircusProofs/Core/ArbInv.lean", "CircusProofs/Core/Init.lean",
               "CircusProofs/Props/C02.lean", "CircusProofs/Props/C06.lean", "CircusProofs/Core/Conv.lean",
               "CircusProofs/Core/StopRun.lean", "CircusProofs/Core/StopRunG.lean"]),
         c08_pidfile, c08_sockets, c08_reuseport]
