from harness.corecheck import make
MODULE = make("C05", ["CircusProofs/Props/C05.lean"], ["CircusProofs/Lemmas/Core.lean"])
