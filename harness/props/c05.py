from harness.corecheck import make
MODULE = make("C05", ["CircusProofs/Props/C05.lean", "CircusProofs/Props/C10Wake.lean"],
              ["CircusProofs/Core/Pres.lean", "CircusProofs/Core/KStep.lean", "CircusProofs/Core/Generic.lean", "CircusProofs/Core/SlotFree.lean", "CircusProofs/Core/Narrow.lean", "CircusProofs/Core/Calm.lean", "CircusProofs/Props/C03.lean",
               "CircusProofs/Props/C06.lean", "CircusProofs/Core/SlotInv.lean", "CircusProofs/Core/WakeAttr.lean", "CircusProofs/Core/WakeDefs.lean", "CircusProofs/Core/WakePrim.lean", "CircusProofs/Core/WakeInv.lean", "CircusProofs/Core/WakeHeld.lean", "CircusProofs/Core/OptionsCmd.lean"])
