"""C05: the core state machine (every request, the periodic check, timers) and — for the one blocking read the daemon does outside the
core model, the stream redirector's handler — harness/props/c05_redirector.py."""
from harness.corecheck import make
from harness.props import c05_redirector
PARTS = [make("C05", ["CircusProofs/Props/C05.lean", "CircusProofs/Props/C10Wake.lean"],
              ["CircusProofs/Core/Pres.lean", "CircusProofs/Core/KStep.lean", "CircusProofs/Core/Generic.lean", "CircusProofs/Core/SlotFree.lean", "CircusProofs/Core/Narrow.lean", "CircusProofs/Core/Calm.lean", "CircusProofs/Props/C03.lean",
               "CircusProofs/Props/C06.lean", "CircusProofs/Core/SlotInv.lean", "CircusProofs/Core/WakeAttr.lean", "CircusProofs/Core/WakeDefs.lean", "CircusProofs/Core/WakePrim.lean", "CircusProofs/Core/WakeInv.lean", "CircusProofs/Core/WakeHeld.lean", "CircusProofs/Core/OptionsCmd.lean"]),
         c05_redirector]
