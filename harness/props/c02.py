"""C02: the core state machine, plus the live cross-check of the simulated kernel (harness/props/live_core.py: the same
scenarios on real processes; no Lean side)."""
from harness.corecheck import make
from harness.props import live_core
PARTS = [make("C02", ["CircusProofs/Props/C02.lean", "CircusProofs/Props/C02Run.lean", "CircusProofs/Props/C02Run2.lean"],
              ["CircusProofs/Core/Pres.lean", "CircusProofs/Core/Generic.lean", "CircusProofs/Core/Conv.lean",
               "CircusProofs/Core/StopRun.lean", "CircusProofs/Core/StopRunG.lean"]),
         live_core]
