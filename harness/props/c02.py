from harness.corecheck import make
MODULE = make("C02", ["CircusProofs/Props/C02.lean"], ["CircusProofs/Lemmas/Core.lean"])
