from harness.corecheck import make
MODULE = make("C02", ["CircusProofs/Props/C02.lean"],
              ["CircusProofs/Core/Pres.lean", "CircusProofs/Core/Generic.lean"])
