"""C17 — captured worker output is delivered complete, in order, once, correctly labelled.

Correspondence: the REAL `circus.stream.redirector.Redirector` (and the real
`circus.process.Process.stop/close_output_channels/stdout/stderr/pid` on a `Process(spawn=False)`
whose `_worker` is a fake Popen) over real kernel pipes, against `Circus.Redirector.step`.

fd numbers: the model's kernel hands out the lowest free descriptor number.  The harness lets the
real kernel do exactly that inside a private window of the descriptor table: every read end is
moved with `fcntl(F_DUPFD_CLOEXEC, BASE)` ("lowest free number >= BASE"), so real fd - BASE is the
model's fd and descriptor numbers really are reused across worker generations.  Write ends stay
below BASE (they belong to the child in real life).

The event loop is a fake object capturing `add_handler`/`remove_handler`; the harness plays
`ready fd` by calling the captured handler with `IOLoop.READ`.
"""
import errno
import fcntl
import os
import resource
import struct
import termios

from harness.core import enc_cps, Infra

LEAN_PROPS = ["CircusProofs/Props/C17.lean"]
LEAN_LEMMAS = ["CircusProofs/Lemmas/Redirector.lean", "CircusProofs/Lemmas/RedirectorInv.lean",
               "CircusProofs/Lemmas/RedirectorLeak.lean"]
RULE = ("cases = (read buffer 1..16, first pid, op list over spawn(pipe_stdout, pipe_stderr) / write(pid, chan, "
        "chunk) / ready(fd) / closeWriter / killProcess / reapSelfExited / start / stop); 1-4 concurrent "
        "workers, both channels, chunk sizes 0..3*buffer (incl. = buffer, > buffer), interleaved writers, EOFs, "
        "kills, self-exits and respawns over >= 3 generations (long cases: 30 quick / 200-400 thorough "
        "generations with /proc/self/fd counted); 'disciplined' cases drain before closing (no loss, no stale "
        "entry), the others race the reaper against the reader; every random choice from VERIF_SEED; "
        "non-trivial = some data delivered and some descriptor number reused or an EOF read; distinct by hash")
ASSUMPTIONS = [
    "one Redirector (one watcher); every pipe of every worker of the watcher goes through add_redirections "
    "(Watcher.spawn_process does so unconditionally)",
    "pids are not reused within a trace (the model hands out fresh pids)",
    "descriptor numbers: lowest free number (POSIX); the window [BASE, BASE+64) of the harness process holds "
    "only the read ends, so the kernel's choice equals the model's",
    "kernel pipe capacity / PIPE_BUF atomicity not modelled (volumes stay far below 64 KiB per pipe)",
    "epoll readiness and tornado's dispatch not modelled: `ready fd` may be played at any time; a handler "
    "called on a closed descriptor raises EBADF (the real loop would not report it ready)",
    "the worker is dead when kill_process reaches remove_redirections / when reap_process runs "
    "(fake Popen.poll() returns 0)",
    "Process.redirected (a flag nobody reads) is not modelled; buffer > 0 for the EOF theorems",
]
TRUSTED_EXTRA = ["fake event loop, fake Popen and the pipe bookkeeping of harness/props/c17_redirector.py "
                 "(FIONREAD is used as kernel truth for bytes still queued)"]

WINDOW = 64
CH = {"o": "stdout", "e": "stderr"}
CHR = {"stdout": "o", "stderr": "e"}


# ------------------------------------------------------------------------------------------ impl side

def _fd_open(fd):
    try:
        os.fstat(fd)
        return True
    except OSError:
        return False


def _avail(fd):
    return struct.unpack("i", fcntl.ioctl(fd, termios.FIONREAD, b"\0\0\0\0"))[0]


def _nfds():
    return len(os.listdir("/proc/self/fd"))


def _pick_base():
    soft = resource.getrlimit(resource.RLIMIT_NOFILE)[0]
    for base in (400, 200, 100):
        if base + WINDOW + 8 < soft and not any(_fd_open(f) for f in range(base, base + WINDOW)):
            return base
    raise Infra("no free descriptor window for C17")


class FakeLoop(object):
    """what Redirector needs from tornado's IOLoop; as strict as tornado about double registration"""

    def __init__(self):
        self.handlers = {}
        self.log = []

    def add_handler(self, fd, handler, events):
        if fd in self.handlers:
            raise ValueError("fd %s added twice" % fd)
        self.handlers[fd] = (handler, events)
        self.log.append(("A", fd))

    def remove_handler(self, fd):
        self.handlers.pop(fd, None)
        self.log.append(("R", fd))


class FakePopen(object):
    def __init__(self, pid, stdout, stderr):
        self.pid = pid
        self.stdout = stdout
        self.stderr = stderr
        self.returncode = 0
        self.terminated = 0

    def poll(self):
        return 0

    def terminate(self):
        self.terminated += 1


class _Pipe(object):
    __slots__ = ("rfd", "wfd", "written", "pid", "chan", "rfile")

    def __init__(self, rfd, wfd, pid, chan, rfile):
        self.rfd, self.wfd, self.pid, self.chan, self.rfile = rfd, wfd, pid, chan, rfile
        self.written = b""


def impl_run(case):
    from circus.stream.redirector import Redirector
    from circus.process import Process
    from tornado.ioloop import IOLoop

    base = _pick_base()
    fds_before = _nfds()
    loop = FakeLoop()
    records = []          # (collector, datamap) in arrival order

    gen = {"stdout": 0, "stderr": 0}       # which stream object is current for each channel (change_stream replaces it)
    stale = []                             # deliveries that reached a stream object that has been replaced (and closed)

    def collector(which):
        g = gen[which]

        def _c(datamap):
            if g != gen[which]:
                stale.append((which, datamap.get("pid")))
            records.append((which, dict(datamap)))
        return _c
    red = Redirector(collector("stdout"), collector("stderr"), buffer=case["buffer"], loop=loop)

    live = {}             # pid -> (Process, {chan: _Pipe})
    allpipes = []
    next_pid = [case["pid0"]]
    steps = []            # per op: {"outs": [...], facts for the oracle}
    peak_live = 0
    exc = None

    def drain_log():
        out = ["%s:%d" % (k, fd - base) for k, fd in loop.log]
        del loop.log[:]
        return out

    def sizes():
        return {"pipes": len(red.pipes), "active": len(red._active),
                "live_with_pipes": sum(1 for _, ps in live.values() if ps),
                "live": len(live)}

    graveyard = {}        # pid -> Process object that has been stopped (kill / reap): for the late remove_redirections

    def close_worker(pid, with_remove):
        proc, ps = live.pop(pid)
        graveyard[pid] = proc
        outs = []
        st = {}
        for p in ps.values():            # the worker is dead: its write ends are gone
            if p.wfd is not None:
                os.close(p.wfd)
                p.wfd = None
        if with_remove:
            red.remove_redirections(proc)
            outs += drain_log()
        pre = {}
        for ch in ("stderr", "stdout"):
            p = ps.get(ch)
            if p is not None and _fd_open(p.rfd):
                pre[ch] = (_avail(p.rfd), p.rfd in red.pipes)
        proc.stop()
        outs += drain_log()
        lost = []
        leaked = []
        for ch in ("stderr", "stdout"):
            p = ps.get(ch)
            if p is None or ch not in pre:
                continue
            if _fd_open(p.rfd):
                leaked.append(p.rfd - base)
                continue
            n, stale = pre[ch]
            if n:
                outs.append("L:%s:%d:%s" % (CHR[ch], pid, enc_cps(list(p.written[len(p.written) - n:]))))
                lost.append([pid, ch, n])
            if stale:
                outs.append("STALE:%d" % (p.rfd - base))
            outs.append("X:%d" % (p.rfd - base))
        st["lost"] = lost
        st["not_closed"] = leaked
        st["terminated"] = proc._worker.terminated
        return outs, st

    # every read the Redirector does goes through this proxy of `os` in its module namespace: a read on a descriptor that has
    # nothing queued while its writer is open would not return on the blocking pipe of a real worker
    import circus.stream.redirector as _redmod
    would_block = []

    class _OsProxy(object):
        def __getattr__(self, name):
            return getattr(os, name)

        def read(self, fd, n):
            try:
                if _avail(fd) == 0 and any(p.rfd == fd and p.wfd is not None and not p.rfile.closed for p in allpipes):
                    would_block.append(fd - base)
            except OSError:
                pass
            return os.read(fd, n)
    _saved_os = _redmod.os
    _redmod.os = _OsProxy()
    try:
        for op in case["ops"]:
            k = op[0]
            outs = []
            st = {"op": k}
            nrec = len(records)
            if k == "sp":
                pid = next_pid[0]
                next_pid[0] += 1
                ps = {}
                for flag, ch in ((op[1], "stdout"), (op[2], "stderr")):
                    if not flag:
                        continue
                    r, w = os.pipe()
                    r2 = fcntl.fcntl(r, fcntl.F_DUPFD_CLOEXEC, base)
                    os.close(r)
                    if r2 >= base + WINDOW:
                        os.close(r2)
                        os.close(w)
                        raise Infra("descriptor window exhausted")
                    os.set_blocking(r2, False)
                    os.set_blocking(w, False)
                    p = _Pipe(r2, w, pid, ch, os.fdopen(r2, "rb"))
                    ps[ch] = p
                    allpipes.append(p)
                proc = Process("w", pid, "cmd", spawn=False, pipe_stdout=bool(op[1]), pipe_stderr=bool(op[2]))
                proc._worker = FakePopen(pid, ps["stdout"].rfile if "stdout" in ps else None,
                                         ps["stderr"].rfile if "stderr" in ps else None)
                live[pid] = (proc, ps)
                peak_live = max(peak_live, len(live))
                outs.append("S:%d:%s:%s" % (pid, ps["stdout"].rfd - base if "stdout" in ps else "~",
                                            ps["stderr"].rfd - base if "stderr" in ps else "~"))
                red.add_redirections(proc)
                outs += drain_log()
                st["redirected"] = proc.redirected
            elif k == "wr":
                pid, ch, data = op[1], CH[op[2]], bytes(op[3])
                if pid not in live:
                    outs.append("NOPID")
                elif ch not in live[pid][1]:
                    outs.append("NOPIPE")
                else:
                    p = live[pid][1][ch]
                    if p.wfd is None:
                        outs.append("WC")
                    else:
                        try:
                            n = os.write(p.wfd, data) if data else 0
                        except BrokenPipeError:
                            outs.append("EPIPE")
                        else:
                            if n != len(data):
                                raise Infra("short write on a pipe (kernel buffer full)")
                            p.written += data
                            outs.append("W:%d:%s:%s" % (pid, op[2], enc_cps(list(data))))
            elif k == "rd":
                fd = op[1] + base
                ent = loop.handlers.get(fd)
                if ent is None:
                    outs.append("NOH")
                else:
                    h = ent[0]
                    isopen = _fd_open(fd)
                    owner = next((p for p in allpipes if p.rfd == fd and not p.rfile.closed), None)
                    pre_avail = _avail(fd) if isopen else None
                    st.update({"fd_open": isopen, "pre_avail": pre_avail,
                               "writer_closed": (owner.wfd is None) if owner else None,
                               "owner": [owner.pid, owner.chan] if owner else None,
                               "consumed_before": (len(owner.written) - pre_avail) if owner else None})
                    label = [h.process.pid, h.name]
                    try:
                        h(fd, IOLoop.READ)
                        raised = None
                    except OSError as e:
                        raised = e.errno
                    lg = drain_log()
                    new = records[nrec:]
                    if raised == errno.EBADF:
                        outs.append("EBADF:%d" % op[1])
                    elif raised is not None:
                        outs.append("RAISED:%s" % errno.errorcode.get(raised, raised))
                    for which, dm in new:
                        outs.append("D:%s:%d:%s" % (CHR.get(dm["name"], "?"), dm["pid"], enc_cps(list(dm["data"]))))
                    outs += lg
                    if raised is None and not new and lg:
                        outs.append("EOF:%s:%d:%d" % (CHR[label[1]], label[0], op[1]))
                    if raised is None and not new and not lg:
                        outs.append("EAGAIN")
                    st["post_avail"] = _avail(fd) if (isopen and _fd_open(fd)) else None
                    st["still_registered"] = [fd in loop.handlers, fd in red._active, fd in red.pipes]
            elif k == "cw":
                pid, ch = op[1], CH[op[2]]
                if pid not in live:
                    outs.append("NOPID")
                elif ch not in live[pid][1]:
                    outs.append("NOPIPE")
                else:
                    p = live[pid][1][ch]
                    if p.wfd is None:
                        outs.append("WC")
                    else:
                        os.close(p.wfd)
                        p.wfd = None
                        outs.append("CW:%d:%s" % (pid, op[2]))
            elif k in ("kill", "reap"):
                pid = op[1]
                if pid not in live:
                    outs.append("NOPID")
                else:
                    o, s2 = close_worker(pid, with_remove=(k == "kill"))
                    outs += o
                    st.update(s2)
            elif k == "lr":
                # kill_process wakes from its nap after the periodic check has reaped the worker under it:
                # remove_redirections(process) on the stopped Process object (its pipes are closed file objects)
                pid = op[1]
                if pid in live:
                    raise Infra("late remove for a live pid (generator bug)")
                if pid in graveyard:
                    red.remove_redirections(graveyard[pid])
                    outs += drain_log()
            elif k == "chg":
                # `set <watcher> stdout_stream.<key> <val>`: Watcher._reload_stream builds a new stream, hands it to
                # Redirector.change_stream and closes the old one
                name = CH[op[1]]
                gen[name] += 1
                red.change_stream(name, collector(name))
            elif k == "start":
                red.start()
                outs += drain_log()
            elif k == "stop":
                red.stop()
                outs += drain_log()
            else:
                raise Infra("unknown op %r" % (op,))
            st["outs"] = outs
            # while the redirector runs, every pipe of a live worker whose write end is still open is being watched
            st["open_unwatched"] = [[pid_, ch_] for pid_, (_pr, ps_) in live.items() for ch_, p_ in ps_.items()
                                    if p_.wfd is not None and red.running and p_.rfd not in loop.handlers]
            st["stale_stream"] = list(stale)
            del stale[:]
            st["would_block"] = list(would_block)
            del would_block[:]
            st["records"] = [[w, dm.get("name"), dm.get("pid"), list(dm.get("data", b""))] for w, dm in records[nrec:]]
            st.update(sizes())
            st["peak_live"] = peak_live
            steps.append(st)
        fin = {
            "pipes": ["%d:%s:%d" % (fd - base, CHR[v[0]], v[1].pid) for fd, v in red.pipes.items()],
            "active": ["%d:%s:%d" % (fd - base, CHR[h.name], h.process.pid) for fd, h in red._active.items()],
            "running": bool(red.running),
            "loop": sorted(fd - base for fd in loop.handlers),
        }
        table = ""
        for i in range(WINDOW):
            fd = base + i
            if not _fd_open(fd):
                table += "-"
            else:
                p = next((p for p in allpipes if p.rfd == fd and not p.rfile.closed), None)
                table += "?" if p is None else ("w" if p.wfd is not None else "c")
        fin["fdt"] = table.rstrip("-")
        # descriptors: what the harness itself legitimately holds open now
        expected = sum(1 for _, ps in live.values() for p in ps.values()) + \
            sum(1 for _, ps in live.values() for p in ps.values() if p.wfd is not None)
        fin["fd_growth"] = _nfds() - fds_before - expected
    except Infra:
        raise
    except Exception as e:      # an observation: the code under test raised
        import traceback
        exc = {"harness_exception": "%s: %s" % (type(e).__name__, e), "tb": traceback.format_exc()[-1200:]}
        fin = None
    finally:
        _redmod.os = _saved_os
        for p in allpipes:
            if p.wfd is not None:
                try:
                    os.close(p.wfd)
                except OSError:
                    pass
            try:
                p.rfile.close()
            except OSError:
                pass
        for i in range(WINDOW):
            try:
                os.close(base + i)
            except OSError:
                pass
    obs = {"steps": steps, "final": fin, "written": [[p.pid, p.chan, list(p.written)] for p in allpipes]}
    if exc:
        obs.update(exc)
    return obs


def impl_view(case, obs):
    if obs.get("final") is None:
        return {"raised": obs.get("harness_exception"), "outs": [s["outs"] for s in obs.get("steps", []) if s["op"] != "chg"]}
    f = obs["final"]
    return {"outs": [s["outs"] for s in obs["steps"] if s["op"] != "chg"], "pipes": f["pipes"], "active": f["active"],
            "running": f["running"], "fdt": f["fdt"]}


# ------------------------------------------------------------------------------------------ model side

def model_line(case):
    toks = ["redir", str(case["buffer"]), str(case["pid0"])]
    for op in case["ops"]:
        k = op[0]
        if k == "chg":
            continue            # which stream object is current is not part of the model: deliveries are labelled by channel
        if k == "sp":
            toks += ["sp", "1" if op[1] else "0", "1" if op[2] else "0"]
        elif k == "wr":
            toks += ["wr", str(op[1]), op[2], enc_cps(op[3])]
        elif k == "rd":
            toks += ["rd", str(op[1])]
        elif k == "cw":
            toks += ["cw", str(op[1]), op[2]]
        elif k in ("kill", "reap", "lr"):
            toks += [k, str(op[1])]
        else:
            toks.append(k)
    return " ".join(toks)


def model_parse(case, line):
    if line == "bad-op":
        return {"bad": True}
    outs, pipes, active, running, fdt = line.split("|")
    sp = lambda s, sep: [x for x in s.split(sep)] if s else []
    per_op = [sp(o, ",") for o in outs.split(";")] if [o for o in case["ops"] if o[0] != "chg"] else []
    return {"outs": per_op, "pipes": sp(pipes, ","), "active": sp(active, ","),
            "running": running == "1", "fdt": fdt.rstrip("-")}


# ------------------------------------------------------------------------------------------ oracle

def oracle(case, obs):
    """C17 restated on what the collecting streams received and on the descriptor table."""
    fails = []

    def fail(sig, msg, step=None):
        if not any(f["sig"] == sig for f in fails):
            fails.append({"sig": sig, "msg": msg, "step": step})
    if "harness_exception" in obs:
        fail("redirector-raises", "the code under test raised: %s" % obs["harness_exception"])
    written = {}
    for pid, ch, data in obs.get("written", []):
        written[(pid, ch)] = bytes(data)
    delivered = {}
    eof_seen = set()
    for j, st in enumerate(obs.get("steps", [])):
        # records: right stream, right label, right bytes, nothing dropped
        consumed = st.get("consumed_before")
        for which, name, pid, data in st["records"]:
            data = bytes(data)
            if which != name:
                fail("wrong-stream", "record named %r reached the %s stream" % (name, which), j)
            key = (pid, name)
            if st.get("owner") is not None and [pid, name] != st["owner"]:
                fail("mislabelled", "bytes of worker %s tagged %s" % (st["owner"], [pid, name]), j)
            delivered[key] = delivered.get(key, b"") + data
            if not written.get(key, b"").startswith(delivered[key]):
                fail("not-prefix", "records tagged %s are not a prefix of what that worker wrote "
                     "(lost, duplicated, reordered or mislabelled)" % (key,), j)
        if st["op"] == "rd" and st.get("fd_open"):
            got = sum(len(r[3]) for r in st["records"])
            taken = st["pre_avail"] - (st["post_avail"] if st["post_avail"] is not None else 0)
            if st["post_avail"] is not None and taken != got:
                fail("read-but-not-delivered", "%d bytes left the pipe, %d were delivered" % (taken, got), j)
            if st["pre_avail"] > 0 and got == 0 and case["buffer"] > 0:
                fail("readable-not-read", "a readable pipe was not read", j)
            if st["pre_avail"] > 0 and st.get("would_block"):
                # the harness' pipes are non-blocking so that it survives this; a real worker's pipe is a blocking descriptor
                fail("read-would-block", "one readiness event with %d byte(s) queued, and the handler read again once they "
                     "were gone while the writer is still open: on the blocking pipe of a real worker this read stalls the "
                     "daemon's event loop until the worker writes again or exits" % st["pre_avail"], j)
            if st["pre_avail"] == 0 and st["writer_closed"] and case["buffer"] > 0:
                # the EOF read
                if any(st["still_registered"]):
                    fail("spin-after-eof", "descriptor still watched after the EOF read "
                         "(loop, _active, pipes = %s)" % st["still_registered"], j)
                key = tuple(st["owner"])
                eof_seen.add(key)
                if delivered.get(key, b"") != written.get(key, b""):
                    fail("incomplete-at-eof", "stream %s incomplete at EOF" % (key,), j)
            if st["pre_avail"] == 0 and not st["writer_closed"] and not all(st["still_registered"]):
                fail("unwatched-while-open", "handler removed although the writer is still open", j)
        if st.get("open_unwatched"):
            fail("open-pipe-not-watched", "the redirector is running but pipe %s of a live worker, still open for writing, "
                 "has no handler: what the worker writes from now on is never delivered" % (st["open_unwatched"][0],), j)
        if st.get("stale_stream"):
            fail("delivered-to-replaced-stream", "output of worker %s went to a %s stream object that had been replaced"
                 % (st["stale_stream"][0][1], st["stale_stream"][0][0]), j)
        if st["op"] in ("kill", "reap"):
            if st.get("not_closed"):
                fail("fd-leak", "read ends %s still open after process.stop()" % st["not_closed"], j)
            if st.get("lost"):
                fail("lost-at-close", "worker %d: %d byte(s) of %s still queued in the pipe were dropped when the "
                     "daemon closed its read end (%s path)" % (st["lost"][0][0], st["lost"][0][2], st["lost"][0][1],
                                                                "reap_process" if st["op"] == "reap" else "kill_process"), j)
        # entries do not accumulate per generation: bounded by the peak number of concurrent workers
        if st["pipes"] > 2 * st["peak_live"] or st["active"] > 2 * st["peak_live"]:
            fail("entries-accumulate", "|pipes|=%d |_active|=%d with at most %d concurrent workers so far"
                 % (st["pipes"], st["active"], st["peak_live"]), j)
        if st["active"] > st["pipes"]:
            fail("active-without-pipe", "|_active| > |pipes|", j)
    fin = obs.get("final")
    if fin is not None:
        if fin["fd_growth"] != 0:
            fail("fd-leak", "descriptor table of the daemon grew by %d" % fin["fd_growth"])
        if sorted(int(a.split(":")[0]) for a in fin["active"]) != fin["loop"]:
            fail("loop-out-of-sync", "_active and the loop's handlers differ")
    # after the EOF read the stream is complete, and stays so
    for key in eof_seen:
        if delivered.get(key, b"") != written.get(key, b""):
            fail("incomplete-at-eof", "stream %s incomplete after its EOF read" % (key,))
    return fails[:4]


def nontrivial(case, obs):
    steps = obs.get("steps", [])
    got = any(s["records"] for s in steps)
    fds = [o for s in steps for o in s["outs"] if o.startswith("S:")]
    used = [x for o in fds for x in o.split(":")[2:] if x != "~"]
    reused = len(used) != len(set(used))
    eof = any(o.startswith("EOF:") for s in steps for o in s["outs"])
    return got and (reused or eof)


def stats(cases, impl):
    def cnt(pred):
        return sum(1 for c, o in zip(cases, impl) if pred(c, o))

    def outs(o):
        return [x for s in o.get("steps", []) for x in s["outs"]]
    gens = [sum(1 for op in c["ops"] if op[0] == "sp") for c in cases]
    return {
        "ops_total": sum(len(c["ops"]) for c in cases),
        "max_generations_in_a_case": max(gens) if gens else 0,
        "cases_ge_3_generations": sum(1 for g in gens if g >= 3),
        "cases_with_fd_reuse": cnt(lambda c, o: nontrivial(c, o)),
        "cases_with_chunk_gt_buffer": cnt(lambda c, o: any(op[0] == "wr" and len(op[3]) > c["buffer"] for op in c["ops"])),
        "cases_with_eof_read": cnt(lambda c, o: any(x.startswith("EOF:") for x in outs(o))),
        "cases_with_stale_entry": cnt(lambda c, o: any(x.startswith("STALE:") for x in outs(o))),
        "cases_with_loss_at_close": cnt(lambda c, o: any(x.startswith("L:") for x in outs(o))),
        "cases_with_ebadf": cnt(lambda c, o: any(x.startswith("EBADF") for x in outs(o))),
        "max_concurrent_workers": max([s["peak_live"] for o in impl for s in o.get("steps", [])] or [0]),
        "buffers": {str(b): sum(1 for c in cases if c["buffer"] == b) for b in sorted({c["buffer"] for c in cases})},
    }


# ------------------------------------------------------------------------------------------ generators

class _Sim(object):
    """bookkeeping for the generator only (which pids live, which fd numbers they probably have)"""

    def __init__(self, pid0):
        self.slots = []
        self.live = {}
        self.next = pid0

    def alloc(self):
        for i, s in enumerate(self.slots):
            if s is None:
                self.slots[i] = 1
                return i
        self.slots.append(1)
        return len(self.slots) - 1

    def spawn(self, po, pe):
        pid = self.next
        self.next += 1
        w = {"fd": {}, "wopen": {}, "pend": {}}
        for flag, ch in ((po, "o"), (pe, "e")):
            if flag:
                w["fd"][ch] = self.alloc()
                w["wopen"][ch] = True
                w["pend"][ch] = 0
        self.live[pid] = w
        return pid

    def drop(self, pid):
        w = self.live.pop(pid)
        for fd in w["fd"].values():
            self.slots[fd] = None


def _chunk(rng, buf, big=False):
    n = rng.choice([0, 1, 1, 2, buf - 1, buf, buf, buf + 1, 2 * buf, 2 * buf + 3, 3 * buf]) if not big \
        else rng.randint(buf, 40 * buf)
    n = max(0, n)
    return [rng.randrange(256) for _ in range(n)]


def gen_case(rng, nops, maxw=4, disciplined=None, buffer=None):
    buf = buffer or rng.choice([1, 2, 3, 4, 4, 5, 8, 8, 13, 16])
    pid0 = rng.choice([1, 1, 100, 4242])
    if disciplined is None:
        disciplined = rng.random() < 0.4
    both = rng.random() < 0.7
    sim = _Sim(pid0)
    ops = []
    if rng.random() < 0.9:
        ops.append(["start"])

    def drain(pid, to_eof):
        w = sim.live[pid]
        for ch, fd in w["fd"].items():
            if to_eof and w["wopen"][ch]:
                ops.append(["cw", pid, ch])
                w["wopen"][ch] = False
            reads = -(-w["pend"][ch] // buf) + (1 if to_eof else 0)
            ops.extend(["rd", fd] for _ in range(reads))
            w["pend"][ch] = 0

    dead = []             # pids that have been killed / reaped: candidates for a late remove_redirections
    while len(ops) < nops:
        r = rng.random()
        pids = sorted(sim.live)
        if dead and rng.random() < 0.06:
            # a kill_process that napped while the periodic check reaped its worker (and maybe a successor took the numbers)
            ops.append(["lr", rng.choice(dead)])
            continue
        if (not pids or (r < 0.12 and len(pids) < maxw)):
            po, pe = (True, True) if both else rng.choice([(True, True), (True, False), (False, True), (False, False)])
            sim.spawn(po, pe)
            ops.append(["sp", int(po), int(pe)])
        elif r < 0.15:
            ops.append(["chg", rng.choice("oe")])          # the stream object of a channel is replaced (set …_stream.*)
        elif r < 0.45:
            pid = rng.choice(pids)
            ch = rng.choice("oe")
            data = _chunk(rng, buf, big=rng.random() < 0.03)
            ops.append(["wr", pid, ch, data])
            w = sim.live[pid]
            if ch in w["fd"] and w["wopen"][ch]:
                w["pend"][ch] += len(data)
        elif r < 0.75:
            cands = [fd for w in sim.live.values() for ch, fd in w["fd"].items()
                     if w["pend"][ch] > 0 or not w["wopen"][ch]]
            if cands and rng.random() < 0.85:
                fd = rng.choice(cands)
            else:
                fd = rng.randrange(0, len(sim.slots) + 2)
            ops.append(["rd", fd])
            for w in sim.live.values():
                for ch, f in w["fd"].items():
                    if f == fd:
                        w["pend"][ch] = max(0, w["pend"][ch] - buf)
        elif r < 0.80:
            pid = rng.choice(pids)
            ch = rng.choice("oe")
            ops.append(["cw", pid, ch])
            if ch in sim.live[pid]["wopen"]:
                sim.live[pid]["wopen"][ch] = False
        elif r < 0.88:
            pid = rng.choice(pids)
            if disciplined:
                drain(pid, to_eof=False)
            ops.append(["kill", pid])
            sim.drop(pid)
            dead.append(pid)
        elif r < 0.96:
            pid = rng.choice(pids)
            if disciplined:
                drain(pid, to_eof=True)
            ops.append(["reap", pid])
            sim.drop(pid)
            dead.append(pid)
        elif r < 0.975 and not disciplined:
            ops.append(["stop"])
        elif r < 0.99:
            ops.append(["start"])
        else:
            # ops naming a worker that does not exist (yet / any more)
            k = rng.choice(["kill", "reap", "wr", "cw"])
            ghost = rng.choice([sim.next + rng.randint(0, 3), max(0, pid0 - 1)])
            ops.append({"kill": ["kill", ghost], "reap": ["reap", ghost], "wr": ["wr", ghost, "o", [1, 2]],
                        "cw": ["cw", ghost, "e"]}[k])
    return {"buffer": buf, "pid0": pid0, "ops": ops, "disciplined": bool(disciplined)}


def gen_generations(rng, gens, disciplined, maxw=3):
    """many generations of workers: spawn, chat, die (kill or self-exit), respawn"""
    buf = rng.choice([4, 8, 16])
    pid0 = 1
    sim = _Sim(pid0)
    ops = [["start"]]
    for _ in range(maxw):
        sim.spawn(True, True)
        ops.append(["sp", 1, 1])
    for g in range(gens):
        pid = rng.choice(sorted(sim.live))
        w = sim.live[pid]
        for _ in range(rng.randint(1, 3)):
            ch = rng.choice("oe")
            data = _chunk(rng, buf)
            ops.append(["wr", pid, ch, data])
            w["pend"][ch] += len(data)
        how = rng.choice(["kill", "reap", "reap"])
        if disciplined or rng.random() < 0.5:
            for ch, fd in w["fd"].items():
                if how == "reap":
                    ops.append(["cw", pid, ch])
                n = -(-w["pend"][ch] // buf) + (1 if how == "reap" else 0)
                ops.extend(["rd", fd] for _ in range(n))
        # a sibling keeps talking meanwhile
        sib = rng.choice(sorted(sim.live))
        ops.append(["wr", sib, rng.choice("oe"), _chunk(rng, buf)])
        ops.append([how, pid])
        sim.drop(pid)
        sim.spawn(True, True)
        ops.append(["start"])          # Watcher.spawn_process calls start() before every spawn
        ops.append(["sp", 1, 1])
        if how == "reap" and rng.random() < 0.4:
            # the kill_process that was napping on the reaped worker wakes up now that the successor has its numbers
            ops.append(["lr", pid])
            new = max(sim.live)
            d2 = _chunk(rng, buf)
            ops.append(["wr", new, "o", d2])
            sim.live[new]["pend"]["o"] += len(d2)
            ops.extend(["rd", sim.live[new]["fd"]["o"]] for _ in range(-(-len(d2) // buf)))
            sim.live[new]["pend"]["o"] = 0
        if sib in sim.live:
            for ch, fd in sim.live[sib]["fd"].items():
                ops.append(["rd", fd])
    return {"buffer": buf, "pid0": pid0, "ops": ops, "disciplined": bool(disciplined)}


def generate(rng, tier):
    cases = []
    # small exhaustive block: every chunk size around the buffer, read to EOF, then a respawn on the same numbers
    for buf in (1, 2, 4):
        for n in range(0, 3 * buf + 2):
            data = [(7 * i + n) % 256 for i in range(n)]
            reads = [["rd", 0]] * (n // buf + 3)
            cases.append({"buffer": buf, "pid0": 1, "disciplined": True,
                          "ops": [["start"], ["sp", 1, 1], ["wr", 1, "o", data], ["wr", 1, "e", data[::-1]]] + reads +
                                 [["cw", 1, "o"], ["rd", 0], ["rd", 0], ["rd", 1], ["rd", 1], ["cw", 1, "e"], ["rd", 1],
                                  ["reap", 1], ["sp", 1, 1], ["wr", 2, "o", [9]], ["rd", 0], ["rd", 1]]})
    if tier == "quick":
        n_small, n_mid, longs = 220, 60, [(30, True), (30, False)]
    else:
        n_small, n_mid, longs = 6000, 1500, [(200, True), (250, False), (400, True), (300, False)] * 3
    for _ in range(n_small):
        cases.append(gen_case(rng, rng.randint(6, 40)))
    for _ in range(n_mid):
        cases.append(gen_case(rng, rng.randint(60, 160), maxw=4))
    for g, d in longs:
        cases.append(gen_generations(rng, g, d))
    return cases


def corpus():
    return [
        # F17: output still queued in the pipe when reap_process closes it is never delivered
        {"buffer": 4, "pid0": 1, "disciplined": False,
         "ops": [["start"], ["sp", 1, 1], ["wr", 1, "o", [104, 105]], ["reap", 1]]},
        # ... and the entries of the closed descriptors stay behind until the numbers are reused
        {"buffer": 4, "pid0": 1, "disciplined": False,
         "ops": [["start"], ["sp", 1, 1], ["reap", 1], ["rd", 0], ["sp", 1, 1], ["wr", 2, "o", [1, 2, 3, 4, 5]],
                 ["rd", 0], ["rd", 0], ["cw", 2, "o"], ["rd", 0], ["rd", 0]]},
        # stale stdout entry whose number is taken by the next worker's stderr
        {"buffer": 2, "pid0": 7, "disciplined": False,
         "ops": [["start"], ["sp", 1, 1], ["reap", 7], ["sp", 0, 1], ["wr", 8, "e", [5, 6, 7]], ["rd", 0], ["rd", 0],
                 ["rd", 1], ["sp", 1, 0], ["wr", 9, "o", [8]], ["rd", 1], ["stop"], ["start"]]},
        # registration while not running, then start
        {"buffer": 3, "pid0": 1, "disciplined": True,
         "ops": [["sp", 1, 1], ["wr", 1, "e", [1, 2, 3, 4]], ["rd", 1], ["start"], ["rd", 1], ["rd", 1], ["rd", 1],
                 ["kill", 1], ["rd", 1]]},
    ]


def shrink(case, failure):
    """drop ops from the end / one at a time while the same signature stays"""
    sig = failure.get("sig")

    def bad(c):
        try:
            return any(f["sig"] == sig for f in oracle(c, impl_run(c)))
        except Infra:
            return False
    cur = dict(case)
    if failure.get("step") is not None:
        c2 = dict(cur, ops=cur["ops"][: failure["step"] + 1])
        if bad(c2):
            cur = c2
    i = 0
    budget = 400
    while i < len(cur["ops"]) and budget > 0:
        budget -= 1
        c2 = dict(cur, ops=cur["ops"][:i] + cur["ops"][i + 1:])
        if bad(c2):
            cur = c2
        else:
            i += 1
    return cur
