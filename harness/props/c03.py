from harness.corecheck import make
MODULE = make("C03", ["CircusProofs/Props/C03.lean"], ["CircusProofs/Core/Pres.lean"])
