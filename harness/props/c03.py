"""C03: the core state machine, plus the live cross-check of the simulated kernel (harness/props/live_core.py: the same
scenarios on real processes; no Lean side)."""
from harness.corecheck import make
from harness.props import live_core
PARTS = [make("C03", ["CircusProofs/Props/C03.lean", "CircusProofs/Props/C03Run.lean"],
              ["CircusProofs/Core/Pres.lean", "CircusProofs/Core/KStep.lean", "CircusProofs/Core/Generic.lean",
               "CircusProofs/Core/SlotFree.lean", "CircusProofs/Core/PidInv.lean", "CircusProofs/Core/SigKernel.lean",
               "CircusProofs/Core/SigDefs.lean", "CircusProofs/Core/SigSync.lean", "CircusProofs/Core/SigPrim.lean",
               "CircusProofs/Core/SigKill.lean", "CircusProofs/Core/SigExec.lean", "CircusProofs/Core/SigRun.lean"]),
         live_core]
