"""C03: the core state machine, plus the live cross-check of the simulated kernel (harness/props/live_core.py: the same
scenarios on real processes; no Lean side)."""
from harness.corecheck import make
from harness.props import live_core
PARTS = [make("C03", ["CircusProofs/Props/C03.lean"],
              ["CircusProofs/Core/Pres.lean"]),
         live_core]
