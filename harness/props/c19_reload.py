"""C19 after reloadconfig: "whenever several watchers are started or restarted together, they are started in descending priority
order" also holds for a daemon whose watcher list has been rebuilt by `Arbiter.reload_from_config` (watchers added, re-created,
removed — the reload appends to `arbiter.watchers`, and every group start sorts by priority again: `iter_watchers`).  Reuses the
reloadconfig harness of C12 (the real load_from_config / reloadconfig on the simulated kernel, the Reload model on the Lean side
for the reloads themselves); after the last reload every watcher is stopped and started again by name-less `stop` / `start`
requests, and C19's own clause judges the order of the spawns."""
from harness.props import c12 as _c12
from harness import reloadsim as _R

LEAN_PROPS = []                      # the order theorems (C19_sort_*, C19_start_uses_priority_order …) are in the core part
LEAN_LEMMAS = []
RULE = ("edit sequences of the C12 generator in which the watchers carry distinct priorities (added, re-created and removed "
        "watchers), then `stop` and `start` of all watchers; judged by the priority-order clause of C19")
ASSUMPTIONS = ["priorities are pairwise distinct in the final file (ties keep list order, which a reload changes by design)",
               "every worker obeys its stop signal at once (as in the C12 layer)"]
TRUSTED_EXTRA = _c12.TRUSTED_EXTRA

model_line = _c12.model_line
model_parse = _c12.model_parse
first_diff = _c12.first_diff
if hasattr(_c12, "views_equal"):
    views_equal = _c12.views_equal


def generate(rng, tier):
    out = []
    n = 30 if tier == "quick" else 300
    while len(out) < n:
        c = _c12.gen_case(rng, wild=False)
        if any(_c12.has_clash(v) for v in c["versions"]):
            continue
        # distinct priorities, assigned per watcher name so that a watcher keeps its priority across versions unless the
        # generator's own `priority` edits say otherwise (those lines are dropped)
        names = sorted(set(w[0] for v in c["versions"] for w in v["watchers"]))
        prio = dict(zip(names, rng.sample(range(0, 3 * len(names) + 3), len(names))))
        for v in c["versions"]:
            for w in v["watchers"]:
                w[1][:] = [o for o in w[1] if o[0] not in ("priority", "autostart")] + [["priority", str(prio[w[0]])]]
        c["family"] = "priorities"
        out.append(c)
    return out


def corpus():
    return []


def impl_run(case):
    steps = _R.run_versions(case["environ"], _c12.texts_of(case), then_restart_all=True)
    return {"steps": steps[:len(case["versions"])], "fresh": [], "after": steps[len(case["versions"]):]}


def impl_view(case, obs):
    return _c12.impl_view(case, obs)


def oracle(case, obs):
    if "harness_exception" in obs:
        return [{"sig": "harness-exception", "msg": obs["harness_exception"]}]
    fails = []
    for o in obs.get("after", []):
        order = []
        for n in o.get("spawn_order", []):
            if n not in order:
                order.append(n)
        pr = o.get("priorities", {})
        known = [n for n in order if n in pr]
        want = sorted(known, key=lambda n: -pr[n])
        if known != want:
            fails.append({"sig": "c19:start-order-after-reloadconfig", "step": len(case["versions"]),
                          "msg": "after the reloads, `start` of all watchers spawned in the order %r; by descending priority it is %r "
                                 "(priorities %r)" % (known, want, {n: pr[n] for n in known})})
    return fails


def nontrivial(case, obs):
    return len(case.get("versions", [])) >= 2 and bool(obs.get("after"))


def stats(cases, impl):
    return {"reload_sequences": len(cases), "with_group_start": sum(1 for o in impl if o.get("after"))}
