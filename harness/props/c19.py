from harness.corecheck import make
MODULE = make("C19", ["CircusProofs/Props/C19.lean"], ["CircusProofs/Core/Pres.lean", "CircusProofs/Core/Init.lean"])
