from harness.corecheck import make
MODULE = make("C19", ["CircusProofs/Props/C19.lean"], ["CircusProofs/Lemmas/Core.lean"])
