"""C19: the core state machine (priority order, warm-up pacing, autostart) and — for a daemon whose watcher list was rebuilt by
reloadconfig — harness/props/c19_reload.py."""
from harness.corecheck import make
from harness.props import c19_reload
PARTS = [make("C19", ["CircusProofs/Props/C19.lean"], ["CircusProofs/Core/Pres.lean", "CircusProofs/Core/Init.lean"]),
         c19_reload]
