"""C05 in the stream redirector — "handling ... never stalls the daemon's event loop", for the one place outside the core model
where the daemon reads from a descriptor a worker controls: `Redirector.Handler.__call__` (one `os.read` per readiness event on
the worker's pipe, which is a *blocking* descriptor in production).  Reuses the Redirector harness of C17
(harness/props/c17_redirector.py: the real Redirector over real pipes, `Circus.Redirector.step` on the Lean side, where a ready
event is exactly one read: `Circus.Redirector.onReady`); only the oracle is C05's: a handler call never reads again once the
bytes that made the descriptor ready are gone while the writer is still open (the harness' pipes are non-blocking, so such a
read shows up as EAGAIN instead of hanging the check)."""
from harness.props import c17_redirector as _r

LEAN_PROPS = []                      # the theorems this part leans on are C17's (C17_no_spin …); C05's own are in the core part
LEAN_LEMMAS = []
RULE = "a 150-case sample (quick) of the C17 redirector generator, chunk sizes equal to and around the read buffer included, judged by the never-blocks oracle of C05"
ASSUMPTIONS = ["a worker's pipe is a blocking descriptor in production (subprocess.PIPE): a read on an empty pipe whose writer is open does not return"]
TRUSTED_EXTRA = _r.TRUSTED_EXTRA

impl_run = _r.impl_run
impl_view = _r.impl_view
model_line = _r.model_line
model_parse = _r.model_parse
for _n in ("views_equal", "first_diff", "shrink"):
    if hasattr(_r, _n):
        globals()[_n] = getattr(_r, _n)


def generate(rng, tier):
    cases = _r.generate(rng, tier)
    return cases[:150 if tier == "quick" else 1500]


def corpus():
    return []


def oracle(case, obs):
    return [f for f in _r.oracle(case, obs) if f["sig"] in ("read-would-block", "redirector-raises")]


nontrivial = _r.nontrivial


def stats(cases, impl):
    return {"redirector_cases": len(cases),
            "ready_events_with_full_buffer": sum(1 for c, o in zip(cases, impl) for st in o.get("steps", [])
                                                 if st.get("op") == "rd" and st.get("pre_avail") and case_buf(c)
                                                 and st["pre_avail"] % case_buf(c) == 0)}


def case_buf(c):
    return c.get("buffer") or 0
