from harness.corecheck import make
MODULE = make("C15", ["CircusProofs/Props/C15.lean"],
              ["CircusProofs/Core/Pres.lean", "CircusProofs/Core/Generic.lean", "CircusProofs/Core/SlotFree.lean",
               "CircusProofs/Core/DirInv.lean", "CircusProofs/Core/Init.lean"])
