"""C15: the core state machine (add / rm / lookups through the command path) and, for watchers that come and go through
reloadconfig, harness/props/c15_reload.py."""
from harness.corecheck import make
from harness.props import c15_reload
PARTS = [make("C15", ["CircusProofs/Props/C15.lean"],
              ["CircusProofs/Core/Pres.lean", "CircusProofs/Core/Generic.lean", "CircusProofs/Core/SlotFree.lean",
               "CircusProofs/Core/DirInv.lean", "CircusProofs/Core/Init.lean", "CircusProofs/Core/OptionsCmd.lean"]),
         c15_reload]
