from harness.corecheck import make
MODULE = make("C15", ["CircusProofs/Props/C15.lean"], ["CircusProofs/Lemmas/Core.lean"])
