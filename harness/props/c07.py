"""C07 — managed sockets reach every worker generation and are never rebound.

Correspondence (kind "hist"): REAL `circus.sockets.CircusSocket` / `CircusSockets` objects (inet on
127.0.0.1, unix paths in a scratch directory), REAL `circus.watcher.Watcher.spawn_process` /
`reap_process` and `circus.process.Process.__init__ / _get_sockets_fds / format_args / spawn / stop`
with a recording `Popen` patched into `circus.process`, against `Circus.Sockets.step`.

The recorder does what `subprocess.Popen` does to the parent's descriptor table (an `os.pipe()` per
`stdout=PIPE` / `stderr=PIPE`, write ends closed on return, read ends kept as `.stdout` / `.stderr`)
and, at the moment a real `Popen` would fork, photographs every open descriptor of the daemon:
number, identity of the open file (`fstat` inode + access mode), socket or not, `os.get_inheritable`,
`SO_ACCEPTCONN`, `getsockname`.  What the child would inherit is computed from that photograph by the
rule of PEP 446 (`close_fds=True`: nothing above 2; else the inheritable ones).  The "live" kind checks
that rule itself: a real child is forked through the real `psutil.Popen` and reports what it sees.

Descriptor numbers: the harness fills every free descriptor below BASE with a dummy, so whatever the
code under test opens gets "the lowest free number >= BASE" from the real kernel, which is the model's
`lowestFree` on a table whose first BASE slots are occupied.  Numbers in the view are the real ones.
Identities are renamed in order of first appearance on both sides.

Kind "sim": the REAL `Arbiter` (harness/sim.py: simulated kernel, harness as scheduler) executes real
`restart` / `reload` / `incr` / `decr` / `kill` requests, worker deaths and the periodic check on watchers
that refer to real sockets; every `Popen` call is photographed as above; the model is then driven with
the observed sequence of spawns (trace validation) and must predict argv, close_fds and the inherited
descriptors of each of them.

Kind "cfg": the REAL `Arbiter.load_from_config` (harness/reloadsim.py) with `[socket:NAME]` sections (unix paths in
the scratch directory, inet on 127.0.0.x), `reloadconfig` after every rewrite of the file (changed, deleted,
added socket sections), restarts, deaths, `quit`; compared with `Circus.Sockets.reloadSockets` / `step .stop`
up to descriptor numbers: dict, descriptors, unix-socket FILES in the directory, argv / close_fds / inherited
sockets / descriptor 0 of every spawn.
"""
import os
import random
import re
import shlex
import shutil
import socket
import stat
import sys
import tempfile

from harness.core import enc_cps, dec_cps, Infra

LEAN_PROPS = ["CircusProofs/Props/C07.lean"]
LEAN_LEMMAS = ["CircusProofs/Lemmas/Sockets.lean"]
RULE = ("cases = (1-4 sockets inet/unix, stream / seqpacket / datagram as far as the kernel's socket() accepts the "
        "combination, some so_reuseport (inet), some replace (unix), names in mixed letter case, sometimes two "
        "names differing only by case; 1-4 watchers, some with use_sockets, some with stdin_socket (an existing "
        "socket, rarely a missing one or another letter case; regularly stdin_socket WITHOUT use_sockets), "
        "cmd/args (none, string, list) with 0-3 $(circus.sockets.NAME) / ((circus.sockets.NAME)) references in "
        "random letter case, some to missing sockets, 0-2 captured output pipes; history of 5-40 ops over "
        "initialize / spawn / death / restart / reload / incr / decr / open+close of unrelated (inheritable or "
        "not) files / stop, so that several worker generations are spawned while descriptor numbers of pipes and "
        "files move around); kind sim = real Arbiter commands on the simulated kernel; kind cfg = real Arbiter "
        "from a configuration file, reloadconfig after rewrites of the [socket:] sections (changed path / "
        "backlog / type, deleted, added, two sockets on one path, replace) and of the watcher sections (a watcher "
        "added by a later version, an option changed so that the watcher is created anew), quit; kind live (thorough) = real "
        "forked children reporting their descriptor table, descriptor 0 included; every random choice from "
        "VERIF_SEED; non-trivial = a use_sockets worker of a second or later generation was handed a managed "
        "socket while an unrelated descriptor number had been reused (cfg: a reload really changed the dict); "
        "distinct by hash")
ASSUMPTIONS = [
    "bind/listen succeed on a fresh socket whose unix path is free (loopback, port 0 or a port reserved by the "
    "harness; unix paths in a private scratch directory); so_reuseport only on inet sockets; socket types: "
    "SOCK_STREAM, SOCK_SEQPACKET, SOCK_DGRAM (SOCK_RAW / SOCK_RDM need privileges / are not supported here)",
    "cmd/args refer to no circus.* key other than circus.sockets.* (general substitution is C13); shell=False; "
    "no hooks; uid/gid/rlimits unset; close_child_stdin is the default",
    "what a child inherits is computed from close_fds, pass_fds and os.get_inheritable by the rule of PEP 446, what "
    "it has on descriptor 0 from the dup2 calls preexec_fn makes when the harness runs it with a recording `os` "
    "(both checked against real forked children by the `live` cases, as is `Popen raises SubprocessError when "
    "preexec_fn fails`); descriptors 1, 2 are outside the view",
    "descriptor numbers: lowest free number (POSIX); the harness process holds nothing at or above BASE "
    "besides what the code under test opens (cfg cases are compared up to descriptor numbers)",
    "restart / reload / incr / decr are the sequences of spawn_process / reaping that Watcher._restart, "
    "_reload(graceful), set_numprocesses -> manage_processes perform (hist: played by the harness with the real "
    "spawn_process / reap_process; sim, cfg: the real coroutines)",
    "C07's theorems about one socket for the whole life of the daemon exclude histories with a reloadconfig that "
    "changes socket sections (NoReload); those histories are covered by the C08 theorems and by no-leak; the "
    "iteration order of the Python sets in reload_from_config is a parameter (the harness reproduces it)",
    "the per-worker so_reuseport socket is released when Popen returns because CPython drops the last "
    "reference (`self._sockets = []`); a socket whose bind failed in a reload when its traceback is collected",
]
TRUSTED_EXTRA = ["recording Popen, descriptor photographs and the BASE filler of harness/props/c07.py; "
                 "harness/sim.py for the `sim` cases"]

BASE = 100
SPAN = 96


# --------------------------------------------------------------------------- generator

_NAMES = ["web", "api", "Web", "WEB", "a.b", "x-1", "S_2", "rp", "Api", "main", "Main", "q"]
_MISSING = ["nosuch", "webb", "we", "sockets"]


def _rcase(rng, s):
    return "".join(c.upper() if rng.random() < 0.35 else c.lower() if rng.random() < 0.5 else c for c in s)


def _ref(rng, name, exact):
    pre = "circus.sockets."
    if not exact:
        pre = _rcase(rng, pre)
        name = _rcase(rng, name)
    if rng.random() < 0.8:
        return "$(" + pre + name + ")"
    return "((" + pre + name + "))"


def _gen_sockets(rng):
    n = rng.choice([1, 1, 2, 2, 3, 4])
    names = []
    collide = rng.random() < 0.08
    while len(names) < n:
        if collide and names and rng.random() < 0.7:
            base = rng.choice(names)
            cand = _rcase(rng, base)
        else:
            cand = rng.choice(_NAMES)
        if cand in names:
            continue
        if not collide and cand.lower() in [x.lower() for x in names]:
            continue
        names.append(cand)
    socks = []
    sup = _supported()
    for nm in names:
        unix = rng.random() < 0.45
        reuse = (not unix) and rng.random() < 0.25
        typ = rng.choice(["stream", "stream", "stream", "seqpacket", "dgram"])
        if (unix, typ) not in sup:
            typ = "stream"
        socks.append({"name": nm, "unix": unix, "reuseport": reuse, "type": typ,
                      "replace": unix and rng.random() < 0.2})
    return socks


_SUP = []
_TYPES = {"stream": socket.SOCK_STREAM, "seqpacket": socket.SOCK_SEQPACKET, "dgram": socket.SOCK_DGRAM}
_TYPE_NAME = {"stream": "SOCK_STREAM", "seqpacket": "SOCK_SEQPACKET", "dgram": "SOCK_DGRAM"}
_TYPE_TOK = {"stream": "s", "seqpacket": "q", "dgram": "d"}


def _supported():
    """the (unix?, type) combinations socket() accepts on this kernel (the others are not generated)"""
    if not _SUP:
        ok = set()
        for unix in (False, True):
            for name, t in _TYPES.items():
                try:
                    socket.socket(socket.AF_UNIX if unix else socket.AF_INET, t).close()
                    ok.add((unix, name))
                except OSError:
                    pass
        _SUP.append(ok)
    return _SUP[0]


def _gen_text(rng, socks, nrefs, words):
    """a command line: plain words and references, some glued to other text"""
    toks = []
    for _ in range(words):
        toks.append(rng.choice(["srv", "--fd", "-p", "x=1", "run", "--bind", "a b".split()[0], "'q r'"]))
    for _ in range(nrefs):
        r = rng.random()
        if r < 0.12:
            name, exact = rng.choice(_MISSING), rng.random() < 0.5
        else:
            name, exact = rng.choice(socks)["name"], rng.random() < 0.55
        ref = _ref(rng, name, exact)
        g = rng.random()
        if g < 0.2:
            ref = "--fd=" + ref
        elif g < 0.3:
            ref = "fd:" + ref + ":x"
        elif g < 0.35:
            ref = ref + ref
        toks.insert(rng.randrange(len(toks) + 1) if toks else 0, ref)
    return toks


def _gen_watcher(rng, socks, force_refs=False):
    nrefs = rng.choice([0, 1, 1, 2, 2, 3])
    if force_refs and nrefs == 0:
        nrefs = 1
    in_cmd = rng.randint(0, nrefs)
    cmd_toks = ["prog"] + _gen_text(rng, socks, in_cmd, rng.randint(0, 2))
    cmd = " ".join(cmd_toks)
    if rng.random() < 0.03:
        cmd += " 'unclosed"
    kind = rng.choice(["none", "str", "list", "list"])
    rest = _gen_text(rng, socks, nrefs - in_cmd, rng.randint(0, 2))
    if kind == "none":
        cmd = " ".join([cmd] + rest)
        args = None
    elif kind == "str":
        args = " ".join(rest)
    else:
        args = rest
    stdin = None
    r = rng.random()
    if r < 0.25:
        stdin = rng.choice(socks)["name"]
    elif r < 0.29:
        stdin = rng.choice(_MISSING + [_rcase(rng, rng.choice(socks)["name"])])
    return {"use_sockets": rng.random() < 0.6, "cmd": cmd, "args": args, "np": rng.choice([0, 1, 1, 2, 2, 3]),
            "pipe_out": rng.random() < 0.6, "pipe_err": rng.random() < 0.5, "max_retry": rng.choice([1, 2, 3]),
            "stdin": stdin}


def _gen_ops(rng, nw, n):
    ops = []
    if rng.random() < 0.9:
        pre = rng.choice([0, 0, 0, 1, 2])
        for _ in range(pre):
            ops.append(rng.choice([["O", int(rng.random() < 0.5)], ["S", rng.randrange(nw)]]))
        ops.append(["I"])
    live = 0
    others = 0
    stopped = False
    while len(ops) < n:
        r = rng.random()
        w = rng.randrange(nw)
        if r < 0.28:
            ops.append(["S", w]); live += 1
        elif r < 0.43:
            ops.append(["D", rng.randrange(max(1, live + 1))]); live = max(0, live - 1)
        elif r < 0.51:
            ops.append(["R", w])
        elif r < 0.59:
            ops.append(["L", w])
        elif r < 0.66:
            ops.append(["+", w, rng.choice([1, 1, 2])]); live += 1
        elif r < 0.72:
            ops.append(["-", w, rng.choice([1, 1, 2])])
        elif r < 0.84:
            ops.append(["O", int(rng.random() < 0.4)]); others += 1
        elif r < 0.95:
            ops.append(["C", rng.randrange(max(1, others + 1))]); others = max(0, others - 1)
        elif r < 0.97:
            ops.append(["I"])
        elif not stopped and len(ops) > n // 2:
            ops.append(["X"]); stopped = True
    if not stopped and rng.random() < 0.35:
        ops.append(["X"])
        if rng.random() < 0.3:
            ops.append(["S", rng.randrange(nw)])
    return ops


def gen_hist(rng):
    socks = _gen_sockets(rng)
    nw = rng.choice([1, 2, 2, 3, 4])
    ws = [_gen_watcher(rng, socks, force_refs=(i == 0)) for i in range(nw)]
    if not any(w["use_sockets"] for w in ws):
        ws[0]["use_sockets"] = True
    if rng.random() < 0.3:              # inetd style: stdin_socket without use_sockets
        ws[-1]["stdin"] = rng.choice(socks)["name"]
        if len(ws) > 1:
            ws[-1]["use_sockets"] = False
    return {"kind": "hist", "sockets": socks, "watchers": ws, "ops": _gen_ops(rng, nw, rng.randint(5, 40))}


def gen_sim(rng):
    socks = _gen_sockets(rng)
    for s in socks:
        s["reuseport"] = False if rng.random() < 0.7 else s["reuseport"]
    nw = rng.choice([1, 2, 2, 3])
    ws = []
    for i in range(nw):
        w = _gen_watcher(rng, socks, force_refs=(i == 0))
        w["cmd"] = w["cmd"].replace(" 'unclosed", "")
        w["np"] = rng.choice([1, 1, 2, 3])
        w["pipe_out"] = w["pipe_err"] = False
        if w["stdin"] is not None and w["stdin"] not in [s["name"] for s in socks]:
            w["stdin"] = None
        ws.append(w)
    ws[0]["use_sockets"] = True
    acts = []
    for _ in range(rng.randint(4, 14)):
        r = rng.random()
        w = rng.randrange(nw)
        if r < 0.22:
            acts.append(["restart", w])
        elif r < 0.44:
            acts.append(["reload", w, rng.random() < 0.8, rng.random() < 0.3])
        elif r < 0.58:
            acts.append(["incr", w, rng.choice([1, 2])])
        elif r < 0.7:
            acts.append(["decr", w, 1])
        elif r < 0.9:
            acts.append(["die", rng.randrange(8)])
        elif r < 0.95:
            acts.append(["restart_all"])
        else:
            acts.append(["restart_pat", rng.choice(["w*", "w?", "W*"])])       # a pattern that matches every watcher
    if rng.random() < 0.5:
        acts.append(["quit"])
    return {"kind": "sim", "sockets": socks, "watchers": ws, "acts": acts}


_CFG_NAMES = ["web", "adm", "api", "q", "x-1"]


def _cfg_sock(rng, name, used_addrs):
    sup = _supported()
    unix = rng.random() < 0.7
    typ = rng.choice(["stream", "stream", "seqpacket", "dgram"])
    if (unix, typ) not in sup:
        typ = "stream"
    if used_addrs and rng.random() < 0.25:
        addr = rng.choice(sorted(used_addrs))            # a path / host another socket uses or used
    else:
        addr = rng.randrange(1, 9)
    used_addrs.add(addr)
    return {"name": name, "unix": unix, "reuseport": False, "type": typ, "addr": addr,
            "replace": unix and rng.random() < 0.35, "opts": rng.choice([0, 0, 1])}


def gen_cfg(rng):
    """the real Arbiter from a configuration file; reloadconfig with changed / added / deleted socket sections"""
    used = set()
    names = rng.sample(_CFG_NAMES, rng.choice([1, 2, 2, 3]))
    cur = [_cfg_sock(rng, n, used) for n in names]
    # no two sockets of the first version on the same path: circusd would not start
    seen = set()
    for k in cur:
        while (k["unix"], k["addr"]) in seen:
            k["addr"] = rng.randrange(1, 9)
        seen.add((k["unix"], k["addr"]))
        used.add(k["addr"])
    versions = [[dict(k) for k in cur]]
    for _ in range(rng.choice([1, 1, 2, 3])):
        nxt = []
        for k in cur:
            r = rng.random()
            if r < 0.2:
                continue                                     # deleted
            k = dict(k)
            if r < 0.45:
                k["addr"] = rng.choice(sorted(used)) if rng.random() < 0.3 else rng.randrange(1, 9)   # path changed
                used.add(k["addr"])
            elif r < 0.55:
                k["opts"] = 1 - k["opts"]                    # backlog changed
            elif r < 0.62 and (k["unix"], "seqpacket") in _supported():
                k["type"] = "seqpacket" if k["type"] != "seqpacket" else "stream"
            nxt.append(k)
        free = [n for n in _CFG_NAMES if n not in [k["name"] for k in nxt]]
        if free and rng.random() < 0.45:
            nxt.append(_cfg_sock(rng, rng.choice(free), used))
        if not nxt:
            nxt.append(_cfg_sock(rng, rng.choice(_CFG_NAMES), used))
        versions.append([dict(k) for k in nxt])
        cur = nxt
    all_names = sorted(set(k["name"] for v in versions for k in v))
    ws = []
    for i in range(rng.choice([1, 2])):
        refs = rng.sample(all_names, min(len(all_names), rng.choice([0, 1, 1, 2])))
        in_cmd = rng.random() < 0.5
        toks = ["$(circus.sockets.%s)" % (_rcase(rng, n) if rng.random() < 0.3 else n) for n in refs]
        ws.append({"use_sockets": rng.random() < 0.7,
                   "cmd": " ".join(["prog"] + (toks if in_cmd else [])),
                   "args": " ".join(["run"] + ([] if in_cmd else toks)),
                   "np": rng.choice([1, 1, 2]), "pipe_out": False, "pipe_err": False, "max_retry": 2,
                   "stdin": (rng.choice(versions[0])["name"] if rng.random() < 0.2 else None)})
        # watcher sections are rewritten too: the section appears only from a later version on (reloadconfig adds the
        # watcher), or an option that is not numprocesses changes (reloadconfig stops the watcher and creates it anew) —
        # the first workers of such a watcher must get the sockets like everybody else
        gts = [0.3]
        for _ in range(1, len(versions)):
            gts.append(rng.choice([0.2, 0.4, 0.5]) if rng.random() < 0.35 else gts[-1])
        ws[-1]["gt"] = gts
        ws[-1]["from"] = rng.randrange(1, len(versions)) if (i > 0 and rng.random() < 0.4) else 0
    acts = []
    for v in range(1, len(versions)):
        if rng.random() < 0.4:
            acts.append(rng.choice([["restart"], ["die", rng.randrange(4)]]))
        acts.append(["reload", v])
        if rng.random() < 0.4:
            acts.append(rng.choice([["restart"], ["die", rng.randrange(4)]]))
    if rng.random() < 0.85:
        acts.append(["quit"])
    return {"kind": "cfg", "versions": versions, "watchers": ws, "acts": acts}



def gen_live(rng):
    socks = _gen_sockets(rng)
    while len(set(s["name"].lower() for s in socks)) < len(socks):      # the live part is about inheritance
        socks = _gen_sockets(rng)
    for s in socks:
        s["reuseport"] = False
    ws = []
    for i in range(2):
        names = [rng.choice(socks)["name"] for _ in range(rng.randint(1, 2))]
        ws.append({"use_sockets": i == 0, "names": [_rcase(rng, n) if rng.random() < 0.5 else n for n in names],
                   "pipe_out": rng.random() < 0.5, "pipe_err": rng.random() < 0.5})
    # inetd style: stdin_socket without use_sockets; and a stdin_socket that does not exist (Popen must raise)
    ws.append({"use_sockets": False, "names": [], "pipe_out": rng.random() < 0.5, "pipe_err": False,
               "stdin": rng.choice(socks)["name"]})
    ws.append({"use_sockets": rng.random() < 0.5, "names": [], "pipe_out": False, "pipe_err": False,
               "stdin": "nosuch"})
    ops = [["I"]]
    spawns = 0
    nspawn = rng.randint(3, 5)          # 4 live cases per thorough run: at most 20 real forks
    while spawns < nspawn:
        r = rng.random()
        if r < 0.5:
            ops.append(["S", rng.choice([0, 1, 2, 2, 3])]); spawns += 1
        elif r < 0.7:
            ops.append(["O", int(rng.random() < 0.5)])
        elif r < 0.85:
            ops.append(["C", 0])
        else:
            ops.append(["D", 0])
    return {"kind": "live", "sockets": socks, "watchers": ws, "ops": ops}


def generate(rng, tier):
    n_hist, n_sim, n_cfg, n_live = (250, 40, 40, 0) if tier == "quick" else (5500, 500, 500, 4)
    out = [gen_hist(rng) for _ in range(n_hist)]
    out += [gen_sim(rng) for _ in range(n_sim)]
    out += [gen_cfg(rng) for _ in range(n_cfg)]
    out += [gen_live(rng) for _ in range(n_live)]
    return out


def corpus():
    import glob
    import json
    d = os.path.join(os.path.dirname(os.path.dirname(os.path.dirname(os.path.abspath(__file__)))), "corpus", "C07")
    out = []
    for p in sorted(glob.glob(os.path.join(d, "*.json"))):
        out.append(json.load(open(p))["case"])
    return out


# --------------------------------------------------------------------------- descriptor photographs

def _scratch():
    return tempfile.mkdtemp(prefix="c07-", dir=os.environ.get("VERIF_SCRATCH", "/dev/shm"))


class _Env(object):
    """the private part of the descriptor table and the real sockets of one case"""

    def __init__(self, case):
        self.case = case
        self.dir = _scratch()
        self.fillers = []
        self.reserve = []
        self.addr_of = {}        # ('unix', path) / ('inet', port) -> socket index
        self.base = BASE
        self.nfile = 0
        self.objects = []        # everything with a .close() that owns a descriptor >= base
        self.raw = []            # descriptors opened with os.open by the harness itself
        self.leftover = None

    def specs(self):
        """config dicts for CircusSocket.load_from_config (before the filler: reserving a port opens a socket)"""
        out = []
        for i, s in enumerate(self.case["sockets"]):
            cfg = {"name": s["name"], "so_reuseport": bool(s["reuseport"]),
                   "type": _TYPE_NAME[s.get("type", "stream")], "replace": bool(s.get("replace"))}
            if s["unix"]:
                cfg["path"] = os.path.join(self.dir, "s%d.sock" % i)
                self.addr_of[("unix", cfg["path"])] = i
            else:
                cfg["host"] = "127.0.0.1"
                if s["reuseport"]:
                    r = socket.socket(socket.AF_INET, _TYPES[s.get("type", "stream")])
                    r.setsockopt(socket.SOL_SOCKET, socket.SO_REUSEPORT, 1)
                    r.setsockopt(socket.SOL_SOCKET, socket.SO_REUSEADDR, 1)
                    r.bind(("127.0.0.1", 0))
                    self.reserve.append(r)
                    cfg["port"] = str(r.getsockname()[1])
                    self.addr_of[("inet", r.getsockname()[1])] = i
                else:
                    cfg["port"] = "0"
            out.append(cfg)
        return out

    def fill(self, again=False):
        """occupy every free descriptor below the base.  again=True: the base moves above whatever has been
        opened since (the event loop of the simulated arbiter), holes below it are filled"""
        top = -1
        for fd in range(BASE, BASE + 4 * SPAN):
            try:
                os.fstat(fd)
                top = fd
            except OSError:
                pass
        if top >= 0 and not again:
            # something of the check process lives up there (never seen with the cases alone): work above it
            try:
                self.leftover = "%d -> %s" % (top, os.readlink("/proc/self/fd/%d" % top))
            except OSError:
                self.leftover = "%d" % top
            if top >= BASE + 3 * SPAN:
                raise Infra("C07 harness: descriptor %s of the check process is open far above BASE" % self.leftover)
        if again or top >= 0:
            self.base = max(BASE, top + 1)
        null = os.open(os.devnull, os.O_RDONLY)
        if null >= self.base:
            os.close(null)          # no hole below the base
            return
        self.fillers.append(null)
        while True:
            fd = os.dup(null)
            if fd >= self.base:
                os.close(fd)
                break
            self.fillers.append(fd)

    def note_bound(self, sockets):
        for i, k in enumerate(sockets):
            try:
                if k.fileno() < 0:
                    continue
                nm = k.getsockname()
            except OSError:
                continue
            if isinstance(nm, tuple) and nm[1] != 0:
                # UDP and TCP have separate port spaces: the kernel may hand the same ephemeral number to a datagram and to a
                # stream socket (1 case in 250 000 of a thorough run) — the key carries the protocol class
                dg = k.type == socket.SOCK_DGRAM
                self.addr_of[("inet", nm[1], dg)] = self.addr_of.get(("inet", nm[1], dg), i)

    def files(self):
        """address identities of the unix-socket files that exist in the scratch directory"""
        out = []
        for fn in os.listdir(self.dir):
            m = re.match(r"^s(\d+)\.sock$", fn)
            if m:
                out.append(int(m.group(1)))
        return sorted(out)

    def open_other(self, inh):
        self.nfile += 1
        fd = os.open(os.path.join(self.dir, "f%d" % self.nfile), os.O_CREAT | os.O_RDWR, 0o600)
        os.set_inheritable(fd, bool(inh))
        self.raw.append(fd)
        return fd

    def photo(self):
        """every open descriptor >= base: [fd, ident, kind, inheritable, listening, addr]"""
        out = []
        for fd in range(self.base, self.base + SPAN):
            try:
                st = os.fstat(fd)
            except OSError:
                continue
            inh = os.get_inheritable(fd)
            if stat.S_ISSOCK(st.st_mode):
                s = socket.socket(fileno=fd)
                try:
                    lis = bool(s.getsockopt(socket.SOL_SOCKET, socket.SO_ACCEPTCONN))
                    nm = s.getsockname()
                    dg = s.type == socket.SOCK_DGRAM
                finally:
                    s.detach()
                if isinstance(nm, tuple):
                    addr = self.addr_of.get(("inet", nm[1], dg), self.addr_of.get(("inet", nm[1]))) if nm[1] else None
                    if nm[1] and addr is None:
                        addr = "port?%d" % nm[1]
                else:
                    if isinstance(nm, bytes):
                        nm = nm.decode()
                    addr = self.addr_of.get(("unix", nm)) if nm else None
                    if nm and addr is None:
                        addr = "path?%s" % nm
                out.append([fd, "s%d:%d" % (st.st_dev, st.st_ino), "s", inh, lis, addr])
            else:
                import fcntl
                mode = fcntl.fcntl(fd, fcntl.F_GETFL) & os.O_ACCMODE
                out.append([fd, "o%d:%d:%d" % (st.st_dev, st.st_ino, mode), "o", inh, False, None])
        return out

    def close(self):
        # Python objects first (a file/socket object closed later by the garbage collector would close a
        # descriptor number that by then belongs to the next case), raw descriptors last
        for o in self.objects:
            try:
                o.close()
            except Exception:
                pass
        self.objects = []
        for fd in self.raw:
            try:
                os.close(fd)
            except OSError:
                pass
        self.raw = []
        left = []
        for fd in range(self.base, self.base + SPAN):
            try:
                os.fstat(fd)
                left.append(fd)
            except OSError:
                pass
        if left:
            import gc
            gc.collect()        # an object nobody closed still owns a descriptor: let it go first
            for fd in left:
                try:
                    os.close(fd)
                except OSError:
                    pass
        for fd in self.fillers:
            try:
                os.close(fd)
            except OSError:
                pass
        for r in self.reserve:
            r.close()
        shutil.rmtree(self.dir, ignore_errors=True)


def _inherit(photo, close_fds, pass_fds=()):
    """PEP 446: the daemon descriptors above 2 a child keeps (`pass_fds` are kept, and made inheritable, by
    subprocess even with close_fds=True)"""
    if close_fds:
        return [[e[0], e[1], e[2], e[4], e[5]] for e in photo if e[0] in set(pass_fds or ())]
    return [[e[0], e[1], e[2], e[4], e[5]] for e in photo if e[3] or e[0] in set(pass_fds or ())]


class _PreexecOs(object):
    """stands in for the `os` module of circus.process while the harness runs `preexec_fn` in the daemon process
    to learn what it would do in the child: `setsid` and the `dup2`s are recorded instead of performed, the
    /dev/null of `_null_streams` is a token"""
    NULL = -7

    def __init__(self):
        self.dup2s = []

    def __getattr__(self, name):
        return getattr(os, name)

    def setsid(self):
        pass

    def open(self, path, flags, mode=0o777):
        if path == os.devnull:
            return self.NULL
        return os.open(path, flags, mode)

    def close(self, fd):
        if fd != self.NULL:
            os.close(fd)

    def dup2(self, src, dst, inheritable=True):
        if src != self.NULL:
            os.fstat(src)            # EBADF like the real call (fileno() of a closed socket object is -1)
        self.dup2s.append((src, dst))
        return dst


def _run_preexec(fn):
    """-> (source of the child's descriptor 0 or None, exception or None)"""
    import circus.process as cp
    if fn is None:
        return None, None
    proxy = _PreexecOs()
    saved = cp.os
    cp.os = proxy
    try:
        err = None
        try:
            fn()
        except Exception as e:  # noqa: in the child any exception makes Popen raise SubprocessError
            err = "%s: %s" % (type(e).__name__, e)      # only text: the exception would keep the frames alive
        if err is not None:
            return None, err
    finally:
        cp.os = saved
    src = None
    for a, b in proxy.dup2s:
        if b == 0:
            src = a
    return (None if src in (None, proxy.NULL) else src), None


class _FakeLoop(object):
    def add_handler(self, *a, **k):
        pass

    def remove_handler(self, *a, **k):
        pass

    def add_callback(self, *a, **k):
        pass


class _Pub(object):
    closed = False

    def send_multipart(self, *a, **k):
        pass


def _noop(*a, **k):
    return None


def _make_recorder(env, calls, calls_failed=None):
    import psutil
    if calls_failed is None:
        calls_failed = []

    class Recorder(object):
        """stands in for psutil.Popen in circus.process"""
        next_pid = [0]

        def __init__(self, args, **kw):
            self.returncode = None
            self.stdout = None
            self.stderr = None
            ends = []
            # subprocess.Popen._get_handles: c2pread/c2pwrite, then errread/errwrite
            if kw.get("stdout") is not None:
                r, w = os.pipe()
                self.stdout = os.fdopen(r, "rb", 0)
                env.objects.append(self.stdout)
                ends.append(w)
            if kw.get("stderr") is not None:
                r, w = os.pipe()
                self.stderr = os.fdopen(r, "rb", 0)
                env.objects.append(self.stderr)
                ends.append(w)
            photo = env.photo()
            src0, exc = _run_preexec(kw.get("preexec_fn"))
            if exc is not None:
                # the child died in preexec_fn: Popen closes its pipes and raises
                import subprocess
                for ch in (self.stdout, self.stderr):
                    if ch is not None:
                        ch.close()
                for w in ends:
                    os.close(w)
                calls_failed.append(exc)
                raise subprocess.SubprocessError("Exception occurred in preexec_fn.")
            Recorder.next_pid[0] += 1
            self.pid = Recorder.next_pid[0]
            fd0 = None
            if src0 is not None:
                e = [x for x in photo if x[0] == src0]
                fd0 = [e[0][1], e[0][2], e[0][4], e[0][5]] if e else ["?%d" % src0, "?", False, None]
            calls.append({"argv": list(args), "close_fds": kw.get("close_fds"), "shell": kw.get("shell"),
                          "photo": photo, "pid": self.pid, "fd0": fd0, "pass_fds": list(kw.get("pass_fds") or ()),
                          "kw": sorted(k for k in kw if k not in ("preexec_fn",))})
            for w in ends:
                os.close(w)

        def poll(self):
            return self.returncode

        def status(self):
            if self.returncode is not None:
                raise psutil.NoSuchProcess(self.pid)
            return "running"

        def is_running(self):
            return self.returncode is None

        def terminate(self):
            self.returncode = -15

        def children(self, recursive=False):
            return []

        def send_signal(self, sig):
            if self.returncode is not None:
                raise psutil.NoSuchProcess(self.pid)

    return Recorder


def _mk_watcher(i, w, sockets, loop):
    import circus.watcher as cw
    stream = {"stream": _noop}
    wt = cw.Watcher("w%d" % i, w["cmd"], args=w["args"], numprocesses=w["np"], working_dir="/",
                    use_sockets=w["use_sockets"], copy_env=False, copy_path=False, stdin_socket=w.get("stdin"),
                    stdout_stream=dict(stream) if w["pipe_out"] else None,
                    stderr_stream=dict(stream) if w["pipe_err"] else None,
                    max_retry=w["max_retry"], loop=loop)
    wt._status = "active"
    wt.notify_event = _noop
    wt.initialize(_Pub(), sockets, None)
    return wt


def _rec_obs(call, wi, fds):
    return {"w": wi, "close_fds": call["close_fds"], "argv": call["argv"],
            "inherited": _inherit(call["photo"], call["close_fds"], call.get("pass_fds")), "photo": call["photo"],
            "sockets_fds": fds, "fd0": call.get("fd0")}


def _impl_hist(case):
    import circus.process as cp
    from circus.sockets import CircusSocket, CircusSockets
    env = _Env(case)
    calls = []
    saved = cp.Popen
    try:
        cfgs = env.specs()
        env.fill()
        cp.Popen = _make_recorder(env, calls)
        socks = [CircusSocket.load_from_config(c) for c in cfgs]
        env.objects += socks
        sockets = CircusSockets(socks)
        loop = _FakeLoop()
        ws = [_mk_watcher(i, w, sockets, loop) for i, w in enumerate(case["watchers"])]
        live = []          # (watcher index, pid) in spawn order
        others = []
        phase = "f"

        def snap(res, ncalls, wis):
            env.note_bound(socks)
            recs = []
            for c, wi in zip(calls[ncalls:], wis):
                recs.append(_rec_obs(c, wi, None))
            table = env.photo()
            sk = [[k.name, (k.fileno() if k.fileno() >= 0 else None)] for k in sockets.values()]
            procs = []
            for wi, pid in live:
                p = ws[wi].processes.get(pid)
                fds = []
                if p is not None:
                    for ch in (p._worker.stdout, p._worker.stderr):
                        if ch is not None and not ch.closed:
                            fds.append(ch.fileno())
                procs.append([pid, wi, (p.wid if p is not None else None), fds])
            return {"recs": recs, "table": table, "socks": sk, "procs": procs, "phase": phase, "res": res,
                    "files": env.files()}

        def spawn(wi, wis):
            """True / False as spawn_process answers, None when it raised (RuntimeError of _nextwid)"""
            import subprocess
            n = len(calls)
            try:
                r = ws[wi].spawn_process()
            except (RuntimeError, subprocess.SubprocessError):
                r = None
            for c in calls[n:]:
                wis.append(wi)
                live.append((wi, c["pid"]))
            return None if r is None else (r is not False)

        def reap(wi, pid):
            p = ws[wi].processes.get(pid)
            if p is not None:
                p._worker.returncode = 0
                ws[wi].reap_process(pid, status=0)
            live.remove((wi, pid))

        def manage(wi, wis):
            w = ws[wi]
            mine = [(a, pid) for a, pid in live if a == wi]
            if len(mine) > w.numprocesses:
                for a, pid in mine[:len(mine) - w.numprocesses]:
                    reap(a, pid)
            else:
                for _ in range(w.numprocesses - len(mine)):
                    if not spawn(wi, wis):
                        break

        steps = [snap("-", 0, [])]
        for op in case["ops"]:
            n = len(calls)
            wis = []
            res = "-"
            k = op[0]
            if k == "I":
                try:
                    sockets.bind_and_listen_all()       # what Arbiter.initialize does with them
                    res = "ok"
                    if phase == "f":
                        phase = "r"
                except OSError:
                    res = "E"
            elif k == "S":
                if op[1] < len(ws):
                    res = {True: "T", False: "F", None: "R"}[spawn(op[1], wis)]
                else:
                    res = "R"
            elif k == "D":
                if op[1] < len(live):
                    reap(*live[op[1]])
            elif k == "R":
                for a, pid in [x for x in live if x[0] == op[1]]:
                    reap(a, pid)
                for _ in range(ws[op[1]].numprocesses):
                    if not spawn(op[1], wis):
                        break
            elif k == "L":
                raised = False
                for _ in range(ws[op[1]].numprocesses):
                    if spawn(op[1], wis) is None:
                        raised = True
                        break
                if not raised:
                    manage(op[1], wis)
            elif k in "+-":
                w = ws[op[1]]
                w.numprocesses = max(0, w.numprocesses + (op[2] if k == "+" else -op[2]))
                manage(op[1], wis)
            elif k == "O":
                others.append(env.open_other(op[1]))
            elif k == "C":
                if op[1] < len(others):
                    fd = others.pop(op[1])
                    env.raw.remove(fd)
                    os.close(fd)
            elif k == "X":
                sockets.close_all()                     # what stop_controller_and_close_sockets does with them
                phase = "x"
            else:
                raise ValueError("unknown op %r" % (op,))
            steps.append(snap(res, n, wis))
        _RUN[id(case)] = env.base
        return {"steps": steps, "base": env.base, "leftover": env.leftover}
    finally:
        cp.Popen = saved
        env.close()


# --------------------------------------------------------------------------- sim: the real Arbiter

def _impl_sim(case):
    import json
    import circus.process as cp
    from circus.sockets import CircusSocket
    from harness import sim as S
    env = _Env(case)
    calls = []
    try:
        cfgs = env.specs()
        env.fill()

        class MySim(S.Sim):
            def make_watcher(self_, w, counters):
                import circus.watcher as W
                c = w["c07"]
                return W.Watcher(w["name"], c["cmd"], args=c["args"], numprocesses=c["np"], working_dir="/",
                                 use_sockets=c["use_sockets"], copy_env=False, copy_path=False,
                                 stdin_socket=c.get("stdin"),
                                 warmup_delay=0, graceful_timeout=0.3, max_retry=c["max_retry"], loop=self_.loop)

        sc = {"watchers": [{"name": "w%d" % i, "c07": w} for i, w in enumerate(case["watchers"])], "ops": []}
        sim = MySim(sc)
        # the event loop, zmq context etc. of the Arbiter take descriptors >= BASE and keep them: build the
        # arbiter first, give it the sockets afterwards (CircusSockets is a dict)
        steps = []
        sim.setup()
        try:
            env.fill(again=True)
            socks = [CircusSocket.load_from_config(c) for c in cfgs]
            env.objects += socks
            base_photo = set()
            inner = cp.Popen

            def popen(args, **kw):
                ph = [e for e in env.photo() if e[0] not in base_photo]
                src0, exc = _run_preexec(kw.get("preexec_fn"))
                if exc is not None:
                    import subprocess
                    raise subprocess.SubprocessError("Exception occurred in preexec_fn.")
                fd0 = None
                if src0 is not None:
                    e0 = [x for x in ph if x[0] == src0]
                    fd0 = [e0[0][1], e0[0][2], e0[0][4], e0[0][5]] if e0 else ["?%d" % src0, "?", False, None]
                p = inner(args, **kw)
                name = None
                for w in sim.arb.watchers:
                    if w.cmd is not None and getattr(w, "_c07_spawning", False):
                        name = w.name
                calls.append({"argv": list(args), "close_fds": kw.get("close_fds"), "photo": ph, "pid": p.pid,
                              "name": name, "fd0": fd0, "pass_fds": list(kw.get("pass_fds") or ())})
                return p
            cp.Popen = popen
            import circus.watcher as W
            orig_spawn = W.Watcher.spawn_process

            def spawn_process(self_, *a, **k):
                self_._c07_spawning = True
                try:
                    return orig_spawn(self_, *a, **k)
                finally:
                    self_._c07_spawning = False
            W.Watcher.spawn_process = spawn_process
            try:
                for k in socks:
                    sim.arb.sockets[k.name] = k
                # Arbiter.initialize: "initialize sockets"
                if len(sim.arb.sockets) > 0:
                    sim.arb.sockets.bind_and_listen_all()
                env.note_bound(socks)

                def settle_all():
                    for _ in range(400):
                        if not sim.sleepers or sim.blocked:
                            break
                        sim.apply(["wake"])

                def do(op):
                    n = len(calls)
                    sim.k.log = []
                    sim.apply(op)
                    settle_all()
                    return n

                def snap(act, n):
                    env.note_bound(socks)
                    steps.append({"act": act, "recs": [dict(c) for c in calls[n:]],
                                  "table": [e for e in env.photo() if e[0] not in base_photo],
                                  "socks": [[k.name, (k.fileno() if k.fileno() >= 0 else None)] for k in socks],
                                  "blocked": bool(sim.blocked)})

                snap(["init"], len(calls))
                n = do(["start"])
                snap(["start"], n)
                for act in case["acts"]:
                    if sim.blocked:
                        break
                    a = act[0]
                    if a in ("restart", "reload", "incr", "decr"):
                        props = {"name": "w%d" % act[1], "waiting": False}
                        if a == "reload":
                            props["graceful"] = bool(act[2])
                            props["sequential"] = bool(act[3])
                        if a in ("incr", "decr"):
                            props["nb"] = act[2]
                        n = do(["req", {"command": a, "properties": props}])
                    elif a == "restart_all":
                        n = do(["req", {"command": "restart", "properties": {"waiting": False}}])
                    elif a == "restart_pat":
                        n = do(["req", {"command": "restart", "properties": {"name": act[1], "match": "glob", "waiting": False}}])
                    elif a == "die":
                        pids = sorted(p for p, pr in sim.k.procs.items() if pr.state == "r" and pr.ppid == 0)
                        n = len(calls)
                        if pids:
                            sim.k.log = []
                            sim.apply(["die", pids[act[1] % len(pids)], 0])
                            sim.apply(["check"])
                            settle_all()
                    elif a == "quit":
                        n = do(["req", {"command": "quit", "properties": {"waiting": False}}])
                    else:
                        raise ValueError("unknown act %r" % (act,))
                    snap(act, n)
            finally:
                cp.Popen = inner
                W.Watcher.spawn_process = orig_spawn
        finally:
            for k in socks if "socks" in dir() else []:
                try:
                    k.close()
                except Exception:
                    pass
            sim.teardown()
        out = {"steps": steps, "base": env.base}
        _SIM_CACHE[id(case)] = (_sim_trace(case, out), env.base)
        return out
    finally:
        env.close()


# --------------------------------------------------------------------------- cfg: reloadconfig on the real Arbiter

def _cfg_ini(case, version, d):
    from harness import reloadsim as RS
    t = RS.HEAD
    for k in sorted(case["versions"][version], key=lambda k: k["name"]):
        t += "[socket:%s]\n" % k["name"]
        if k["unix"]:
            t += "path = %s/s%d.sock\n" % (d, k["addr"])
        else:
            t += "host = 127.0.0.%d\nport = 0\n" % (k["addr"] + 1)
        t += "type = %s\nbacklog = %d\n" % (_TYPE_NAME[k["type"]], 100 + k["opts"])
        if k["replace"]:
            t += "replace = True\n"
        t += "\n"
    for i, w in enumerate(case["watchers"]):
        if w.get("from", 0) > version:
            continue
        t += "[watcher:w%d]\ncmd = %s\nargs = %s\nnumprocesses = %d\nwarmup_delay = 0\n" % (i, w["cmd"], w["args"], w["np"])
        t += "use_sockets = %s\nmax_retry = %d\ngraceful_timeout = %s\n" % (w["use_sockets"], w["max_retry"],
                                                                           (w.get("gt") or [0.3] * (version + 1))[version])
        if w.get("stdin") is not None:
            t += "stdin_socket = %s\n" % w["stdin"]
        t += "\n"
    return t


def _impl_cfg(case):
    import subprocess
    import circus.process as cp
    import circus.watcher as W
    from circus.config import get_config
    from harness import reloadsim as RS
    env = _Env({"sockets": []})
    calls = []
    try:
        env.fill()
        path = os.path.join(env.dir, "circus.ini")
        with open(path, "w") as fh:
            fh.write(_cfg_ini(case, 0, env.dir))
        sim = RS.ReloadSim(path)
        steps = []
        orders = []
        sim.setup()
        inner = cp.Popen
        orig_spawn = W.Watcher.spawn_process
        try:
            arb = sim.arb
            env.objects += list(arb.sockets.values())
            infra = set(e[0] for e in env.photo()) - set(k.fileno() for k in arb.sockets.values())

            def addr_of(k):
                try:
                    nm = k.getsockname()
                except OSError:
                    return None
                if isinstance(nm, tuple):
                    return (int(nm[0].split(".")[-1]) - 1) if nm[1] else None
                if isinstance(nm, bytes):
                    nm = nm.decode()
                m = re.search(r"/s(\d+)\.sock$", nm or "")
                return int(m.group(1)) if m else None

            def describe(fd, photo):
                e = [x for x in photo if x[0] == fd]
                if not e:
                    return None
                s_ = socket.socket(fileno=fd)
                try:
                    a = addr_of(s_)
                    ux = s_.family == socket.AF_UNIX
                finally:
                    s_.detach()
                return [e[0][1], e[0][2], e[0][3], e[0][4], a, ux]

            def popen(args, **kw):
                import gc
                ph = [e for e in env.photo() if e[0] not in infra]
                for gen in (1, 2):     # see snap(): a socket whose bind failed in a reload, not yet collected
                    live = set(k.fileno() for k in arb.sockets.values())
                    if not [e for e in ph if e[2] == "s" and e[0] not in live]:
                        break
                    gc.collect(gen)
                    ph = [e for e in env.photo() if e[0] not in infra]
                src0, exc = _run_preexec(kw.get("preexec_fn"))
                if exc is not None:
                    raise subprocess.SubprocessError("Exception occurred in preexec_fn.")
                name = None
                for w in arb.watchers:
                    if getattr(w, "_c07_spawning", False):
                        name = w.name
                if name is None and spawning:
                    name = spawning[-1]        # a watcher reloadconfig is creating: not yet in the arbiter's list
                fdmap = dict((k.fileno(), n) for n, k in arb.sockets.items() if k.fileno() >= 0)
                inh = _inherit(ph, kw.get("close_fds"), kw.get("pass_fds"))
                p = inner(args, **kw)
                calls.append({"name": name, "argv": list(args), "close_fds": kw.get("close_fds"), "fdmap": fdmap,
                              "inherited": [[fdmap.get(e[0]), e[1], e[2], e[3], describe(e[0], ph)[4]] for e in inh
                                            if e[2] == "s"],
                              "fd0": (None if src0 is None else [fdmap.get(src0)] + (describe(src0, ph) or [None] * 6)[:2])})
                return p

            spawning = []

            def spawn_process(self_, *a, **k):
                self_._c07_spawning = True
                spawning.append(self_.name)
                try:
                    return orig_spawn(self_, *a, **k)
                finally:
                    self_._c07_spawning = False
                    spawning.pop()
            cp.Popen = popen
            W.Watcher.spawn_process = spawn_process

            def snap(act, n, extra=None):
                import gc
                dict_fds = set(k.fileno() for k in arb.sockets.values() if k.fileno() >= 0)
                ph = env.photo()
                # a socket object whose bind failed lives as long as the traceback of the OSError (a reference
                # cycle): let the collector run before looking, young generations first (the heap of a check is big)
                for gen in (1, 2):
                    if not [e for e in ph if e[2] == "s" and e[0] not in infra and e[0] not in dict_fds]:
                        break
                    gc.collect(gen)
                    ph = env.photo()
                st = {"act": act, "recs": [dict(c) for c in calls[n:]],
                      "socks": [[nm, (describe(k.fileno(), ph) if k.fileno() >= 0 else None)]
                                for nm, k in arb.sockets.items()],
                      "files": env.files(),
                      "orphans": [e[:3] for e in ph if e[2] == "s" and e[0] not in infra and e[0] not in dict_fds],
                      "blocked": bool(sim.blocked), "errors": [str(x)[:160] for x in sim.errors[-2:]]}
                if extra:
                    st.update(extra)
                steps.append(st)

            # Arbiter.initialize: "initialize sockets"
            if len(arb.sockets) > 0:
                arb.sockets.bind_and_listen_all()
            snap(["init"], len(calls))
            n = len(calls)
            sim.start()
            snap(["start"], n)
            for act in case["acts"]:
                if sim.blocked:
                    break
                n = len(calls)
                sim.raised[:] = []
                sim.errors[:] = []
                extra = None
                if act[0] == "reload":
                    with open(path, "w") as fh:
                        fh.write(_cfg_ini(case, act[1], env.dir))
                    # the iteration order of the Python sets, by the same set operations in the same process
                    new_sockets = dict((i["name"], i.copy()) for i in get_config(path).get("sockets", []))
                    current_sn = set([i.name for i in arb.sockets.values()]) - set(["circushttpd"])
                    new_sn = set(new_sockets.keys())
                    added_sn = new_sn - current_sn
                    deleted_sn = current_sn - new_sn
                    maybechanged_sn = current_sn - deleted_sn
                    for nm in maybechanged_sn:
                        if new_sockets[nm] != arb.get_socket(nm)._cfg:
                            deleted_sn.add(nm)
                            added_sn.add(nm)
                    extra = {"dorder": list(deleted_sn), "aorder": list(added_sn)}
                    before = set(id(k) for k in arb.sockets.values())
                    sim.reload()
                    env.objects += [k for k in arb.sockets.values() if id(k) not in before]
                elif act[0] == "restart":
                    sim.k.log = []
                    sim.apply(["req", {"command": "restart", "id": "x", "properties": {"name": "w0", "waiting": False}}])
                    sim.quiesce()
                elif act[0] == "die":
                    pids = sorted(p for p, pr in sim.k.procs.items() if pr.state == "r" and pr.ppid == 0)
                    if pids:
                        sim.k.log = []
                        sim.apply(["die", pids[act[1] % len(pids)], 0])
                        sim.check()
                elif act[0] == "quit":
                    sim.k.log = []
                    sim.apply(["req", {"command": "quit", "id": "q", "properties": {"waiting": False}}])
                    sim.quiesce()
                else:
                    raise ValueError("unknown act %r" % (act,))
                snap(act, n, extra)
        finally:
            cp.Popen = inner
            W.Watcher.spawn_process = orig_spawn
            try:
                for k in list(sim.arb.sockets.values()):
                    k.close()
            except Exception:
                pass
            sim.teardown()
        out = {"steps": steps, "base": env.base}
        _SIM_CACHE[id(case)] = (out, env.base)
        return out
    finally:
        env.close()


# --------------------------------------------------------------------------- live: real children

_CHILD = r"""
import os, sys, socket, stat, json
out = []
for fd in range(3, 260):
    try:
        st = os.fstat(fd)
    except OSError:
        continue
    e = {"fd": fd, "sock": stat.S_ISSOCK(st.st_mode), "ino": "%d:%d" % (st.st_dev, st.st_ino)}
    if e["sock"]:
        s = socket.socket(fileno=fd)
        try:
            e["listening"] = bool(s.getsockopt(socket.SOL_SOCKET, socket.SO_ACCEPTCONN))
            nm = s.getsockname()
            e["name"] = list(nm) if isinstance(nm, tuple) else (nm.decode() if isinstance(nm, bytes) else nm)
        finally:
            s.detach()
    out.append(e)
st0 = os.fstat(0)
fd0 = {"sock": stat.S_ISSOCK(st0.st_mode), "ino": "%d:%d" % (st0.st_dev, st0.st_ino)}
with open(sys.argv[1], "w") as fh:
    json.dump({"argv": sys.argv[2:], "fds": out, "fd0": fd0}, fh)
"""


def _impl_live(case):
    """real children through the real psutil.Popen; `skipped` (never a failure) when the sandbox refuses"""
    import json
    import time
    import circus.process as cp
    from circus.sockets import CircusSocket, CircusSockets
    env = _Env(case)
    try:
        try:
            cfgs = env.specs()
            env.fill()
            socks = [CircusSocket.load_from_config(c) for c in cfgs]
            env.objects += socks
            sockets = CircusSockets(socks)
            sockets_list = list(sockets.values())
        except OSError as e:
            return {"skipped": "setup: %s" % e}
        script = os.path.join(env.dir, "child.py")
        with open(script, "w") as fh:
            fh.write(_CHILD)
        loop = _FakeLoop()
        ws = []
        for i, w in enumerate(case["watchers"]):
            args = [script, "@OUT@"] + ["$(circus.sockets.%s)" % n for n in w["names"]]
            ws.append(_mk_watcher(i, {"cmd": sys.executable, "args": args, "np": 1, "use_sockets": w["use_sockets"],
                                      "pipe_out": w["pipe_out"], "pipe_err": w["pipe_err"], "max_retry": 1,
                                      "stdin": w.get("stdin")},
                                  sockets, loop))
        spawned = []
        others = []
        reports = []
        nout = 0
        for op in case["ops"]:
            k = op[0]
            if k == "I":
                sockets.bind_and_listen_all()
                env.note_bound(socks)
            elif k == "S":
                w = ws[op[1]]
                nout += 1
                outp = os.path.join(env.dir, "out%d.json" % nout)
                w.args = [w.args[0], outp] + list(w.args[2:])
                photo = env.photo()
                before = set(w.processes)
                try:
                    r = w.spawn_process()
                except Exception as e:  # noqa
                    if case["watchers"][op[1]].get("stdin") == "nosuch":
                        reports.append({"w": op[1], "raised": type(e).__name__, "open_after": env.photo(),
                                        "photo": photo})
                        continue
                    return {"skipped": "spawn: %s: %s" % (type(e).__name__, e)}
                new = [p for pid, p in w.processes.items() if pid not in before]
                if r is False or not new:
                    return {"skipped": "spawn_process returned False"}
                p = new[0]
                try:
                    p._worker.wait(timeout=20)
                except Exception as e:  # noqa
                    try:
                        p._worker.kill()
                    except Exception:
                        pass
                    return {"skipped": "child did not finish: %s" % e}
                for ch in (p._worker.stdout, p._worker.stderr):
                    if ch is not None:
                        ch.close()
                w.processes.pop(p.pid, None)
                try:
                    rep = json.load(open(outp))
                except Exception as e:  # noqa
                    return {"skipped": "no report from the child: %s" % e}
                reports.append({"w": op[1], "photo": photo, "child": rep,
                                "socks": [[s.name, s.fileno(), "%d:%d" % (os.fstat(s.fileno()).st_dev,
                                                                         os.fstat(s.fileno()).st_ino),
                                           (list(s.getsockname()) if isinstance(s.getsockname(), tuple)
                                            else s.getsockname())] for s in sockets_list]})
            elif k == "O":
                others.append(env.open_other(op[1]))
            elif k == "C":
                if op[1] < len(others):
                    fd = others.pop(op[1])
                    env.raw.remove(fd)
                    os.close(fd)
            elif k == "D":
                pass
        return {"reports": reports, "base": env.base}
    finally:
        env.close()


_WARM = []


def _warm():
    """process-wide singletons that keep descriptors for ever (the zmq context the Arbiter uses) are created
    before the first case, so that their descriptors lie below BASE"""
    if _WARM and _WARM[-1] == os.getpid():
        return
    _WARM.append(os.getpid())       # again in a forked worker of the check: pyzmq makes a new context there
    try:
        import zmq
        import circus.arbiter  # noqa
        import circus.watcher  # noqa
        ctx = zmq.Context.instance()
        s = ctx.socket(zmq.PUB)
        s.close()
    except Exception:
        pass


def impl_run(case):
    import logging
    logging.getLogger("circus").setLevel(logging.CRITICAL + 1)
    _warm()
    k = case["kind"]
    if k == "hist":
        return _impl_hist(case)
    if k == "sim":
        return _impl_sim(case)
    if k == "cfg":
        return _impl_cfg(case)
    if k == "live":
        return _impl_live(case)
    raise ValueError("unknown kind %r" % k)


# --------------------------------------------------------------------------- views

class _Renamer(object):
    def __init__(self):
        self.m = {}

    def __call__(self, x):
        if x not in self.m:
            self.m[x] = len(self.m)
        return self.m[x]


def _canon_steps(steps):
    """identities renamed in order of first appearance"""
    rn = _Renamer()
    out = []
    for st in steps:
        recs = []
        for r in st["recs"]:
            f0 = r.get("fd0")
            recs.append({"w": r["w"], "close_fds": r["close_fds"], "argv": r["argv"],
                         "inherited": [[e[0], rn(e[1]), e[2], e[3], e[4]] for e in r["inherited"]],
                         "fd0": None if f0 is None else [rn(f0[0]), f0[1], f0[2], f0[3]]})
        out.append({"recs": recs, "table": [[e[0], rn(e[1]), e[2], e[3], e[4], e[5]] for e in st["table"]],
                    "socks": st["socks"], "procs": st.get("procs"), "phase": st.get("phase"), "res": st.get("res"),
                    "files": sorted(st.get("files") or [])})
    return out


def impl_view(case, obs):
    if "harness_exception" in obs:
        return obs
    k = case["kind"]
    if k == "hist":
        return _canon_steps(obs["steps"])
    if k == "sim":
        return _sim_view(case, obs)
    if k == "cfg":
        return _cfg_impl_view(case, obs)
    return {"live": "no model comparison"}


def _sim_trace(case, obs):
    """the spawns the real arbiter performed, as (watcher index) per step"""
    steps = []
    for st in obs["steps"]:
        wis = []
        for r in st["recs"]:
            wis.append(int(r["name"][1:]) if r.get("name") else None)
        steps.append(wis)
    return steps


def _sim_view(case, obs):
    rn = _Renamer()
    out = []
    for st in obs["steps"]:
        recs = []
        for r in st["recs"]:
            inh = _inherit(r["photo"], r["close_fds"], r.get("pass_fds"))
            f0 = r.get("fd0")
            recs.append({"w": int(r["name"][1:]) if r.get("name") else None, "close_fds": r["close_fds"],
                         "argv": r["argv"], "inherited": [[e[0], rn(e[1]), e[2], e[3], e[4]] for e in inh],
                         "fd0": None if f0 is None else [rn(f0[0]), f0[1], f0[2], f0[3]]})
        out.append({"recs": recs, "table": [[e[0], rn(e[1]), e[2], e[3], e[4], e[5]] for e in st["table"]],
                    "socks": st["socks"]})
    return out


_NUM = re.compile(r"\d+")


def _canon_argv(argv, fdmap):
    """descriptor numbers of dict sockets replaced by the socket names (the cfg view is free of numbers)"""
    fm = dict((int(k), v) for k, v in fdmap.items())
    return [_NUM.sub(lambda m: "<%s>" % fm[int(m.group(0))] if int(m.group(0)) in fm else m.group(0), a) for a in argv]


def _cfg_canon(steps):
    rn = _Renamer()
    out = []
    for st in steps:
        socks = []
        for nm, d in st["socks"]:
            socks.append([nm, None if d is None else [rn(d[0]), d[1], d[2], d[3], d[4]]])
        recs = []
        for r in st["recs"]:
            inh = sorted(r["inherited"], key=lambda e: (e[0] is None, str(e[0]), str(e[4]), e[3]))
            recs.append({"w": r["w"], "close_fds": r["close_fds"], "argv": r["argv"],
                         "inherited": [[e[0], rn(e[1]), e[2], e[3], e[4]] for e in inh],
                         "fd0": None if r["fd0"] is None else [r["fd0"][0], rn(r["fd0"][1]), r["fd0"][2]]})
        out.append({"socks": socks, "files": sorted(st["files"]), "orphans": len(st["orphans"]), "recs": recs})
    return out


def _cfg_impl_view(case, obs):
    steps = []
    for st in obs["steps"]:
        recs = []
        for r in st["recs"]:
            recs.append({"w": int(r["name"][1:]) if r.get("name") else None, "close_fds": r["close_fds"],
                         "argv": _canon_argv(r["argv"], r["fdmap"]), "inherited": r["inherited"], "fd0": r["fd0"]})
        steps.append({"socks": [[nm, None if d is None else d[:5]] for nm, d in st["socks"]], "files": st["files"],
                      "orphans": st["orphans"], "recs": recs})
    return _cfg_canon(steps)


def _cfg_specs(version):
    return sorted(version, key=lambda k: k["name"])


def _cfg_ops(case, obs):
    """the model is driven with the reloads of the case and the spawns the real arbiter was seen to perform"""
    ops = [["I"]]
    groups = [1]                  # number of model ops per observed step
    for st in obs["steps"][1:]:
        n = 0
        a = st["act"]
        if a[0] == "reload":
            specs = _cfg_specs(case["versions"][a[1]])
            g = ["G", str(len(specs))]
            for k in specs:
                g += _enc_spec(k, 0)
            g += [str(len(st["dorder"]))] + [enc_cps(x) for x in st["dorder"]]
            g += [str(len(st["aorder"]))] + [enc_cps(x) for x in st["aorder"]]
            ops.append(g)
            n += 1
        elif a[0] == "quit":
            ops.append(["X"])
            n += 1
        for r in st["recs"]:
            ops.append(["S", int(r["name"][1:]) if r.get("name") else 999])
            n += 1
        groups.append(n)
    return ops, groups


def _cfg_model_view(case, segs, groups):
    steps = []
    pos = 0
    for g in groups:
        recs = []
        cur = None
        for _ in range(g):
            pos += 1
            cur = segs[pos]
            recs += cur["recs"]
        if cur is None:
            cur = segs[pos]
        by_fd = dict((e[0], e) for e in cur["table"])
        dict_fds = set(fd for _, fd in cur["socks"] if fd is not None)
        socks = []
        for nm, fd in cur["socks"]:
            e = by_fd.get(fd)
            socks.append([nm, None if e is None else [e[1], e[2], e[3], e[4], e[5]]])
        rr = []
        for r in recs:
            fdmap = dict((fd, nm) for nm, fd in r["sockets_fds"] if fd is not None)
            rr.append({"w": r["w"], "close_fds": r["close_fds"], "argv": _canon_argv(r["argv"], fdmap),
                       "inherited": [[fdmap.get(e[0]), e[1], e[2], e[3], e[4]] for e in r["inherited"] if e[2] == "s"],
                       "fd0": None if r["fd0"] is None else [case["watchers"][r["w"]].get("stdin"), r["fd0"][0], r["fd0"][1]]})
        steps.append({"socks": socks, "files": cur["files"],
                      "orphans": [e for e in cur["table"] if e[2] == "s" and e[0] not in dict_fds], "recs": rr})
    return _cfg_canon(steps)



def _enc_args(a):
    if a is None:
        return ["~"]
    if isinstance(a, str):
        return ["s", enc_cps(a)]
    return ["l", str(len(a))] + [enc_cps(x) for x in a]


def _enc_spec(s, default_addr):
    return [enc_cps(s["name"]), "1" if s["reuseport"] else "0", str(s.get("addr", default_addr)),
            _TYPE_TOK[s.get("type", "stream")], "1" if s["unix"] else "0", "1" if s.get("replace") else "0",
            str(s.get("opts", 0))]


def _line(case, watchers, ops, base):
    t = ["sock", "run", str(base), str(len(case["sockets"]))]
    for i, s in enumerate(case["sockets"]):
        t += _enc_spec(s, i)
    t.append(str(len(watchers)))
    for w in watchers:
        t += ["1" if w["use_sockets"] else "0", enc_cps(w["cmd"])] + _enc_args(w["args"]) + [
            str(w["np"]), "1" if w["pipe_out"] else "0", "1" if w["pipe_err"] else "0", str(w["max_retry"]),
            "~" if w.get("stdin") is None else enc_cps(w["stdin"])]
    t.append(str(len(ops)))
    for op in ops:
        t += [str(x) for x in op]
    return " ".join(t)


_SIM_CACHE = {}
_RUN = {}       # id(case) -> base of the descriptor window the implementation run used


def model_line(case):
    k = case["kind"]
    if k == "hist":
        return _line(case, case["watchers"], case["ops"], _RUN.get(id(case), BASE))
    if k == "cfg":
        obs, base = _SIM_CACHE.get(id(case), (None, None))
        if obs is None:
            return "sock run 0 0 0 0"
        ops, _ = _cfg_ops(case, obs)
        ws = [dict(w, pipe_out=False, pipe_err=False, np=2000, args=w["args"]) for w in case["watchers"]]
        return _line({"sockets": _cfg_specs(case["versions"][0])}, ws, ops, BASE)
    if k == "sim":
        # trace validation: the model is driven with the spawns the real arbiter was seen to perform
        tr, base = _SIM_CACHE.get(id(case), (None, None))
        if tr is None:
            return "sock run 0 0 0 0"
        ops = [["I"]]
        for wis in tr[1:]:
            for wi in wis:
                ops.append(["S", wi if wi is not None else 999])
        # numprocesses only bounds the worker ids here: the model is not told about the deaths in between
        ws = [dict(w, pipe_out=False, pipe_err=False, np=2000) for w in case["watchers"]]
        return _line(case, ws, ops, base)
    return "sock run 0 0 0 0"


class _Toks(object):
    def __init__(self, toks):
        self.t = toks
        self.i = 0

    def next(self):
        x = self.t[self.i]
        self.i += 1
        return x

    def nat(self):
        return int(self.next())

    def opt(self):
        x = self.next()
        return None if x == "~" else int(x)

    def boolean(self):
        return self.next() == "1"

    def s(self):
        return "".join(chr(c) for c in dec_cps(self.next()))


def _p_ent(t):
    fd = t.nat()
    ident = "m%d" % t.nat()
    kind = t.next()
    inh = t.boolean()
    lis = t.boolean()
    addr = t.opt()
    t.nat()          # bindSer: not observable from outside, compared through identity + address
    return [fd, ident, kind, inh, lis, addr]


def _p_fds(t):
    return [[t.s(), t.opt()] for _ in range(t.nat())]


def _p_seg(seg):
    t = _Toks(seg.split())
    recs = []
    for _ in range(t.nat()):
        w = t.nat()
        cf = t.boolean()
        t.next()
        fds = _p_fds(t)
        argv = [t.s() for _ in range(t.nat())]
        inh = [_p_ent(t) for _ in range(t.nat())]
        temp = [t.nat() for _ in range(t.nat())]
        fd0 = None
        if t.next() != "~":
            e = _p_ent(t)
            fd0 = [e[1], e[2], e[4], e[5]]
        recs.append({"w": w, "close_fds": cf, "argv": argv, "sockets_fds": fds, "temp": temp, "fd0": fd0,
                     "inherited": [[e[0], e[1], e[2], e[4], e[5]] for e in inh]})
    table = [_p_ent(t) for _ in range(t.nat())]
    socks = _p_fds(t)
    procs = []
    for _ in range(t.nat()):
        pid = t.nat()
        w = t.nat()
        wid = t.nat()
        procs.append([pid, w, wid, [t.nat() for _ in range(t.nat())]])
    phase = t.next()
    files = sorted(t.nat() for _ in range(t.nat()))
    res = t.next()
    if t.i != len(t.t):
        raise ValueError("left over tokens")
    return {"recs": recs, "table": table, "socks": socks, "procs": procs, "phase": phase, "res": res,
            "files": files}


def model_parse(case, line):
    if line == "bad-op":
        return {"bad-op": True}
    k = case["kind"]
    if k == "live":
        return {"live": "no model comparison"}
    try:
        segs = [_p_seg(s) for s in line.split(" | ")]
    except Exception as e:  # noqa
        return {"unparsable": "%s: %s" % (type(e).__name__, e), "line": line[:300]}
    if k == "hist":
        return _canon_steps(segs)
    if k == "cfg":
        obs, _ = _SIM_CACHE.get(id(case), (None, None))
        if obs is None:
            return {"cfg": "no trace"}
        _, groups = _cfg_ops(case, obs)
        return _cfg_model_view(case, segs, groups)
    # sim: regroup the model's per-spawn segments into the steps of the observation
    tr, _ = _SIM_CACHE.get(id(case), (None, None))
    if tr is None:
        return {"sim": "no trace"}
    rn = _Renamer()
    out = []
    pos = 1          # segs[0] = after setup, segs[1] = after I
    cur = segs[1]
    for i, wis in enumerate(tr):
        recs = []
        if i > 0:
            for _ in wis:
                pos += 1
                cur = segs[pos]
                recs += cur["recs"]
        out.append({"recs": recs, "table": cur["table"], "socks": cur["socks"]})
    res = []
    for st in out:
        res.append({"recs": [{"w": r["w"], "close_fds": r["close_fds"], "argv": r["argv"],
                              "inherited": [[e[0], rn(e[1]), e[2], e[3], e[4]] for e in r["inherited"]],
                              "fd0": None if r["fd0"] is None else [rn(r["fd0"][0])] + r["fd0"][1:]}
                             for r in st["recs"]],
                    "table": [[e[0], rn(e[1]), e[2], e[3], e[4], e[5]] for e in st["table"]],
                    "socks": st["socks"]})
    return res


def views_equal(case, mv, iv):
    if case["kind"] == "sim" and isinstance(iv, list) and isinstance(mv, list):
        # after `quit` the model has not been told to close: compare up to the first step whose sockets are closed
        n = len(iv)
        for i, st in enumerate(iv):
            if any(fd is None for _, fd in st["socks"]):
                n = i
                break
        return mv[:n] == iv[:n]
    return mv == iv


def first_diff(case, mv, iv):
    if isinstance(mv, list) and isinstance(iv, list):
        for i, (a, b) in enumerate(zip(mv, iv)):
            if a != b:
                for key in a:
                    if a.get(key) != b.get(key):
                        return {"step": i, "field": key, "model": a.get(key), "impl": b.get(key)}
        return {"lengths": [len(mv), len(iv)]}
    return {"model": mv, "impl": iv}


# --------------------------------------------------------------------------- oracle

_REF = re.compile(r"\$\(circus\.sockets\.([\w.\-]+)\)|\(\(circus\.sockets\.([\w.\-]+)\)\)", re.I)


def _fail(sig, msg):
    return {"sig": sig, "msg": msg}


def _lookup(case, name):
    """the sockets a reference NAME can mean: the one spelled exactly so, else all spelled so up to case"""
    exact = [i for i, s in enumerate(case["sockets"]) if s["name"] == name]
    if exact:
        return exact, True
    return [i for i, s in enumerate(case["sockets"]) if s["name"].lower() == name.lower()], False


def _expected_argv(case, w, number_of):
    """argv as C07 wants it: each reference to a managed non-reuseport socket replaced by the number the
    oracle allows (number_of(index list) -> str or None = anything), everything else left alone.
    Returns list of (token regex) or None when the text does not split."""
    wild = "\x00W\x00"

    def sub(text):
        def repl(m):
            name = m.group(1) or m.group(2)
            idx, _ = _lookup(case, name)
            if not idx:
                return m.group(0)
            if all(case["sockets"][i]["reuseport"] for i in idx):
                return wild
            v = number_of(idx, name)
            return wild if v is None else v
        return _REF.sub(repl, text)
    try:
        toks = shlex.split(sub(w["cmd"]))
        if isinstance(w["args"], str):
            toks += shlex.split(sub(w["args"]))
        elif w["args"] is not None:
            toks += [sub(a) for a in w["args"]]
    except ValueError:
        return None
    return [re.compile("^" + r"-?\d+".join(re.escape(p) for p in t.split(wild)) + "$", re.S) for t in toks]


def _refs_of(w):
    texts = [w["cmd"]]
    if isinstance(w["args"], str):
        texts.append(w["args"])
    elif w["args"]:
        texts += list(w["args"])
    out = []
    for t in texts:
        for m in _REF.finditer(t):
            out.append(m.group(1) or m.group(2))
    return out


def _check_worker(case, w, rec, inherited, startup, fails, where):
    """one Popen call of a running daemon against C07.  startup: socket index -> [fd, ident, addr]"""
    _check_stdin(case, w, rec, startup, fails, where)
    if not w["use_sockets"]:
        if inherited:
            fails.append(_fail("C07:leak-without-use_sockets",
                               "%s: worker of a watcher without use_sockets (stdin_socket=%r) started with "
                               "close_fds=%r would inherit the daemon descriptors %r"
                               % (where, w.get("stdin"), rec["close_fds"], [e[0] for e in inherited])))
        return

    def number_of(idx, name):
        cands = [i for i in idx if not case["sockets"][i]["reuseport"]]
        if len(cands) == 1:
            return str(startup[cands[0]][0])
        return None
    exp = _expected_argv(case, w, number_of)
    if exp is None:
        return
    argv = rec["argv"]
    if len(exp) != len(argv) or not all(p.match(a) for p, a in zip(exp, argv)):
        # tell a case-collision (a socket shadowed by one whose name differs only by case) from anything else
        sig = "C07:wrong-descriptor-number"

        def any_of(idx, name):
            return None
        loose = _expected_argv(case, w, any_of)
        names = [s["name"].lower() for s in case["sockets"]]
        if loose and len(loose) == len(argv) and all(p.match(a) for p, a in zip(loose, argv)) \
                and len(set(names)) < len(names):
            sig = "C07:socket-name-case-shadow"
        fails.append(_fail(sig, "%s: argv %r does not carry the startup descriptor numbers of the referenced "
                                "sockets (expected %r)" % (where, argv, [p.pattern for p in exp])))
    inh = {e[0]: e for e in inherited}
    for name in _refs_of(w):
        idx, _ = _lookup(case, name)
        for i in idx:
            if case["sockets"][i]["reuseport"]:
                continue
            fd, ident, addr = startup[i]
            e = inh.get(fd)
            if e is None or e[1] != ident or e[2] != "s" or bool(e[3]) != _listens(case["sockets"][i]) or e[4] != addr:
                fails.append(_fail("C07:child-does-not-get-the-startup-socket",
                                   "%s: descriptor %d of the child is %r, not the listening socket %r bound at "
                                   "startup" % (where, fd, e, startup[i])))


def _listens(s):
    return s.get("type", "stream") in ("stream", "seqpacket")


def _check_stdin(case, w, rec, startup, fails, where):
    """descriptor 0 of the child: the stdin_socket (the socket of exactly that name) or nothing of the daemon"""
    if "fd0" not in rec:
        return
    f0 = rec["fd0"]
    name = w.get("stdin")
    if name is None:
        if f0 is not None:
            fails.append(_fail("C07:daemon-descriptor-on-stdin", "%s: no stdin_socket, descriptor 0 is %r" % (where, f0)))
        return
    idx = [i for i, s in enumerate(case["sockets"]) if s["name"] == name and not s["reuseport"]]
    if not idx or idx[0] not in startup:
        return
    fd, ident, addr = startup[idx[0]]
    if f0 is None or f0[0] != ident or f0[1] != "s" or f0[3] != addr:
        fails.append(_fail("C07:stdin-socket-not-the-startup-socket",
                           "%s: stdin_socket %r: descriptor 0 of the child is %r, the socket bound at startup is %r"
                           % (where, name, f0, startup[idx[0]])))


def _check_daemon(case, table, socks, startup, fails, where):
    by_fd = {e[0]: e for e in table}
    fd_of = dict((n, fd) for n, fd in socks)
    for i, s in enumerate(case["sockets"]):
        if s["reuseport"]:
            continue
        fd, ident, addr = startup[i]
        e = by_fd.get(fd)
        if fd_of.get(s["name"]) != fd:
            fails.append(_fail("C07:descriptor-number-changed", "%s: socket %r moved from %r to %r"
                               % (where, s["name"], fd, fd_of.get(s["name"]))))
        elif e is None or e[1] != ident or e[2] != "s" or bool(e[4]) != _listens(s) or e[5] != addr or not e[3]:
            fails.append(_fail("C07:managed-socket-rebound-or-closed",
                               "%s: descriptor %d of socket %r is now %r, at startup it was %r"
                               % (where, fd, s["name"], e, startup[i])))


def _startup(case, step):
    """socket index -> [fd, ident, addr] right after initialize; None when a socket is not as C07 says"""
    by_fd = {e[0]: e for e in step["table"]}
    fd_of = dict((n, fd) for n, fd in step["socks"])
    out = {}
    bad = []
    for i, s in enumerate(case["sockets"]):
        fd = fd_of.get(s["name"])
        e = by_fd.get(fd)
        if s["reuseport"]:
            continue
        if e is None or e[2] != "s" or not e[3] or bool(e[4]) != _listens(s) or e[5] != s.get("addr", i):
            bad.append((s["name"], fd, e))
            continue
        out[i] = [fd, e[1], e[5]]
    return out, bad


def _check_stopped(st, fails, where, infra=()):
    """C08, socket part: after the shutdown no managed socket is open and no unix-socket file is left"""
    if st.get("files"):
        fails.append(_fail("C08:unix-socket-file-left-behind",
                           "%s: after the shutdown the socket files %r still exist" % (where, st["files"])))
    open_socks = [e[0] for e in st["table"] if e[2] == "s" and e[0] not in infra]
    if open_socks or any(fd is not None for _, fd in st["socks"]):
        fails.append(_fail("C08:managed-socket-open-after-shutdown",
                           "%s: after the shutdown the socket descriptors %r are open (dict: %r)"
                           % (where, open_socks, st["socks"])))


def _oracle_steps(case, steps, recs_of, fails):
    """steps: dicts with table/socks (+phase for hist); recs_of(step) -> [(watcher dict, rec, inherited)]"""
    startup = None
    running = False
    for n, st in enumerate(steps):
        ph = st.get("phase")
        if not running and startup is None and ph == "r":
            startup, bad = _startup(case, st)
            running = True
            for b in bad:
                fails.append(_fail("C07:not-listening-inheritable-after-initialize",
                                   "step %d: socket %r (fd %r) is %r after initialize" % ((n,) + b)))
                return
        if ph != "r":
            running = False
            if ph == "x":
                startup = None
                _check_stopped(st, fails, "step %d" % n)
            continue
        for w, rec, inh in recs_of(st):
            _check_worker(case, w, rec, inh, startup, fails, "step %d" % n)
        _check_daemon(case, st["table"], st["socks"], startup, fails, "step %d" % n)


def oracle(case, obs):
    if "harness_exception" in obs:
        return [_fail("C07:harness-exception", obs["harness_exception"] + " " + obs.get("tb", "")[-600:])]
    fails = []
    k = case["kind"]
    if k == "hist":
        def recs_of(st):
            return [(case["watchers"][r["w"]], r, r["inherited"]) for r in st["recs"]]
        steps = obs["steps"]
        # a worker spawned while the daemon runs is checked against the photograph of its own fork
        _oracle_steps(case, steps, recs_of, fails)
    elif k == "sim":
        steps = []
        quit_seen = False
        for n, st in enumerate(obs["steps"]):
            closed = any(fd is None for _, fd in st["socks"])
            # (`restart` without a name restarts the arbiter itself: circusd shuts this one down and builds a new one)
            quit_seen = quit_seen or st["act"][0] in ("quit", "restart_all")
            if closed and not quit_seen and not st.get("blocked"):
                # only a shutdown closes the managed sockets: a request that restarts or reloads watchers leaves the
                # sockets bound at startup open, or no later worker generation can be handed them
                fails.append(_fail("C07:managed-socket-closed-without-shutdown",
                                   "step %d (%s): sockets %r are closed although no quit was requested"
                                   % (n, " ".join(str(x) for x in st["act"]), [nm for nm, fd in st["socks"] if fd is None])))
                break
            steps.append(dict(st, phase="x" if closed else "r"))

        def recs_of(st):
            out = []
            for r in st["recs"]:
                if r.get("name") is None:
                    continue
                out.append((case["watchers"][int(r["name"][1:])], r,
                            _inherit(r["photo"], r["close_fds"], r.get("pass_fds"))))
            return out
        _oracle_steps(case, steps, recs_of, fails)
    elif k == "cfg":
        # C07 "never rebound": across a reloadconfig a socket whose section is the same in both versions of the file stays
        # the very socket it was (same kernel object, same descriptor) — whatever happens to other sections
        vnow = 0
        for n, st in enumerate(obs["steps"]):
            if st["act"][0] == "reload" and n > 0 and not st.get("blocked"):
                v = st["act"][1]
                before = {nm: d for nm, d in obs["steps"][n - 1]["socks"]}
                after = {nm: d for nm, d in st["socks"]}
                old = {k_["name"]: k_ for k_ in case["versions"][vnow]}
                new = {k_["name"]: k_ for k_ in case["versions"][v]}
                for nm in sorted(set(old) & set(new)):
                    if old[nm] != new[nm]:
                        continue
                    b, a = before.get(nm.lower(), before.get(nm)), after.get(nm.lower(), after.get(nm))
                    if b is None:
                        continue
                    if a is None or list(b[:2]) != list(a[:2]):
                        fails.append(_fail("C07:managed-socket-rebound-or-closed",
                                           "step %d (reload %d): the section of socket %s is the same in both files, the daemon "
                                           "held %r before the reload and holds %r after it" % (n, v, nm, b[:2], None if a is None else a[:2])))
                vnow = v
        for n, st in enumerate(obs["steps"]):
            where = "step %d (%s)" % (n, " ".join(str(x) for x in st["act"]))
            # C08: nothing of a removed or replaced socket stays behind, at any moment
            paths = set(d[4] for _, d in st["socks"] if d is not None and d[5])
            left = [f for f in st["files"] if f not in paths]
            if left:
                fails.append(_fail("C08:unix-socket-file-left-behind",
                                   "%s: the socket files %r exist but belong to no socket of the daemon's dict %r"
                                   % (where, left, st["socks"])))
            if st["orphans"]:
                fails.append(_fail("C08:managed-socket-open-after-shutdown" if st["act"][0] == "quit" else
                                   "C08:removed-socket-not-closed",
                                   "%s: socket descriptors %r are open but belong to no socket of the dict"
                                   % (where, st["orphans"])))
            if st["act"][0] == "quit" and not st.get("blocked"):
                if st["files"] or any(d is not None for _, d in st["socks"]):
                    fails.append(_fail("C08:unix-socket-file-left-behind" if st["files"] else
                                       "C08:managed-socket-open-after-shutdown",
                                       "%s: after the shutdown files %r, dict %r" % (where, st["files"], st["socks"])))
            # C07: a worker of a watcher without use_sockets inherits nothing above stdio, reload or not
            for r in st["recs"]:
                if r.get("name") is None:
                    continue
                w = case["watchers"][int(r["name"][1:])]
                if not w["use_sockets"] and r["inherited"]:
                    fails.append(_fail("C07:leak-without-use_sockets",
                                       "%s: worker of %s (no use_sockets, stdin_socket=%r) would inherit %r"
                                       % (where, r["name"], w.get("stdin"), r["inherited"])))
                # C07: every worker of a use_sockets watcher — the first ones of a watcher reloadconfig has just created
                # included — gets the descriptor number of a socket the daemon holds in place of its reference
                if w["use_sockets"]:
                    have = set(str(nm).lower() for nm in r["fdmap"].values())
                    for tok in r["argv"]:
                        m = re.search(r"(?:\$\(|\(\()circus\.sockets\.([A-Za-z0-9_]+)\)", str(tok), re.I)
                        if m and m.group(1).lower() in have:
                            fails.append(_fail("C07:socket-reference-not-substituted",
                                               "%s: worker of %s was given %r although the daemon holds socket %s (%r)"
                                               % (where, r["name"], r["argv"], m.group(1), sorted(have))))
                            break
    elif k == "live":
        if "skipped" in obs:
            return []
        for n, rep in enumerate(obs["reports"]):
            w = case["watchers"][rep["w"]]
            if "raised" in rep:
                # what the recording Popen assumes about a preexec_fn that fails
                if rep["raised"] != "SubprocessError" or rep["open_after"] != rep["photo"]:
                    fails.append(_fail("C07:harness-preexec-rule-wrong",
                                       "live spawn %d: missing stdin_socket: %r, descriptors %r -> %r"
                                       % (n, rep["raised"], rep["photo"], rep["open_after"])))
                continue
            if w.get("stdin") == "nosuch":
                fails.append(_fail("C07:harness-preexec-rule-wrong", "live spawn %d: no exception" % n))
                continue
            child = {e["fd"]: e for e in rep["child"]["fds"]}
            if w.get("stdin") is not None:
                idx = [i for i, s in enumerate(case["sockets"]) if s["name"] == w["stdin"]]
                f0 = rep["child"].get("fd0") or {}
                if idx and (not f0.get("sock") or f0.get("ino") != rep["socks"][idx[0]][2]):
                    fails.append(_fail("C07:stdin-socket-not-the-startup-socket",
                                       "live spawn %d: descriptor 0 of the child is %r, the socket is %r"
                                       % (n, f0, rep["socks"][idx[0]])))
            daemon = {e[0]: e for e in rep["photo"]}
            if not w["use_sockets"]:
                inos = set(":".join(e[1][1:].split(":")[:2]) for e in rep["photo"])
                leaked = sorted(fd for fd in child if child[fd]["ino"] in inos)
                if leaked:
                    fails.append(_fail("C07:leak-without-use_sockets",
                                       "live spawn %d: the child sees daemon descriptors %r" % (n, leaked)))
                continue
            got = rep["child"]["argv"]
            for name, num in zip(w["names"], got):
                idx, exact = _lookup(case, name)
                if len(idx) != 1:
                    continue
                sname, sfd, sino, saddr = rep["socks"][idx[0]]
                e = child.get(int(num)) if re.match(r"^\d+$", num) else None
                if int(num) != sfd if re.match(r"^-?\d+$", num) else True:
                    lower = [s["name"].lower() for s in case["sockets"]]
                    fails.append(_fail("C07:socket-name-case-shadow" if len(set(lower)) < len(lower)
                                       else "C07:wrong-descriptor-number",
                                       "live spawn %d: %r -> %r, socket has %d" % (n, name, num, sfd)))
                elif e is None or not e["sock"] or e["ino"] != sino or e.get("name") != saddr or \
                        bool(e.get("listening")) != _listens(case["sockets"][idx[0]]):
                    fails.append(_fail("C07:child-does-not-get-the-startup-socket",
                                       "live spawn %d: fd %s in the child is %r, the daemon's socket is %r"
                                       % (n, num, e, rep["socks"][idx[0]])))
            # PEP 446 rule used by the photographs: the child sees exactly the inheritable ones
            want = sorted(e[0] for e in rep["photo"] if e[3])
            have = sorted(fd for fd in child if fd >= obs["base"])
            if want != have:
                fails.append(_fail("C07:harness-inheritance-rule-wrong",
                                   "live spawn %d: photograph predicts %r, the child sees %r" % (n, want, have)))
    return fails


def nontrivial(case, obs):
    if "harness_exception" in obs:
        return False
    if case["kind"] == "live":
        return bool(obs.get("reports"))
    if case["kind"] == "sim":
        n = sum(len(st["recs"]) for st in obs["steps"])
        return n > sum(w["np"] for w in case["watchers"])
    if case["kind"] == "cfg":
        # some socket was deleted, changed or added by a reload that really happened
        return any(st.get("dorder") or st.get("aorder") for st in obs["steps"])
    gens = {}
    handed = False
    seen_fd = {}
    reused = False
    for st in obs["steps"]:
        for e in st["table"]:
            if e[2] == "o":
                if e[0] in seen_fd and seen_fd[e[0]] != e[1]:
                    reused = True
                seen_fd[e[0]] = e[1]
        for r in st["recs"]:
            gens[r["w"]] = gens.get(r["w"], 0) + 1
            w = case["watchers"][r["w"]]
            if w["use_sockets"] and gens[r["w"]] > max(1, w["np"]) and st["phase"] == "r" and \
                    any(e[2] == "s" and e[3] for e in r["inherited"]) and _refs_of(w):
                handed = True
    return handed and reused


def stats(cases, impl):
    out = {"kinds": {}, "spawns": 0, "use_sockets_spawns": 0, "max_generations": 0, "reuseport_temp_sockets": 0,
           "name_case_collisions": 0, "init_raised": 0, "spawn_false": 0, "live_skipped": 0, "sim_blocked": 0,
           "ops": {}}
    for c, o in zip(cases, impl):
        out["kinds"][c["kind"]] = out["kinds"].get(c["kind"], 0) + 1
        if "harness_exception" in o:
            out["harness_exceptions"] = out.get("harness_exceptions", 0) + 1
            continue
        names = [s["name"].lower() for s in c.get("sockets", [])]
        if len(set(names)) < len(names):
            out["name_case_collisions"] += 1
        if c["kind"] == "live":
            if "skipped" in o:
                out["live_skipped"] += 1
            else:
                out["spawns"] += len(o["reports"])
            continue
        if o.get("leftover"):
            out.setdefault("window_moved_above", []).append(o["leftover"])
        if c["kind"] == "cfg":
            out.setdefault("cfg", {"reloads": 0, "deleted_or_changed": 0, "added": 0, "reload_errors": 0, "quits": 0})
            for st in o["steps"]:
                if st["act"][0] == "reload":
                    out["cfg"]["reloads"] += 1
                    out["cfg"]["deleted_or_changed"] += len(st.get("dorder") or [])
                    out["cfg"]["added"] += len(st.get("aorder") or [])
                    out["cfg"]["reload_errors"] += 1 if st.get("errors") else 0
                if st["act"][0] == "quit":
                    out["cfg"]["quits"] += 1
                out["spawns"] += len(st["recs"])
            continue
        if c["kind"] == "hist":
            for op in c["ops"]:
                out["ops"][op[0]] = out["ops"].get(op[0], 0) + 1
        gens = {}
        for st in o["steps"]:
            if st.get("blocked"):
                out["sim_blocked"] += 1
            if st.get("res") == "E":
                out["init_raised"] += 1
            if st.get("res") == "F":
                out["spawn_false"] += 1
            for r in st["recs"]:
                out["spawns"] += 1
                if "photo" in r:
                    out["reuseport_temp_sockets"] += max(0, sum(1 for e in r["photo"] if e[2] == "s")
                                                         - sum(1 for _, fd in st["socks"] if fd is not None))
                wi = r["w"] if "w" in r else (int(r["name"][1:]) if r.get("name") else None)
                if wi is None:
                    continue
                gens[wi] = gens.get(wi, 0) + 1
                if c["watchers"][wi]["use_sockets"]:
                    out["use_sockets_spawns"] += 1
        if gens:
            out["max_generations"] = max(out["max_generations"], max(gens.values()))
    return out


def shrink(case, failure):
    """drop ops / watchers / sockets while the same signature is still produced"""
    if case["kind"] != "hist":
        return case
    sig = failure.get("sig")

    def bad(c):
        try:
            return any(f.get("sig") == sig for f in oracle(c, impl_run(c)))
        except Exception:
            return False
    cur = case
    changed = True
    rounds = 0
    while changed and rounds < 6:
        changed = False
        rounds += 1
        i = 0
        while i < len(cur["ops"]):
            c2 = dict(cur, ops=cur["ops"][:i] + cur["ops"][i + 1:])
            if bad(c2):
                cur = c2
                changed = True
            else:
                i += 1
    return cur
