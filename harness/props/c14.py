from harness.corecheck import make
MODULE = make("C14", ["CircusProofs/Props/C14.lean"], ["CircusProofs/Core/Pres.lean"])
