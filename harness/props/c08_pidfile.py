"""C08 (pid-file half) — refuses to run when the pid file names another live process, takes over a
stale, empty or garbled one, removes the pid file it created.

Correspondence: the REAL `circus.pidfile.Pidfile` on scratch files under $VERIF_SCRATCH, with
`os.kill` / `os.getpid` replaced *inside circus.pidfile only* (module attribute `os` → a proxy,
restored afterwards) by the case's liveness oracle, and the REAL `circus.circusd.main` with a
scripted fake `Arbiter` (how each turn of the restart loop ends), against `Circus.Pidfile.*`.
Oracle: the pid-file clauses of C08 restated on the files the implementation left behind."""
import contextlib
import errno
import io
import os
import shutil
import sys
import tempfile

from harness.core import enc_opt, dec_opt

LEAN_PROPS = ["CircusProofs/Props/C08Pidfile.lean"]
LEAN_LEMMAS = ["CircusProofs/Lemmas/PyInt.lean", "CircusProofs/Lemmas/Pidfile.lean"]
RULE = ("cases = (pid-file contents: absent | empty | blanks | '<pid>\\n' | own pid | negative | zero | garbled | "
        "underscored | huge | undecodable bytes, liveness table pid -> alive/dead/eperm, own pid, directory present?) "
        "with either a sequence of validate/create/unlink/'somebody rewrites the file' operations on one Pidfile "
        "object, or a run of circusd.main with a scripted list of restart-loop turns; systematic block over all "
        "contents x liveness x operation, random block from VERIF_SEED; non-trivial = the file existed before; "
        "distinct by content hash")
ASSUMPTIONS = [
    "pid-file text is ASCII (PyInt domain); undecodable bytes are handed to the model as U+FFFD (garbled either way: "
    "UnicodeDecodeError is a ValueError)",
    "the pid file is a readable regular file or absent; other IOErrors of open() (EACCES, EISDIR) are re-raised by "
    "the code and not modelled; os.open/os.write/os.unlink do not fail",
    "os.kill(pid, 0) answers alive / ESRCH / EPERM for pids that fit a C int and raises OverflowError beyond 2^31-1 "
    "(checked against the real os.kill on every run, corpus case real_kill); validate treats that as 'no pid at all' "
    "(garbled) since the repair of the former finding pidfile-huge-pid-overflow",
    "circusd.main: argument parsing, config loading, logging and the arbiter are replaced by a scripted fake; only the "
    "pid-file handling, the restart loop's try/except/finally and the exit status are the real code",
    "sys.get_int_max_str_digits() == 4300",
]
SCRATCH = os.environ.get("VERIF_SCRATCH", "/dev/shm")
OWN = 4242


# --------------------------------------------------------------------------- cases

def _live(default="d", **tbl):
    return {"default": default, "tbl": {str(k).lstrip("p"): v for k, v in tbl.items()}}


CONTENTS = [None, "", " ", "\n", " \t\r\n", "123\n", "123", " 123 \n", "+123\n", "%d\n" % OWN, "%d" % OWN, "0%d\n" % OWN,
            "-5", "-5\n", "0", "0\n", "-0", "00", "12abc", "abc", "1_0", "1_0\n", "1__0", "_10", "10_", "12 3", "1.5", "0x10",
            "123\n456\n", "\x0c123\x0b", "\x1c123", "123\x00", "2147483647\n", "2147483648\n", "99999999999999999999\n",
            "4194305\n", "1" * 4300, "1" * 4301, "0" * 4300 + "7", "0" * 4299 + "7\n", "٣"]


def _ops_case(file, live, ops, self_pid=OWN, dir_ok=True, raw_hex=None, real_kill=False):
    c = {"kind": "ops", "file": file, "self_pid": self_pid, "dir_ok": dir_ok, "live": live, "ops": ops}
    if raw_hex is not None:
        c["raw_hex"] = raw_hex
    if real_kill:
        c["real_kill"] = True
    return c


def _main_case(use, file, live, turns, own=OWN, dir_ok=True):
    return {"kind": "main", "use": use, "file": file, "own": own, "dir_ok": dir_ok, "live": live, "turns": turns}


def _ascii(s):
    return s is None or all(ord(ch) < 128 for ch in s)


def generate(rng, tier):
    cases = []
    contents = [c for c in CONTENTS if _ascii(c)]
    for f in contents:
        for lv in ("a", "d", "e"):
            live = {"default": lv, "tbl": {str(OWN): "a"}}
            cases.append(_ops_case(f, live, [["v"], ["c", OWN], ["v"], ["u"]]))
            cases.append(_ops_case(f, live, [["u"]]))
            cases.append(_main_case(True, f, live, ["fd"]))
    for f in contents[:12]:
        # own pid recorded as dead / file names own pid while create is called with another pid
        cases.append(_ops_case(f, {"default": "d", "tbl": {}}, [["c", OWN], ["u"], ["c", OWN + 1], ["u"]]))
        cases.append(_ops_case(f, {"default": "a", "tbl": {}}, [["c", OWN + 1], ["u"]]))
    turns_all = ["fr", "fd", "fx", "re", "rl", "ie", "il"]
    for t in turns_all:
        for pre in ([], ["fr"], ["ie", "fr"]):
            cases.append(_main_case(True, None, _live("d", **{"p%d" % OWN: "a"}), pre + [t]))
            cases.append(_main_case(True, "777\n", _live("d", p777="a"), pre + [t]))
            cases.append(_main_case(False, "777\n", _live("d", p777="a"), pre + [t]))
    cases.append(_ops_case(None, _live("d"), [["c", OWN]], dir_ok=False))
    cases.append(_main_case(True, None, _live("d"), ["fd"], dir_ok=False))
    N = 250 if tier == "quick" else 8000
    pids = [1, 2, 77, 123, 777, OWN, OWN + 1, 32768, 4194304, 2 ** 31 - 1, 2 ** 31, 2 ** 40]
    for _ in range(N):
        r = rng.random()
        if r < 0.3:
            f = rng.choice(contents)
        elif r < 0.75:
            p = rng.choice(pids)
            f = rng.choice(["", " ", "\n", "+", "-", "0"]) + str(p) + rng.choice(["", "\n", "\n", " \n", "x", "_", "\r\n"])
        else:
            f = "".join(rng.choice("0123456789_ +-\nab\t") for _ in range(rng.randint(0, 6)))
        live = {"default": rng.choice("adde"), "tbl": {str(rng.choice(pids)): rng.choice("ade") for _ in range(rng.randint(0, 3))}}
        if rng.random() < 0.6:
            live["tbl"][str(OWN)] = "a"
        if rng.random() < 0.65:
            ops = []
            for _ in range(rng.randint(1, 6)):
                o = rng.random()
                if o < 0.35:
                    ops.append(["c", rng.choice([OWN, OWN, OWN, OWN + 1, 123])])
                elif o < 0.6:
                    ops.append(["u"])
                elif o < 0.8:
                    ops.append(["v"])
                else:
                    ops.append(["w", rng.choice(contents[:30])])
            cases.append(_ops_case(f, live, ops))
        else:
            turns = [rng.choice(turns_all) for _ in range(rng.randint(0, 4))]
            cases.append(_main_case(rng.random() < 0.85, f, live, turns))
    return cases


def corpus():
    return [
        # the real os.kill, not the oracle: pid beyond a C int / beyond pid_max
        _ops_case("2147483648\n", _live("d"), [["v"]], real_kill=True),
        _ops_case("2147483647\n", _live("d"), [["v"], ["c", OWN]], real_kill=True),
        # undecodable bytes: UnicodeDecodeError is a ValueError → garbled
        _ops_case("��", _live("a"), [["v"], ["c", OWN], ["u"]], raw_hex="fffe"),
        _ops_case("�", _live("a"), [["u"]], raw_hex="ff"),
        # witness of the former finding pidfile-huge-pid-overflow (repaired): a number that is no pid is taken over,
        # also when the oracle would call it alive
        _ops_case("2147483648\n", _live("a"), [["v"], ["c", OWN], ["u"]]),
        _main_case(True, "99999999999999999999\n", _live("a"), ["fr", "fd"]),
        _main_case(True, "2147483648\n", _live("d"), ["fd"]),
        _main_case(True, "123\n", _live("d", p123="a"), ["fd"]),
        _main_case(True, "123\n", _live("d", p123="e"), ["fd"]),
    ]


# --------------------------------------------------------------------------- implementation side

class _OsProxy(object):
    """`os` with kill/getpid scripted; everything else is the real module."""

    def __init__(self, live, own, real_kill=False):
        self._live = live
        self._own = own
        self._real_kill = real_kill
        self.kills = []

    def __getattr__(self, name):
        return getattr(os, name)

    def getpid(self):
        return self._own

    def kill(self, pid, sig):
        self.kills.append([pid, sig])
        if sig != 0:
            raise AssertionError("pidfile sent a real signal %r" % sig)
        if self._real_kill and pid > 4194304:
            return os.kill(pid, 0)        # beyond pid_max: no process can be hit
        if not (-2 ** 31 <= pid < 2 ** 31):
            raise OverflowError("signed integer is greater than maximum")
        lv = self._live["tbl"].get(str(pid), self._live["default"])
        if lv == "a":
            return None
        if lv == "d":
            raise ProcessLookupError(errno.ESRCH, "No such process")
        raise PermissionError(errno.EPERM, "Operation not permitted")


def _read(path):
    if not os.path.exists(path):
        return None
    with open(path, "rb") as fh:
        return fh.read().decode("utf-8", "replace")


def _write(path, text, raw_hex=None):
    if text is None:
        if os.path.exists(path):
            os.unlink(path)
        return
    with open(path, "wb") as fh:
        fh.write(bytes.fromhex(raw_hex) if raw_hex is not None else text.encode("utf-8"))


def _exc_name(e):
    if isinstance(e, RuntimeError):
        return "RuntimeError-stale" if "is stale" in str(e) else "RuntimeError-nodir" if "doesn't exist" in str(e) \
            else "RuntimeError-other"
    if isinstance(e, OverflowError):
        return "OverflowError"
    if isinstance(e, OSError):
        return "OSError"
    return type(e).__name__


def _run_ops(case, d):
    import circus.pidfile as pf_mod
    path = os.path.join(d, "run" if case["dir_ok"] else "missing", "circus.pid")
    if case["dir_ok"]:
        os.mkdir(os.path.dirname(path))
        _write(path, case["file"], case.get("raw_hex"))
    proxy = _OsProxy(case["live"], case["self_pid"], case.get("real_kill", False))
    saved = pf_mod.os
    pf_mod.os = proxy
    steps = []
    try:
        pf = pf_mod.Pidfile(path)
        for op in case["ops"]:
            try:
                if op[0] == "v":
                    r = pf.validate()
                    res = "none" if r is None else "owner:%d" % r
                elif op[0] == "c":
                    r = pf.create(op[1])
                    res = "ok" if r is None else "returned:%r" % (r,)
                elif op[0] == "u":
                    r = pf.unlink()
                    res = "-"
                elif op[0] == "w":
                    _write(path, op[1])
                    res = "-"
                else:
                    raise AssertionError(op)
            except (RuntimeError, OSError, OverflowError, ValueError) as e:
                res = "raise:" + _exc_name(e)
            steps.append({"res": res, "file": _read(path), "pid": pf.pid})
    finally:
        pf_mod.os = saved
    return {"steps": steps, "signals_sent": [k for k in proxy.kills if k[1] != 0]}


class _StillRunning(BaseException):
    """the scripted turns are used up: the daemon would still be running"""


def _run_main(case, d):
    import asyncio
    import circus.circusd as cd
    import circus.pidfile as pf_mod
    path = os.path.join(d, "run" if case["dir_ok"] else "missing", "circus.pid")
    if case["dir_ok"]:
        os.mkdir(os.path.dirname(path))
        _write(path, case["file"])
    turns = list(case["turns"])
    state = {"started": False, "emergency": 0}
    loop = asyncio.new_event_loop()

    class FakeLoop(object):
        def run_sync(self, fn):
            state["emergency"] += 1

    class FakeArbiter(object):
        umask = None
        pidfile = None
        loop = FakeLoop()
        _emergency_stop = None
        _turn = None

        @classmethod
        def load_from_config(cls, config_file, loop=None):
            return cls()

        def start(self):
            state["started"] = True
            if not turns:
                raise _StillRunning()
            t = turns.pop(0)
            self._turn = t
            if t == "re":
                raise ValueError("scripted: start() raised")
            if t == "ie":
                raise KeyboardInterrupt()
            fut = loop.create_future()
            if t == "fx":
                fut.set_exception(ValueError("scripted: future exception"))
            else:
                fut.set_result(t == "fr")
            return fut

        @property
        def _restarting(self):
            if self._turn == "rl":
                raise ValueError("scripted: raised late")
            if self._turn == "il":
                raise KeyboardInterrupt()
            return self._turn == "fr"

    proxy = _OsProxy(case["live"], case["own"])
    saved = (cd.Arbiter, cd.get_config, cd.configure_logger, cd.os, pf_mod.os, sys.argv, cd.logger.disabled)
    cd.Arbiter = FakeArbiter
    cd.get_config = lambda path: {}
    cd.configure_logger = lambda *a, **k: None
    cd.os = proxy
    pf_mod.os = proxy
    cd.logger.disabled = True
    sys.argv = ["circusd"] + (["--pidfile", path] if case["use"] else []) + [os.path.join(d, "circus.ini")]
    out = io.StringIO()
    try:
        with contextlib.redirect_stdout(out), contextlib.redirect_stderr(io.StringIO()):
            try:
                cd.main()
                ex = "returned"
            except SystemExit as e:
                ex = "status:%s" % (0 if e.code is None else e.code)
            except _StillRunning:
                ex = "running"
            except (OverflowError, OSError, RuntimeError) as e:
                ex = "uncaught:" + _exc_name(e)
            except ValueError as e:
                ex = "uncaught:arbiter" if "scripted" in str(e) else "uncaught:ValueError"
            except KeyboardInterrupt:
                ex = "uncaught:KeyboardInterrupt"
    finally:
        cd.Arbiter, cd.get_config, cd.configure_logger, cd.os, pf_mod.os, sys.argv, cd.logger.disabled = saved
        loop.close()
    return {"file": _read(path), "exit": ex, "started": state["started"], "printed": out.getvalue().strip() != "",
            "signals_sent": [k for k in proxy.kills if k[1] != 0]}


def impl_run(case):
    d = tempfile.mkdtemp(prefix="verif-c08pf-", dir=SCRATCH)
    try:
        return _run_ops(case, d) if case["kind"] == "ops" else _run_main(case, d)
    finally:
        shutil.rmtree(d, ignore_errors=True)


def impl_view(case, obs):
    if "harness_exception" in obs:
        return obs
    if case["kind"] == "ops":
        return {"steps": obs["steps"]}
    return {"file": obs["file"], "exit": obs["exit"], "started": obs["started"]}


# --------------------------------------------------------------------------- model side

def _enc_live(live):
    return ",".join([live["default"]] + ["%s=%s" % (k, v) for k, v in sorted(live["tbl"].items(), key=lambda kv: int(kv[0]))])


def model_line(case):
    if case["kind"] == "ops":
        toks = ["pidfile", "ops", enc_opt(case["file"]), str(case["self_pid"]), "1" if case["dir_ok"] else "0",
                _enc_live(case["live"])]
        for op in case["ops"]:
            toks.append("c:%d" % op[1] if op[0] == "c" else "w:%s" % enc_opt(op[1]) if op[0] == "w" else op[0])
        return " ".join(toks)
    return " ".join(["pidfile", "main", "1" if case["use"] else "0", enc_opt(case["file"]), str(case["own"]),
                     "1" if case["dir_ok"] else "0", _enc_live(case["live"])] + case["turns"])


def _dec_file(t):
    v = dec_opt(t)
    return None if v is None else "".join(map(chr, v))


def model_parse(case, line):
    if line == "bad-op":
        return {"bad": True}
    if case["kind"] == "ops":
        steps = []
        for part in line.split(";") if case["ops"] else []:
            res, f, pid = part.split(" ")
            steps.append({"res": res, "file": _dec_file(f), "pid": int(pid)})
        return {"steps": steps}
    f, ex, started = line.split(" ")
    return {"file": _dec_file(f), "exit": ex, "started": started == "1"}


# --------------------------------------------------------------------------- oracle

def _pyparse(text):
    """what the file 'names': ('absent' | 'empty' | 'garbled' | 'pid', value)"""
    if text is None:
        return ("absent", None)
    if text == "":
        return ("empty", None)
    try:
        return ("pid", int(text))
    except ValueError:
        return ("garbled", None)


def _liveness(live, pid):
    return live["tbl"].get(str(pid), live["default"])


def _check_create(pre_file, pid, live, dir_ok, res, post_file, fails, where):
    kind, val = _pyparse(pre_file)
    names_other_live = kind == "pid" and val > 0 and val != pid and val < 2 ** 31 and _liveness(live, val) in ("a", "e")
    refused = res != "ok"
    if names_other_live:
        # refuses to run when the pid file names another live process
        if not refused or post_file != pre_file:
            fails.append({"sig": "pidfile-ran-over-live-owner", "msg": "%s: file %r names live pid %d, create(%d) -> %s, "
                          "file now %r" % (where, pre_file, val, pid, res, post_file)})
        return
    own_live = kind == "pid" and val == pid and val > 0 and val < 2 ** 31 and _liveness(live, val) in ("a", "e")
    if own_live:
        return                    # its own file: nothing is demanded beyond not refusing for 'alive'
    if not dir_ok:
        return
    # takes over a stale, empty or garbled one (absent included)
    if refused or post_file != "%d\n" % pid:
        fails.append({"sig": "pidfile-no-takeover",
                      "msg": "%s: file %r (%s) names no live process, create(%d) -> %s, file now %r"
                             % (where, pre_file, kind, pid, res, post_file)})


def oracle(case, obs):
    if "harness_exception" in obs:
        return [{"sig": "pidfile-harness-exception", "msg": obs["harness_exception"]}]
    fails = []
    if obs.get("signals_sent"):
        fails.append({"sig": "pidfile-sent-signal", "msg": "a real signal was sent: %r" % obs["signals_sent"]})
    live = case["live"]
    if case["kind"] == "ops":
        cur_file, cur_pid = case["file"], case["self_pid"]
        if "raw_hex" in case:
            return fails     # decode differences: correspondence only
        created = False
        for i, (op, st) in enumerate(zip(case["ops"], obs["steps"])):
            if op[0] == "c":
                _check_create(cur_file, op[1], live, case["dir_ok"], st["res"], st["file"], fails, "op %d" % i)
                created = st["res"] == "ok" and st["file"] == "%d\n" % op[1]
            elif op[0] == "u":
                kind, val = _pyparse(cur_file)
                # removes the pid file it created …
                if created and cur_file == "%d\n" % cur_pid and st["file"] is not None:
                    fails.append({"sig": "pidfile-not-removed", "msg": "op %d: own pid file %r still there" % (i, cur_file)})
                # … and never one that names somebody else
                if kind == "pid" and val != cur_pid and val > 0 and st["file"] != cur_file:
                    fails.append({"sig": "pidfile-removed-foreign", "msg": "op %d: file %r of pid %d removed by %d"
                                                                            % (i, cur_file, val, cur_pid)})
            elif op[0] == "w":
                created = False
            elif op[0] == "v":
                if st["file"] != cur_file:
                    fails.append({"sig": "pidfile-validate-wrote", "msg": "op %d: validate changed the file" % i})
            cur_file, cur_pid = st["file"], st["pid"]
        return fails[:3]
    # main
    pre = case["file"]
    if not case["use"]:
        if obs["file"] != pre:
            fails.append({"sig": "pidfile-touched-without-option", "msg": "no --pidfile, but %r became %r" % (pre, obs["file"])})
        return fails
    kind, val = _pyparse(pre)
    other_live = kind == "pid" and val > 0 and val != case["own"] and val < 2 ** 31 and _liveness(live, val) in ("a", "e")
    if other_live:
        if obs["started"] or obs["file"] != pre or obs["exit"] == "status:0":
            fails.append({"sig": "pidfile-ran-over-live-owner", "msg": "main: file %r names live pid %d: started=%s exit=%s file=%r"
                                                                      % (pre, val, obs["started"], obs["exit"], obs["file"])})
        elif _liveness(live, val) == "a" and obs["exit"] != "status:1":
            fails.append({"sig": "pidfile-refusal-status", "msg": "main: refusal should exit 1, got %s" % obs["exit"]})
        return fails
    own_live = kind == "pid" and val == case["own"] and _liveness(live, val) in ("a", "e")
    if own_live and _liveness(live, val) == "e":
        return fails
    if case["dir_ok"]:
        if not obs["started"]:
            fails.append({"sig": "pidfile-no-takeover",
                          "msg": "main: file %r (%s) names no live process but the daemon did not start: %s"
                                 % (pre, kind, obs["exit"])})
            return fails
        # shutdown paths: the turn list decides; when the loop ended normally the pid file it created is gone, exit 0
        t = [x for x in case["turns"]]
        ended = None
        for x in t:
            if x in ("fd", "fx", "il"):
                ended = x
                break
            if x in ("re", "rl"):
                ended = "crash"
                break
        if ended in ("fd", "fx", "il"):
            if obs["exit"] != "status:0":
                fails.append({"sig": "pidfile-exit-status", "msg": "main: clean end but exit %s" % obs["exit"]})
            if obs["file"] is not None:
                fails.append({"sig": "pidfile-not-removed", "msg": "main: clean end but pid file still %r" % obs["file"]})
        if ended is None and obs["exit"] == "running" and _pyparse(obs["file"]) != ("pid", case["own"]):
            fails.append({"sig": "pidfile-missing-while-running", "msg": "main: running but pid file is %r" % obs["file"]})
    return fails[:3]


def nontrivial(case, obs):
    return case["file"] is not None


def stats(cases, impl):
    out = {"ops_cases": sum(1 for c in cases if c["kind"] == "ops"), "main_cases": sum(1 for c in cases if c["kind"] == "main")}
    kinds = {}
    for c in cases:
        k = _pyparse(c["file"])[0]
        kinds[k] = kinds.get(k, 0) + 1
    out["file_kinds"] = kinds
    res = {}
    for c, o in zip(cases, impl):
        if c["kind"] == "ops" and "steps" in o:
            for op, st in zip(c["ops"], o["steps"]):
                if op[0] == "c":
                    res[st["res"]] = res.get(st["res"], 0) + 1
        elif "exit" in o:
            res["main " + o["exit"]] = res.get("main " + o["exit"], 0) + 1
    out["outcomes"] = res
    return out
