"""C15 across reloadconfig: the watcher list and the lower-cased name dict stay coherent when watchers come and go
through `Arbiter.reload_from_config` (which is outside the core model). Reuses the reloadconfig harness of C12
(harness/reloadsim.py, harness/props/c12.py: the real Arbiter.load_from_config / reloadconfig on the simulated kernel,
the Reload model on the Lean side); only the oracle is C15's: after every reload the dict keys are exactly the
lower-cased names of the listed watchers, no two equal, and every listed watcher is found under every letter-case
variant of its name (what `status`/`stop`/… by name would look up)."""
from harness.props import c12 as _c12

LEAN_PROPS = []                      # the theorems this part leans on are C12's; C15's own are in the core part
LEAN_LEMMAS = []
RULE = "the edit sequences of the C12 generator (a 60-case sample per run) judged by the directory-coherence oracle of C15"
ASSUMPTIONS = ["section names of one file are distinct ignoring letter case (files that violate this are known finding F24 of C12)"]
TRUSTED_EXTRA = _c12.TRUSTED_EXTRA

impl_run = _c12.impl_run
impl_view = _c12.impl_view
model_line = _c12.model_line
model_parse = _c12.model_parse
first_diff = _c12.first_diff
if hasattr(_c12, "views_equal"):
    views_equal = _c12.views_equal


def generate(rng, tier):
    cases = [c for c in _c12.generate(rng, tier) if not any(_c12.has_clash(v) for v in c["versions"])]
    return cases[:60 if tier == "quick" else 400]


def corpus():
    return []


def oracle(case, obs):
    if "harness_exception" in obs:
        return [{"sig": "harness-exception", "msg": obs["harness_exception"]}]
    fails = []
    for i, o in enumerate(obs["steps"]):
        if o.get("blocked"):
            break
        lows = sorted(w["name"].lower() for w in o["watchers"])
        idx = sorted(o["names_index"])
        if len(set(lows)) != len(lows):
            fails.append({"sig": "two-watchers-equal-up-to-case", "step": i, "msg": "watchers %r" % lows})
        elif lows != idx:
            fails.append({"sig": "directory-incoherent-after-reloadconfig", "step": i,
                          "msg": "listed watchers %r, name index %r" % (lows, idx)})
        if fails:
            break
    return fails


def nontrivial(case, obs):
    return len(case.get("versions", [])) >= 2


def stats(cases, impl):
    return {"reload_sequences": len(cases), "reloads": sum(max(0, len(c.get("versions", [])) - 1) for c in cases)}
