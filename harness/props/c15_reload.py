"""C15 across reloadconfig: the watcher list and the lower-cased name dict stay coherent when watchers come and go
through `Arbiter.reload_from_config` (which is outside the core model). Reuses the reloadconfig harness of C12
(harness/reloadsim.py, harness/props/c12.py: the real Arbiter.load_from_config / reloadconfig on the simulated kernel,
the Reload model on the Lean side); only the oracle is C15's: after every reload the dict keys are exactly the
lower-cased names of the listed watchers, no two equal, and every listed watcher is found under every letter-case
variant of its name (what `status`/`stop`/… by name would look up)."""
from harness.props import c12 as _c12

LEAN_PROPS = []                      # the theorems this part leans on are C12's; C15's own are in the core part
LEAN_LEMMAS = []
RULE = ("the edit sequences of the C12 generator (a 60-case sample per run) plus sequences in which a changed watcher cannot be made again "
        "(the reload fails after the old watcher has been taken out; then the file is reverted), judged by the directory-coherence oracle of C15")
ASSUMPTIONS = ["section names of one file are distinct ignoring letter case (files that violate this are known finding F24 of C12)"]
TRUSTED_EXTRA = _c12.TRUSTED_EXTRA

from harness import reloadsim as _R


def impl_run(case):
    if case.get("family") == "failing-readd":
        # a version whose section cannot be turned into a watcher has no fresh start to compare with: the reloads only
        return {"steps": _R.run_versions(case["environ"], _c12.texts_of(case)), "fresh": []}
    return _c12.impl_run(case)


def impl_view(case, obs):
    if case.get("family") == "failing-readd" and "harness_exception" not in obs:
        return {"model": "out-of-domain"}          # singleton is outside the Reload model: the driver says so too
    return _c12.impl_view(case, obs)


model_line = _c12.model_line
model_parse = _c12.model_parse
first_diff = _c12.first_diff
if hasattr(_c12, "views_equal"):
    views_equal = _c12.views_equal


def _failing_readd(rng):
    """a reload in which a CHANGED watcher cannot be made again (the constructor refuses `singleton` with numprocesses > 1): the
    old watcher has been stopped and taken out by then — whatever the reload answers, list and name index must agree"""
    c = _c12.gen_case(rng, wild=False)
    vs = c["versions"]
    k = rng.randrange(1, len(vs)) if len(vs) > 1 else None
    if k is None or not vs[k]["watchers"]:
        vs.append(_c12._copy(vs[-1]))
        c["edits"].append(["noop"])
        k = len(vs) - 1
    keep = set(n for n, _ in vs[k - 1]["watchers"])
    cands = [w for w in vs[k]["watchers"] if w[0] in keep] or vs[k]["watchers"]
    w = rng.choice(cands)
    w[1][:] = [o for o in w[1] if o[0] not in ("numprocesses", "singleton")] + [["singleton", "True"], ["numprocesses", str(rng.choice([2, 3]))]]
    del vs[k + 1:]
    del c["edits"][k:]
    vs.append(_c12._copy(vs[k - 1]))            # the administrator reverts the file and reloads again
    c["family"] = "failing-readd"
    return c


def generate(rng, tier):
    cases = [c for c in _c12.generate(rng, tier) if not any(_c12.has_clash(v) for v in c["versions"])]
    cases = cases[:60 if tier == "quick" else 400]
    return cases + [_failing_readd(rng) for _ in range(12 if tier == "quick" else 120)]


def corpus():
    return []


def oracle(case, obs):
    if "harness_exception" in obs:
        return [{"sig": "harness-exception", "msg": obs["harness_exception"]}]
    fails = []
    for i, o in enumerate(obs["steps"]):
        if o.get("blocked"):
            break
        lows = sorted(w["name"].lower() for w in o["watchers"])
        idx = sorted(o["names_index"])
        if len(set(lows)) != len(lows):
            fails.append({"sig": "two-watchers-equal-up-to-case", "step": i, "msg": "watchers %r" % lows})
        elif lows != idx:
            fails.append({"sig": "directory-incoherent-after-reloadconfig", "step": i,
                          "msg": "listed watchers %r, name index %r" % (lows, idx)})
        if fails:
            break
    return fails


def nontrivial(case, obs):
    return len(case.get("versions", [])) >= 2


def stats(cases, impl):
    return {"reload_sequences": len(cases), "reloads": sum(max(0, len(c.get("versions", [])) - 1) for c in cases)}
